// C16, callers of create_file_cleanly: the derived .symindex file that wholesym writes next to a local Breakpad .sym file.
// One case per line: <scratch dir> <number of FUNC records> <RLIMIT_FSIZE in bytes for the first attempt, 0 = ref_len - 10>
// The first attempt runs with the file-size limit lowered (SIGXFSZ ignored), so the write that crosses the limit fails with EFBIG
// after storing the bytes below it; the retry runs without a limit.
// Output: "ref=<len> first=<absent|complete|partial:<len>> ok1=<0|1> retry=<absent|complete|partial:<len>> ok2=<0|1>"
use std::io::BufRead;
use std::path::{Path, PathBuf};

use wholesym::{SymbolManager, SymbolManagerConfig};

const DEBUG_NAME: &str = "big.pdb";
const BREAKPAD_ID: &str = "AA152DEB2D9B76084C4C44205044422E1";

fn make_sym(n: u32) -> Vec<u8> {
    let mut s = format!("MODULE windows x86_64 {BREAKPAD_ID} {DEBUG_NAME}\nFILE 0 /src/big.cpp\n");
    for i in 0..n {
        let a = 0x1000 + i * 0x20;
        s.push_str(&format!("FUNC {a:x} 20 0 big::f{i}(int)\n{a:x} 10 {} 0\n{:x} 10 {} 0\n", 10 + i, a + 0x10, 11 + i));
    }
    s.into_bytes()
}

fn set_limit(limit: libc::rlim_t) -> libc::rlim_t {
    unsafe {
        libc::signal(libc::SIGXFSZ, libc::SIG_IGN);
        let mut lim: libc::rlimit = std::mem::zeroed();
        assert_eq!(libc::getrlimit(libc::RLIMIT_FSIZE, &mut lim), 0);
        let old = lim.rlim_cur;
        lim.rlim_cur = limit;
        assert_eq!(libc::setrlimit(libc::RLIMIT_FSIZE, &lim), 0);
        old
    }
}

async fn load(cfg: SymbolManagerConfig) -> bool {
    let sm = SymbolManager::with_config(cfg);
    sm.load_symbol_map(DEBUG_NAME, debugid::DebugId::from_breakpad(BREAKPAD_ID).unwrap()).await.is_ok()
}

fn state(dest: &Path, expected: &[u8]) -> String {
    match std::fs::read(dest) {
        Err(_) => "absent".to_string(),
        Ok(b) if b == expected => "complete".to_string(),
        Ok(b) => format!("partial:{}", b.len()),
    }
}

// ---- the download path (wholesym/src/downloader.rs download_to_file -> create_file_cleanly): a .sym file fetched from a Breakpad symbol server ----
// One case per line: D <scratch dir> <number of FUNC records> <gzip|identity> <cut: per mille of the body that the first response carries, 1000 = all>
// A local HTTP server answers the first request with a body cut short (gzip: a well-formed message around a compressed stream that ends early;
// identity: fewer bytes than Content-Length announces, then the connection closes) and
// every later request completely.  Output: "dl first=<absent|complete|partial:n> ok1=<0|1> retry=<...> ok2=<0|1>" for the file in the download cache.
fn crc32(data: &[u8]) -> u32 {
    let mut crc = 0xFFFF_FFFFu32;
    for &b in data {
        crc ^= b as u32;
        for _ in 0..8 {
            crc = if crc & 1 != 0 { (crc >> 1) ^ 0xEDB8_8320 } else { crc >> 1 };
        }
    }
    !crc
}

/// a gzip member made of stored deflate blocks
fn gzip_stored(data: &[u8]) -> Vec<u8> {
    let mut out = vec![0x1f, 0x8b, 8, 0, 0, 0, 0, 0, 0, 3];
    let mut chunks = data.chunks(60000).peekable();
    if data.is_empty() {
        out.extend_from_slice(&[1, 0, 0, 0xff, 0xff]);
    }
    while let Some(c) = chunks.next() {
        out.push(if chunks.peek().is_none() { 1 } else { 0 });
        out.extend_from_slice(&(c.len() as u16).to_le_bytes());
        out.extend_from_slice(&(!(c.len() as u16)).to_le_bytes());
        out.extend_from_slice(c);
    }
    out.extend_from_slice(&crc32(data).to_le_bytes());
    out.extend_from_slice(&(data.len() as u32).to_le_bytes());
    out
}

fn serve(listener: std::net::TcpListener, bodies: Vec<(Vec<u8>, bool)>, full_len: usize) {
    use std::io::{Read, Write};
    // bodies[k] answers the k-th request (the last one answers all later ones); (bytes, gzip?)
    let mut k = 0usize;
    for stream in listener.incoming() {
        let Ok(mut stream) = stream else { continue };
        let mut req = Vec::new();
        let mut buf = [0u8; 4096];
        while !req.windows(4).any(|w| w == b"\r\n\r\n") {
            match stream.read(&mut buf) {
                Ok(0) | Err(_) => break,
                Ok(n) => req.extend_from_slice(&buf[..n]),
            }
        }
        if req.starts_with(b"QUIT") {
            return;
        }
        let (body, gz) = &bodies[k.min(bodies.len() - 1)];
        k += 1;
        // gzip: the message is well-formed (Content-Length = the bytes sent) and the compressed stream inside it ends early;
        // identity: Content-Length announces the whole file and the connection is closed after fewer bytes
        let head = format!("HTTP/1.1 200 OK\r\nContent-Type: text/plain\r\n{}Content-Length: {}\r\nConnection: close\r\n\r\n",
                           if *gz { "Content-Encoding: gzip\r\n" } else { "" }, if *gz { body.len() } else { full_len });
        let _ = stream.write_all(head.as_bytes());
        let _ = stream.write_all(body);
        let _ = stream.flush();
    }
}

fn run_download(rt: &tokio::runtime::Runtime, t: &[&str]) -> String {
    let root = PathBuf::from(t[1]);
    let n: u32 = t[2].parse().unwrap();
    let gz = t[3] == "gzip";
    let cut: usize = t[4].parse().unwrap();
    let _ = std::fs::remove_dir_all(&root);
    let sym = make_sym(n);
    let full = if gz { gzip_stored(&sym) } else { sym.clone() };
    let first = full[..full.len() * cut / 1000].to_vec();
    let listener = std::net::TcpListener::bind("127.0.0.1:0").unwrap();
    let port = listener.local_addr().unwrap().port();
    let full_len = full.len();
    let bodies = vec![(first, gz), (full, gz)];
    let server = std::thread::spawn(move || serve(listener, bodies, full_len));
    let cache = root.join("dlcache");
    let rel = Path::new(DEBUG_NAME).join(BREAKPAD_ID).join("big.sym");
    let dest = cache.join(&rel);
    let out = rt.block_on(async {
        let cfg = SymbolManagerConfig::default().breakpad_symbol_server(format!("http://127.0.0.1:{port}/"), &cache);
        let ok1 = load(cfg.clone()).await;
        let first = state(&dest, &sym);
        let ok2 = load(cfg).await;
        let retry = state(&dest, &sym);
        format!("dl first={} ok1={} retry={} ok2={}", first, ok1 as u8, retry, ok2 as u8)
    });
    if let Ok(mut s) = std::net::TcpStream::connect(("127.0.0.1", port)) {
        use std::io::Write;
        let _ = s.write_all(b"QUIT\r\n\r\n");
    }
    let _ = server.join();
    let _ = std::fs::remove_dir_all(&root);
    out
}

fn main() {
    let rt = tokio::runtime::Builder::new_multi_thread().enable_all().build().unwrap();
    for line in std::io::stdin().lock().lines() {
        let line = line.unwrap();
        let t: Vec<&str> = line.split_whitespace().collect();
        if t.first() == Some(&"D") {
            println!("{}", run_download(&rt, &t));
            continue;
        }
        let root = PathBuf::from(t[0]);
        let n: u32 = t[1].parse().unwrap();
        let mut limit: u64 = t[2].parse().unwrap();
        let _ = std::fs::remove_dir_all(&root);
        let rel = Path::new(DEBUG_NAME).join(BREAKPAD_ID);
        let syms = root.join("syms");
        std::fs::create_dir_all(syms.join(&rel)).unwrap();
        let sym_bytes = make_sym(n);
        std::fs::write(syms.join(&rel).join("big.sym"), &sym_bytes).unwrap();
        // the index the .sym file has, made directly with samply-symbols' index creator (not through wholesym's file writing)
        let expected: Vec<u8> = {
            let mut c = samply_symbols::BreakpadIndexCreator::new();
            c.consume(&sym_bytes);
            match c.finish() {
                Ok(b) => b,
                Err(_) => {
                    println!("REFERENCE-FAILED");
                    continue;
                }
            }
        };
        let out = rt.block_on(async {
            if limit == 0 {
                limit = expected.len() as u64 - 10;
            }
            let cache = root.join("cache");
            let dest = cache.join(&rel).join("big.symindex");
            let cfg = SymbolManagerConfig::default().breakpad_symbol_dir(&syms).breakpad_symindex_cache_dir(&cache);
            let old = set_limit(limit as libc::rlim_t);
            let ok1 = load(cfg.clone()).await;
            set_limit(old);
            let first = state(&dest, &expected);
            let ok2 = load(cfg).await;
            let retry = state(&dest, &expected);
            format!("ref={} first={} ok1={} retry={} ok2={}", expected.len(), first, ok1 as u8, retry, ok2 as u8)
        });
        let _ = std::fs::remove_dir_all(&root);
        println!("{out}");
    }
}
