// C16, callers of create_file_cleanly: the derived .symindex file that wholesym writes next to a local Breakpad .sym file.
// One case per line: <scratch dir> <number of FUNC records> <RLIMIT_FSIZE in bytes for the first attempt, 0 = ref_len - 10>
// The first attempt runs with the file-size limit lowered (SIGXFSZ ignored), so the write that crosses the limit fails with EFBIG
// after storing the bytes below it; the retry runs without a limit.
// Output: "ref=<len> first=<absent|complete|partial:<len>> ok1=<0|1> retry=<absent|complete|partial:<len>> ok2=<0|1>"
use std::io::BufRead;
use std::path::{Path, PathBuf};

use wholesym::{SymbolManager, SymbolManagerConfig};

const DEBUG_NAME: &str = "big.pdb";
const BREAKPAD_ID: &str = "AA152DEB2D9B76084C4C44205044422E1";

fn make_sym(n: u32) -> Vec<u8> {
    let mut s = format!("MODULE windows x86_64 {BREAKPAD_ID} {DEBUG_NAME}\nFILE 0 /src/big.cpp\n");
    for i in 0..n {
        let a = 0x1000 + i * 0x20;
        s.push_str(&format!("FUNC {a:x} 20 0 big::f{i}(int)\n{a:x} 10 {} 0\n{:x} 10 {} 0\n", 10 + i, a + 0x10, 11 + i));
    }
    s.into_bytes()
}

fn set_limit(limit: libc::rlim_t) -> libc::rlim_t {
    unsafe {
        libc::signal(libc::SIGXFSZ, libc::SIG_IGN);
        let mut lim: libc::rlimit = std::mem::zeroed();
        assert_eq!(libc::getrlimit(libc::RLIMIT_FSIZE, &mut lim), 0);
        let old = lim.rlim_cur;
        lim.rlim_cur = limit;
        assert_eq!(libc::setrlimit(libc::RLIMIT_FSIZE, &lim), 0);
        old
    }
}

async fn load(cfg: SymbolManagerConfig) -> bool {
    let sm = SymbolManager::with_config(cfg);
    sm.load_symbol_map(DEBUG_NAME, debugid::DebugId::from_breakpad(BREAKPAD_ID).unwrap()).await.is_ok()
}

fn state(dest: &Path, expected: &[u8]) -> String {
    match std::fs::read(dest) {
        Err(_) => "absent".to_string(),
        Ok(b) if b == expected => "complete".to_string(),
        Ok(b) => format!("partial:{}", b.len()),
    }
}

fn main() {
    let rt = tokio::runtime::Builder::new_multi_thread().enable_all().build().unwrap();
    for line in std::io::stdin().lock().lines() {
        let line = line.unwrap();
        let t: Vec<&str> = line.split_whitespace().collect();
        let root = PathBuf::from(t[0]);
        let n: u32 = t[1].parse().unwrap();
        let mut limit: u64 = t[2].parse().unwrap();
        let _ = std::fs::remove_dir_all(&root);
        let rel = Path::new(DEBUG_NAME).join(BREAKPAD_ID);
        let syms = root.join("syms");
        std::fs::create_dir_all(syms.join(&rel)).unwrap();
        let sym_bytes = make_sym(n);
        std::fs::write(syms.join(&rel).join("big.sym"), &sym_bytes).unwrap();
        // the index the .sym file has, made directly with samply-symbols' index creator (not through wholesym's file writing)
        let expected: Vec<u8> = {
            let mut c = samply_symbols::BreakpadIndexCreator::new();
            c.consume(&sym_bytes);
            match c.finish() {
                Ok(b) => b,
                Err(_) => {
                    println!("REFERENCE-FAILED");
                    continue;
                }
            }
        };
        let out = rt.block_on(async {
            if limit == 0 {
                limit = expected.len() as u64 - 10;
            }
            let cache = root.join("cache");
            let dest = cache.join(&rel).join("big.symindex");
            let cfg = SymbolManagerConfig::default().breakpad_symbol_dir(&syms).breakpad_symindex_cache_dir(&cache);
            let old = set_limit(limit as libc::rlim_t);
            let ok1 = load(cfg.clone()).await;
            set_limit(old);
            let first = state(&dest, &expected);
            let ok2 = load(cfg).await;
            let retry = state(&dest, &expected);
            format!("ref={} first={} ok1={} retry={} ok2={}", expected.len(), first, ok1 as u8, retry, ok2 as u8)
        });
        let _ = std::fs::remove_dir_all(&root);
        println!("{out}");
    }
}
