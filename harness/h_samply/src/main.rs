// Harness that compiles modules of the `samply` binary crate in by #[path] (always the current source) and
// drives ProcessSampleData::flush_samples_to_profile directly (C14, C02).
#![allow(dead_code, unused_imports, clippy::all)]
use std::io::{BufRead, Write};
use std::panic::{catch_unwind, AssertUnwindSafe};

mod shared {
    #[path = "/repo/samply/src/shared/jit_category_manager.rs"]
    pub mod jit_category_manager;
    #[path = "/repo/samply/src/shared/lib_mappings.rs"]
    pub mod lib_mappings;
    #[path = "/repo/samply/src/shared/process_sample_data.rs"]
    pub mod process_sample_data;
    #[path = "/repo/samply/src/shared/stack_converter.rs"]
    pub mod stack_converter;
    #[path = "/repo/samply/src/shared/stack_depth_limiting_frame_iter.rs"]
    pub mod stack_depth_limiting_frame_iter;
    #[path = "/repo/samply/src/shared/types.rs"]
    pub mod types;
    #[path = "/repo/samply/src/shared/unresolved_samples.rs"]
    pub mod unresolved_samples;
}

mod psd;

fn main() {
    std::panic::set_hook(Box::new(|_| {}));
    let mode = std::env::args().nth(1).expect("mode");
    let stdin = std::io::stdin();
    let stdout = std::io::stdout();
    let mut out = std::io::BufWriter::new(stdout.lock());
    for line in stdin.lock().lines() {
        let line = line.unwrap();
        let toks: Vec<&str> = line.split_whitespace().collect();
        let res = match mode.as_str() {
            "psd" => catch_unwind(AssertUnwindSafe(|| psd::run(&toks))).unwrap_or_else(|_| "P".to_string()),
            _ => panic!("unknown mode"),
        };
        writeln!(out, "{}", res).unwrap();
    }
}
