// Case tokens:
//   M <ts> A <s> <e> <rel> <lib> | M <ts> R <s> | M <ts> C | M <ts> V <old_s> <new_s> <new_e>      queued mapping ops
//   S <ts_mono> <extra 0|1> <frame>* ;                                                        a sample; frames ROOT first
//     frame = i<addr> r<addr> a<addr> (user ip / return address / adjusted return address),
//             I<addr> R<addr> A<addr> (kernel), t (truncated-stack marker), g<count>:<start>:<step> (count adjusted-return user frames)
// Outcome: per sample, root first, run-length compressed: L<lib>:<rel> | U<addr>[*<count>:<step>] | E<n> (elision placeholder) | X (extra label) ; samples separated by "|"
use crate::shared::lib_mappings::*;
use crate::shared::process_sample_data::ProcessSampleData;
use crate::shared::types::{StackFrame, StackMode};
use crate::shared::unresolved_samples::{UnresolvedSamples, UnresolvedStacks};
use fxprof_processed_profile::*;
use serde_json::Value;

fn p(s: &str) -> u64 {
    s.parse().unwrap()
}

pub fn run(toks: &[&str]) -> String {
    let mut profile = Profile::new("h", ReferenceTimestamp::from_millis_since_unix_epoch(0.0), SamplingInterval::from_millis(1));
    let process = profile.add_process("p", 1, Timestamp::from_nanos_since_reference(0));
    let thread = profile.add_thread(process, 1, Timestamp::from_nanos_since_reference(0), true);
    let user_category: SubcategoryHandle = profile.handle_for_category(Category("User", CategoryColor::Yellow)).into();
    let kernel_category: SubcategoryHandle = profile.handle_for_category(Category("Kernel", CategoryColor::LightRed)).into();
    let extra_string = profile.handle_for_string("cpu-extra");
    let extra_frame = profile.handle_for_frame_with_label(thread, extra_string, user_category, FrameFlags::empty());
    let mut libs: Vec<Option<LibraryHandle>> = Vec::new();
    let mut queue = LibMappingOpQueue::default();
    let mut stacks = UnresolvedStacks::default();
    let mut samples = UnresolvedSamples::default();
    let mut nsamples = 0u64;
    let mut i = 0;
    while i < toks.len() {
        match toks[i] {
            "M" => {
                let ts = p(toks[i + 1]);
                match toks[i + 2] {
                    "A" => {
                        let v = p(toks[i + 6]) as usize;
                        if libs.len() <= v {
                            libs.resize(v + 1, None);
                        }
                        if libs[v].is_none() {
                            libs[v] = Some(profile.add_lib(LibraryInfo {
                                name: format!("L{v}"),
                                debug_name: format!("L{v}"),
                                path: format!("/L{v}"),
                                debug_path: format!("/L{v}"),
                                debug_id: debugid::DebugId::nil(),
                                code_id: None,
                                arch: None,
                            }));
                        }
                        queue.push(ts, LibMappingOp::Add(LibMappingAdd {
                            start_avma: p(toks[i + 3]),
                            end_avma: p(toks[i + 4]),
                            relative_address_at_start: p(toks[i + 5]) as u32,
                            info: LibMappingInfo::new_lib(libs[v].unwrap()),
                        }));
                        i += 7;
                    }
                    "R" => {
                        queue.push(ts, LibMappingOp::Remove(LibMappingRemove { start_avma: p(toks[i + 3]) }));
                        i += 4;
                    }
                    "C" => {
                        queue.push(ts, LibMappingOp::Clear);
                        i += 3;
                    }
                    "V" => {
                        queue.push(ts, LibMappingOp::Move(LibMappingMove {
                            old_start_avma: p(toks[i + 3]),
                            new_start_avma: p(toks[i + 4]),
                            new_end_avma: p(toks[i + 5]),
                        }));
                        i += 6;
                    }
                    t => panic!("bad op {t}"),
                }
            }
            "S" => {
                let ts = p(toks[i + 1]);
                let extra = toks[i + 2] == "1";
                i += 3;
                let mut frames: Vec<StackFrame> = Vec::new();
                while toks[i] != ";" {
                    let t = toks[i];
                    let (k, rest) = t.split_at(1);
                    match k {
                        "i" => frames.push(StackFrame::InstructionPointer(p(rest), StackMode::User)),
                        "r" => frames.push(StackFrame::ReturnAddress(p(rest), StackMode::User)),
                        "a" => frames.push(StackFrame::AdjustedReturnAddress(p(rest), StackMode::User)),
                        "I" => frames.push(StackFrame::InstructionPointer(p(rest), StackMode::Kernel)),
                        "R" => frames.push(StackFrame::ReturnAddress(p(rest), StackMode::Kernel)),
                        "A" => frames.push(StackFrame::AdjustedReturnAddress(p(rest), StackMode::Kernel)),
                        "t" => frames.push(StackFrame::TruncatedStackMarker),
                        "g" => {
                            let parts: Vec<u64> = rest.split(':').map(p).collect();
                            for k in 0..parts[0] {
                                frames.push(StackFrame::AdjustedReturnAddress(parts[1] + k * parts[2], StackMode::User));
                            }
                        }
                        _ => panic!("bad frame {t}"),
                    }
                    i += 1;
                }
                i += 1;
                let stack = stacks.convert(frames.into_iter());
                samples.add_sample(thread, Timestamp::from_nanos_since_reference(nsamples * 1_000_000), ts, stack, CpuDelta::ZERO, 1,
                                   if extra { Some(extra_frame) } else { None });
                nsamples += 1;
            }
            t => panic!("bad token {t}"),
        }
    }
    let psd = ProcessSampleData::new(samples, queue, Vec::new(), None, Vec::new());
    let mut scratch = Vec::new();
    psd.flush_samples_to_profile(&mut profile, user_category, kernel_category, &mut scratch, &stacks);

    let json: Value = serde_json::to_value(&profile).unwrap();
    let th = &json["threads"][0];
    let strings = th["stringArray"].as_array().or_else(|| json["shared"]["stringArray"].as_array()).expect("stringArray");
    let glibs = json["libs"].as_array().unwrap();
    let s = &th["samples"];
    let n = s["length"].as_u64().unwrap() as usize;
    let st_prefix = th["stackTable"]["prefix"].as_array().unwrap();
    let st_frame = th["stackTable"]["frame"].as_array().unwrap();
    let ft = &th["frameTable"];
    let mut out: Vec<String> = Vec::new();
    for k in 0..n {
        let mut toks: Vec<String> = Vec::new();
        let mut cur = s["stack"][k].as_u64();
        let mut chain: Vec<usize> = Vec::new();
        while let Some(si) = cur {
            chain.push(st_frame[si as usize].as_u64().unwrap() as usize);
            cur = st_prefix[si as usize].as_u64();
        }
        chain.reverse();
        // run-length compress unknown-address frames
        let mut run: Option<(u64, u64, u64)> = None; // start, step, count
        let flush = |run: &mut Option<(u64, u64, u64)>, toks: &mut Vec<String>| {
            if let Some((a, step, c)) = run.take() {
                if c == 1 {
                    toks.push(format!("U{}", a));
                } else {
                    toks.push(format!("U{}*{}:{}", a, c, step));
                }
            }
        };
        for frame in chain {
            let addr = ft["address"][frame].as_i64().unwrap();
            let func = ft["func"][frame].as_u64().unwrap() as usize;
            if addr >= 0 {
                flush(&mut run, &mut toks);
                let res = th["funcTable"]["resource"][func].as_i64().unwrap();
                let lib = th["resourceTable"]["lib"][res as usize].as_u64().unwrap() as usize;
                let lname = glibs[lib]["name"].as_str().unwrap();
                toks.push(format!("L{}:{}", &lname[1..], addr));
                continue;
            }
            let name = strings[th["funcTable"]["name"][func].as_u64().unwrap() as usize].as_str().unwrap();
            if let Some(h) = name.strip_prefix("0x") {
                let a = u64::from_str_radix(h, 16).unwrap();
                run = match run {
                    Some((s0, step, c)) if c == 1 && a > s0 => Some((s0, a - s0, 2)),
                    Some((s0, step, c)) if c >= 2 && a == s0 + step * c => Some((s0, step, c + 1)),
                    Some(r) => {
                        run = Some(r);
                        flush(&mut run, &mut toks);
                        Some((a, 0, 1))
                    }
                    None => Some((a, 0, 1)),
                };
            } else {
                flush(&mut run, &mut toks);
                if name == "cpu-extra" {
                    toks.push("X".into());
                } else if let Some(r) = name.strip_prefix("(").and_then(|r| r.strip_suffix(" frames elided)")) {
                    toks.push(format!("E{}", r));
                } else {
                    toks.push(format!("?{}", name.replace(' ', "_")));
                }
            }
        }
        flush(&mut run, &mut toks);
        out.push(toks.join(" "));
    }
    out.join(" | ")
}
