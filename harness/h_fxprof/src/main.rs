// Correspondence harness for the fxprof-processed-profile crate (C11, C04, C03).
// Reads one case per line on stdin, prints one outcome line per case on stdout.
use std::io::{BufRead, Write};
use std::panic::{catch_unwind, AssertUnwindSafe};

mod lm;
mod st;

fn main() {
    std::panic::set_hook(Box::new(|_| {}));
    let mode = std::env::args().nth(1).expect("mode");
    let stdin = std::io::stdin();
    let stdout = std::io::stdout();
    let mut out = std::io::BufWriter::new(stdout.lock());
    for line in stdin.lock().lines() {
        let line = line.unwrap();
        let toks: Vec<&str> = line.split_whitespace().collect();
        let res = match mode.as_str() {
            "lm-direct" => lm::run_direct(&toks),
            "lm-profile" => lm::run_profile(&toks),
            "st-samples" => st::run_samples(&toks),
            "st-counter" => st::run_counter(&toks),
            _ => panic!("unknown mode"),
        };
        writeln!(out, "{}", res).unwrap();
    }
}

pub fn guarded<F: FnOnce() -> String>(f: F) -> String {
    match catch_unwind(AssertUnwindSafe(f)) {
        Ok(s) => s,
        Err(_) => "P".to_string(),
    }
}
