// Correspondence harness for the fxprof-processed-profile crate (C11, C04, C03).
// Reads one case per line on stdin, prints one outcome line per case on stdout.
use std::io::{BufRead, Write};
use std::panic::{catch_unwind, AssertUnwindSafe};

mod lm;
mod prof;
mod st;

fn main() {
    std::panic::set_hook(Box::new(|_| {}));
    let mode = std::env::args().nth(1).expect("mode");
    if mode == "emit-profile" {
        // a small valid processed profile (one process, one thread, one lib, two samples) for `samply load`
        use fxprof_processed_profile::*;
        let mut profile = Profile::new("verif", ReferenceTimestamp::from_millis_since_unix_epoch(0.0), SamplingInterval::from_millis(1));
        let process = profile.add_process("p", 1, Timestamp::from_nanos_since_reference(0));
        let thread = profile.add_thread(process, 1, Timestamp::from_nanos_since_reference(0), true);
        let lib = profile.add_lib(LibraryInfo {
            name: "libx.so".into(), debug_name: "libx.so".into(), path: "/nonexistent/libx.so".into(), debug_path: "/nonexistent/libx.so".into(),
            debug_id: debugid::DebugId::nil(), code_id: None, arch: None,
        });
        profile.add_lib_mapping(process, lib, 0x1000, 0x2000, 0);
        for t in 0..2u64 {
            let f = profile.handle_for_frame_with_address(thread, FrameAddress::InstructionPointer(0x1100 + t), CategoryHandle::OTHER, FrameFlags::empty());
            let st = profile.handle_for_stack(thread, f, None);
            profile.add_sample(thread, Timestamp::from_nanos_since_reference(t * 1000000), Some(st), CpuDelta::ZERO, 1);
        }
        println!("{}", serde_json::to_string(&profile).unwrap());
        return;
    }
    let stdin = std::io::stdin();
    let stdout = std::io::stdout();
    let mut out = std::io::BufWriter::new(stdout.lock());
    for line in stdin.lock().lines() {
        let line = line.unwrap();
        let toks: Vec<&str> = line.split_whitespace().collect();
        let res = match mode.as_str() {
            "lm-direct" => lm::run_direct(&toks),
            "lm-profile" => lm::run_profile(&toks),
            "st-samples" => st::run_samples(&toks),
            "st-counter" => st::run_counter(&toks),
            "prof" => prof::run(&line),
            _ => panic!("unknown mode"),
        };
        writeln!(out, "{}", res).unwrap();
    }
}

pub fn guarded<F: FnOnce() -> String>(f: F) -> String {
    match catch_unwind(AssertUnwindSafe(f)) {
        Ok(s) => s,
        Err(_) => "P".to_string(),
    }
}
