// C04: sample table / counter table serialization.
// Sample case tokens: a <t_ns> <stack|n> <cpu_us> <w> | m <t_ns> <w> | e <t_ns> (set_thread_end_time) | b <t_ns> (set_thread_start_time) | nm <name> (set_thread_name)
// Counter case tokens: k <t_ns> <value> <number>
// Outcome: one token per serialized row "<delta_ns>:<stack|n>:<w>:<cpu>" (counters: "<delta_ns>:<number>:<value>:0"),
//          "X" appended if a delta is negative / not finite / not an exact ns, "P" if serialization or a call panicked.
use fxprof_processed_profile::*;
use serde_json::Value;
use std::panic::{catch_unwind, AssertUnwindSafe};

fn delta_ns(v: &Value) -> Option<u64> {
    let x = v.as_f64()?;
    if !x.is_finite() || x < 0.0 {
        return None;
    }
    let ns = (x * 1_000_000.0).round();
    if ns > 9.0e15 {
        return None;
    }
    Some(ns as u64)
}

pub fn run_samples(toks: &[&str]) -> String {
    let r = catch_unwind(AssertUnwindSafe(|| {
        let mut profile = Profile::new("h", ReferenceTimestamp::from_millis_since_unix_epoch(0.0), SamplingInterval::from_millis(1));
        let process = profile.add_process("p", 1, Timestamp::from_nanos_since_reference(0));
        let thread = profile.add_thread(process, 1, Timestamp::from_nanos_since_reference(0), true);
        let mut stacks: Vec<Option<StackHandle>> = Vec::new();
        let mut i = 0;
        while i < toks.len() {
            match toks[i] {
                "a" => {
                    let t: u64 = toks[i + 1].parse().unwrap();
                    let stack = if toks[i + 2] == "n" {
                        None
                    } else {
                        let id: usize = toks[i + 2].parse().unwrap();
                        if stacks.len() <= id {
                            stacks.resize(id + 1, None);
                        }
                        if stacks[id].is_none() {
                            let s = profile.handle_for_string(&format!("s{id}"));
                            let f = profile.handle_for_frame_with_label(thread, s, CategoryHandle::OTHER, FrameFlags::empty());
                            stacks[id] = Some(profile.handle_for_stack(thread, f, None));
                        }
                        stacks[id]
                    };
                    let cpu: u64 = toks[i + 3].parse().unwrap();
                    let w: i32 = toks[i + 4].parse().unwrap();
                    profile.add_sample(thread, Timestamp::from_nanos_since_reference(t), stack, CpuDelta::from_micros(cpu), w);
                    i += 5;
                }
                "m" => {
                    let t: u64 = toks[i + 1].parse().unwrap();
                    let w: i32 = toks[i + 2].parse().unwrap();
                    profile.add_sample_same_stack_zero_cpu(thread, Timestamp::from_nanos_since_reference(t), w);
                    i += 3;
                }
                // calls about the thread's lifetime and name, anywhere between the samples: they say nothing about the samples
                "e" => {
                    profile.set_thread_end_time(thread, Timestamp::from_nanos_since_reference(toks[i + 1].parse().unwrap()));
                    i += 2;
                }
                "b" => {
                    profile.set_thread_start_time(thread, Timestamp::from_nanos_since_reference(toks[i + 1].parse().unwrap()));
                    i += 2;
                }
                "nm" => {
                    profile.set_thread_name(thread, toks[i + 1]);
                    i += 2;
                }
                t => panic!("bad token {t}"),
            }
        }
        let json: Value = serde_json::to_value(&profile).unwrap();
        let th = &json["threads"][0];
        let strings = th["stringArray"].as_array().or_else(|| json["shared"]["stringArray"].as_array()).expect("stringArray");
        let s = &th["samples"];
        let n = s["length"].as_u64().unwrap() as usize;
        let mut out: Vec<String> = Vec::new();
        let mut bad = false;
        for col in ["stack", "timeDeltas", "weight", "threadCPUDelta"] {
            if s[col].as_array().map(|a| a.len()) != Some(n) {
                bad = true;
            }
        }
        if !bad {
            for k in 0..n {
                let d = match delta_ns(&s["timeDeltas"][k]) {
                    Some(d) => d,
                    None => {
                        bad = true;
                        break;
                    }
                };
                let stack = match s["stack"][k].as_u64() {
                    None => "n".to_string(),
                    Some(si) => {
                        let frame = th["stackTable"]["frame"][si as usize].as_u64().unwrap() as usize;
                        let func = th["frameTable"]["func"][frame].as_u64().unwrap() as usize;
                        let name = th["funcTable"]["name"][func].as_u64().unwrap() as usize;
                        strings[name].as_str().unwrap()[1..].to_string()
                    }
                };
                out.push(format!("{}:{}:{}:{}", d, stack, s["weight"][k].as_i64().unwrap(), s["threadCPUDelta"][k].as_u64().unwrap()));
            }
        }
        if bad {
            out.push("X".into());
        }
        out.join(" ")
    }));
    r.unwrap_or_else(|_| "P".to_string())
}

pub fn run_counter(toks: &[&str]) -> String {
    let r = catch_unwind(AssertUnwindSafe(|| {
        let mut profile = Profile::new("h", ReferenceTimestamp::from_millis_since_unix_epoch(0.0), SamplingInterval::from_millis(1));
        let process = profile.add_process("p", 1, Timestamp::from_nanos_since_reference(0));
        let _thread = profile.add_thread(process, 1, Timestamp::from_nanos_since_reference(0), true);
        let counter = profile.add_counter(process, "c", "Memory", "d");
        let mut i = 0;
        while i < toks.len() {
            match toks[i] {
                "k" => {
                    let t: u64 = toks[i + 1].parse().unwrap();
                    let v: i64 = toks[i + 2].parse().unwrap();
                    let n: u32 = toks[i + 3].parse().unwrap();
                    profile.add_counter_sample(counter, Timestamp::from_nanos_since_reference(t), v as f64, n);
                    i += 4;
                }
                t => panic!("bad token {t}"),
            }
        }
        let json: Value = serde_json::to_value(&profile).unwrap();
        let s = &json["counters"][0]["samples"];
        let n = s["length"].as_u64().unwrap() as usize;
        let mut out: Vec<String> = Vec::new();
        let mut bad = false;
        for col in ["count", "number", "timeDeltas"] {
            if s[col].as_array().map(|a| a.len()) != Some(n) {
                bad = true;
            }
        }
        if !bad {
            for k in 0..n {
                let d = match delta_ns(&s["timeDeltas"][k]) {
                    Some(d) => d,
                    None => {
                        bad = true;
                        break;
                    }
                };
                let v = s["count"][k].as_f64().unwrap();
                out.push(format!("{}:{}:{}:0", d, s["number"][k].as_u64().unwrap(), v as i64));
            }
        }
        if bad {
            out.push("X".into());
        }
        out.join(" ")
    }));
    r.unwrap_or_else(|_| "P".to_string())
}
