// C11: LibMappings<u32> directly, and through the Profile API.
// Case tokens:  A s e r v | R s | C | KA s e r v | KR s | L a | FI a | FR a | FA a
// Outcome: one token per query (L/F*): "N" (none), "S:<rel>:<lib>", "U:<addr>" (raw), "P" (panic; rest of case skipped)
use fxprof_processed_profile::*;
use serde_json::Value;
use std::panic::{catch_unwind, AssertUnwindSafe};

fn p(s: &str) -> u64 {
    s.parse::<u64>().unwrap()
}

pub fn run_direct(toks: &[&str]) -> String {
    let mut m: LibMappings<u32> = LibMappings::new();
    let mut out: Vec<String> = Vec::new();
    let mut i = 0;
    while i < toks.len() {
        match toks[i] {
            "A" => {
                let (s, e, r, v) = (p(toks[i + 1]), p(toks[i + 2]), p(toks[i + 3]) as u32, p(toks[i + 4]) as u32);
                if catch_unwind(AssertUnwindSafe(|| m.add_mapping(s, e, r, v))).is_err() {
                    out.push("P".into());
                    break;
                }
                i += 5;
            }
            "R" => {
                m.remove_mapping(p(toks[i + 1]));
                i += 2;
            }
            "C" => {
                m.clear();
                i += 1;
            }
            "L" => {
                let a = p(toks[i + 1]);
                match catch_unwind(AssertUnwindSafe(|| m.convert_address(a).map(|(r, v)| (r, *v)))) {
                    Ok(Some((r, v))) => out.push(format!("S:{}:{}", r, v)),
                    Ok(None) => out.push("N".into()),
                    Err(_) => out.push("P".into()),
                }
                i += 2;
            }
            t => panic!("bad token {t}"),
        }
    }
    out.join(" ")
}

pub fn run_profile(toks: &[&str]) -> String {
    let toks: Vec<String> = toks.iter().map(|s| s.to_string()).collect();
    let mut profile = Profile::new("h", ReferenceTimestamp::from_millis_since_unix_epoch(0.0), SamplingInterval::from_millis(1));
    let process = profile.add_process("p", 1, Timestamp::from_nanos_since_reference(0));
    let thread = profile.add_thread(process, 1, Timestamp::from_nanos_since_reference(0), true);
    let mut libs: Vec<Option<LibraryHandle>> = Vec::new();
    let mut lib_for = |profile: &mut Profile, v: u64| -> LibraryHandle {
        let v = v as usize;
        if libs.len() <= v {
            libs.resize(v + 1, None);
        }
        if libs[v].is_none() {
            libs[v] = Some(profile.add_lib(LibraryInfo {
                name: format!("L{v}"),
                debug_name: format!("L{v}"),
                path: format!("/L{v}"),
                debug_path: format!("/L{v}"),
                debug_id: debugid::DebugId::nil(),
                code_id: None,
                arch: None,
            }));
        }
        libs[v].unwrap()
    };
    // each query adds one sample at time = query index; outcome resolved from JSON afterwards
    let mut nq = 0u64;
    let mut panicked_at: Option<u64> = None;
    let mut i = 0;
    while i < toks.len() {
        let t = toks[i].as_str();
        match t {
            "A" | "KA" => {
                let (s, e, r, v) = (p(&toks[i + 1]), p(&toks[i + 2]), p(&toks[i + 3]) as u32, p(&toks[i + 4]));
                let lib = lib_for(&mut profile, v);
                let res = catch_unwind(AssertUnwindSafe(|| {
                    if t == "A" {
                        profile.add_lib_mapping(process, lib, s, e, r)
                    } else {
                        profile.add_kernel_lib_mapping(lib, s, e, r)
                    }
                }));
                if res.is_err() {
                    panicked_at = Some(nq);
                    break;
                }
                i += 5;
            }
            "R" => {
                profile.remove_lib_mapping(process, p(&toks[i + 1]));
                i += 2;
            }
            "KR" => {
                profile.remove_kernel_lib_mapping(p(&toks[i + 1]));
                i += 2;
            }
            "C" => {
                profile.clear_process_lib_mappings(process);
                i += 1;
            }
            "FI" | "FR" | "FA" => {
                let a = p(&toks[i + 1]);
                let fa = match t {
                    "FI" => FrameAddress::InstructionPointer(a),
                    "FR" => FrameAddress::ReturnAddress(a),
                    _ => FrameAddress::AdjustedReturnAddress(a),
                };
                let res = catch_unwind(AssertUnwindSafe(|| {
                    let fh = profile.handle_for_frame_with_address(thread, fa, CategoryHandle::OTHER, FrameFlags::empty());
                    let sh = profile.handle_for_stack(thread, fh, None);
                    profile.add_sample(thread, Timestamp::from_nanos_since_reference(nq * 1_000_000), Some(sh), CpuDelta::ZERO, 1);
                }));
                if res.is_err() {
                    panicked_at = Some(nq);
                    break;
                }
                nq += 1;
                i += 2;
            }
            t => panic!("bad token {t}"),
        }
    }
    let json: Value = serde_json::to_value(&profile).unwrap();
    let th = &json["threads"][0];
    let strings = th["stringArray"].as_array().or_else(|| json["shared"]["stringArray"].as_array()).expect("stringArray");
    let glibs = json["libs"].as_array().unwrap();
    let samples = &th["samples"];
    let n = samples["length"].as_u64().unwrap();
    let mut out: Vec<String> = Vec::new();
    for k in 0..n {
        let stack = samples["stack"][k as usize].as_u64().unwrap() as usize;
        let frame = th["stackTable"]["frame"][stack].as_u64().unwrap() as usize;
        let ft = &th["frameTable"];
        let addr = ft["address"][frame].as_i64().unwrap();
        let func = ft["func"][frame].as_u64().unwrap() as usize;
        if addr < 0 {
            let name = th["funcTable"]["name"][func].as_u64().unwrap() as usize;
            let s = strings[name].as_str().unwrap();
            let a = u64::from_str_radix(s.trim_start_matches("0x"), 16).unwrap();
            out.push(format!("U:{}", a));
        } else {
            let res = th["funcTable"]["resource"][func].as_i64().unwrap();
            let lib = th["resourceTable"]["lib"][res as usize].as_u64().unwrap() as usize;
            let lname = glibs[lib]["name"].as_str().unwrap();
            out.push(format!("S:{}:{}", addr, &lname[1..]));
        }
    }
    if panicked_at.is_some() {
        out.push("P".into());
    }
    out.join(" ")
}
