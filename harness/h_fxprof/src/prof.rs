// C03: random interleavings of the profile-building API; the outcome is the serialized profile (compact JSON).
// One case per line; ops separated by ';' :
//   P <pid> <start_ns> <name>                add_process                       -> process #k (k-th P)
//   T <proc#> <tid> <start_ns> <main 0|1>    add_thread                        -> thread #k
//   N <thread#> <name>                       set_thread_name
//   E <thread#> <end_ns>                     set_thread_end_time
//   L <name> [<variant>]                     add_lib (path /lib/<variant>/<name>; debug id derived from name and variant) -> lib #k
//   Y <lib#> <addr:size:name>...             set_lib_symbol_table (size 0 = unknown size)
//   M <proc#> <lib#> <start> <end> <rel>     add_lib_mapping
//   H <thread#> <lib#> <addr> <size> <name>  handle_for_native_symbol (size 0 = unknown)     -> native symbol #k (belongs to that thread)
//   S <thread#> <time_ns> <w> <frames..>     add_sample; frames root first: l<name> (label) | a<hex> (instruction pointer) | r<hex> (return address)
//                                            | L<name>|<file or ->|<line or ->|<col or ->    (label with source location)
//                                            | y<hex>|<ns#>|<name or ->|<file or ->|<line or ->|<col or ->|<depth>   (instruction pointer, already symbolicated:
//                                              handle_for_frame_with_address_and_symbol) | z... (the same with a return address)
//                                            (an empty frame list = no stack)
//   K <thread#> <time_ns> <name> <text> <frames..>   add_marker (Text marker, one string field) + set_marker_stack when frames are given
//   J <thread#> <time_ns> <name> <text>      add_marker of the static type LayoutText, whose CATEGORY is Category("Layout", blue)
//   G <type_name> <kinds> [c<cat#>]          register_marker_type (category: category handle #cat, default Other); kinds: one letter per field, u = String (unique-string), s = Url / p = FilePath / z = SanitizedString (plain JSON strings),
//                                            n = Integer; "-" = no fields; field keys f0, f1, ...                       -> runtime marker type #k
//   R <thread#> <I|V|B|E> <t1> <t2> <type#> <name> <v0,v1,..|-> <frames..>   add_marker with a runtime-schema marker (one value per field: a word for
//                                            string fields, an integer for number fields) + set_marker_stack when frames are given
//   ("~" stands for the empty string in label frames, marker names / texts and marker string fields)
//   Q <name> <colour>                        handle_for_category(Category(name, colour))     -> category handle #k (k-th Q)
//   U <cat#> <name>                          handle_for_subcategory(category handle #cat, name)   -> subcategory handle #k (k-th U)
//   every frame token may end in ^c<cat#> (a CategoryHandle), ^s<sub#> (a SubcategoryHandle), ^C<name>,<colour> (a Category value) or
//   ^S<name>,<colour>,<subcategory> (a Subcategory value): what is passed where the API takes `impl IntoSubcategoryHandle`
//   (no suffix = CategoryHandle::OTHER); colours are spelled as they are serialized; a further suffix !<bits> gives the FrameFlags
//   (1 = IS_JS, 2 = IS_RELEVANT_FOR_JS; default empty)
//   S2 <thread#> <time_ns> <w> <frames..>    add_sample whose stack is built by handle_for_stack_frames (one call) instead of handle_for_stack per frame
//   B <thread#> <time_ns> <addr> <size> <frames..>   add_allocation_sample (size may be negative: a deallocation)
//   C <proc#> <name>                         add_counter                       -> counter #k
//   D <counter#> <time_ns> <value> <n>       add_counter_sample
//   V <thread#> / W <thread#>                add_initial_visible_thread / add_initial_selected_thread
// Panics are reported as the line "PANIC".
use fxprof_processed_profile::*;
use std::panic::{catch_unwind, AssertUnwindSafe};

#[derive(Debug, Clone)]
pub struct TextMarker {
    pub name: StringHandle,
    pub text: StringHandle,
}

impl StaticSchemaMarker for TextMarker {
    const UNIQUE_MARKER_TYPE_NAME: &'static str = "Text";
    const CHART_LABEL: Option<&'static str> = Some("{marker.data.name}");
    const TABLE_LABEL: Option<&'static str> = Some("{marker.name} - {marker.data.name}");
    const FIELDS: &'static [StaticSchemaMarkerField] = &[StaticSchemaMarkerField {
        key: "name",
        label: "Details",
        format: MarkerFieldFormat::String,
        flags: MarkerFieldFlags::SEARCHABLE,
    }];
    fn name(&self, _profile: &mut Profile) -> StringHandle {
        self.name
    }
    fn string_field_value(&self, _field_index: u32) -> StringHandle {
        self.text
    }
    fn number_field_value(&self, _field_index: u32) -> f64 {
        unreachable!()
    }
}

/// A static-schema marker type whose CATEGORY is a category of its own: the first add_marker of this type looks the category up by value.
#[derive(Debug, Clone)]
pub struct LayoutMarker {
    pub name: StringHandle,
    pub text: StringHandle,
}

impl StaticSchemaMarker for LayoutMarker {
    const UNIQUE_MARKER_TYPE_NAME: &'static str = "LayoutText";
    const CATEGORY: Category<'static> = Category("Layout", CategoryColor::Blue);
    const FIELDS: &'static [StaticSchemaMarkerField] = &[StaticSchemaMarkerField {
        key: "name",
        label: "Details",
        format: MarkerFieldFormat::String,
        flags: MarkerFieldFlags::SEARCHABLE,
    }];
    fn name(&self, _profile: &mut Profile) -> StringHandle {
        self.name
    }
    fn string_field_value(&self, _field_index: u32) -> StringHandle {
        self.text
    }
    fn number_field_value(&self, _field_index: u32) -> f64 {
        unreachable!()
    }
}

/// A marker of a runtime-registered type: values per field index.
pub struct DynMarker {
    pub ty: MarkerTypeHandle,
    pub name: StringHandle,
    pub strings: Vec<Option<StringHandle>>,
    pub numbers: Vec<Option<f64>>,
}

impl Marker for DynMarker {
    fn marker_type(&self, _profile: &mut Profile) -> MarkerTypeHandle {
        self.ty
    }
    fn name(&self, _profile: &mut Profile) -> StringHandle {
        self.name
    }
    fn string_field_value(&self, field_index: u32) -> StringHandle {
        self.strings[field_index as usize].expect("string_field_value asked for a non-string field")
    }
    fn number_field_value(&self, field_index: u32) -> f64 {
        self.numbers[field_index as usize].expect("number_field_value asked for a non-number field")
    }
}

fn opt_u32(s: &str) -> Option<u32> {
    if s == "-" {
        None
    } else {
        Some(s.parse().unwrap())
    }
}

fn color_of(s: &str) -> CategoryColor {
    match s {
        "transparent" => CategoryColor::Transparent,
        "lightblue" => CategoryColor::LightBlue,
        "red" => CategoryColor::Red,
        "lightred" => CategoryColor::LightRed,
        "orange" => CategoryColor::Orange,
        "blue" => CategoryColor::Blue,
        "green" => CategoryColor::Green,
        "purple" => CategoryColor::Purple,
        "yellow" => CategoryColor::Yellow,
        "brown" => CategoryColor::Brown,
        "magenta" => CategoryColor::Magenta,
        "lightgreen" => CategoryColor::LightGreen,
        "grey" => CategoryColor::Gray,
        "darkgray" => CategoryColor::DarkGray,
        x => panic!("bad colour {x}"),
    }
}

pub struct Handles {
    pub nsyms: Vec<NativeSymbolHandle>,
    pub cats: Vec<CategoryHandle>,
    pub subs: Vec<SubcategoryHandle>,
}

fn frame_of<SC: IntoSubcategoryHandle>(profile: &mut Profile, thread: ThreadHandle, f: &str, sc: SC, flags: FrameFlags, nsyms: &[NativeSymbolHandle]) -> FrameHandle {
    if let Some(n) = f.strip_prefix('l') {
        let s = profile.handle_for_string(if n == "~" { "" } else { n });
        profile.handle_for_frame_with_label(thread, s, sc, flags)
    } else if let Some(a) = f.strip_prefix('a') {
        let a = u64::from_str_radix(a, 16).unwrap();
        profile.handle_for_frame_with_address(thread, FrameAddress::InstructionPointer(a), sc, flags)
    } else if let Some(a) = f.strip_prefix('r') {
        let a = u64::from_str_radix(a, 16).unwrap();
        profile.handle_for_frame_with_address(thread, FrameAddress::ReturnAddress(a), sc, flags)
    } else if let Some(rest) = f.strip_prefix('L') {
        let p: Vec<&str> = rest.split('|').collect();
        let s = profile.handle_for_string(p[0]);
        let file_path = if p[1] == "-" { None } else { Some(profile.handle_for_string(p[1])) };
        let loc = SourceLocation { file_path, line: opt_u32(p[2]), col: opt_u32(p[3]) };
        profile.handle_for_frame_with_label_and_source_location(thread, s, loc, sc, flags)
    } else if f.starts_with('y') || f.starts_with('z') {
        let p: Vec<&str> = f[1..].split('|').collect();
        let a = u64::from_str_radix(p[0], 16).unwrap();
        let addr = if f.starts_with('y') { FrameAddress::InstructionPointer(a) } else { FrameAddress::ReturnAddress(a) };
        let native_symbol = nsyms[p[1].parse::<usize>().unwrap()];
        let name = if p[2] == "-" { None } else { Some(profile.handle_for_string(p[2])) };
        let file_path = if p[3] == "-" { None } else { Some(profile.handle_for_string(p[3])) };
        let info = FrameSymbolInfo { name, native_symbol, source_location: SourceLocation { file_path, line: opt_u32(p[4]), col: opt_u32(p[5]) } };
        profile.handle_for_frame_with_address_and_symbol(thread, addr, info, p[6].parse().unwrap(), sc, flags)
    } else {
        panic!("bad frame {f}")
    }
}

fn frame_handle(profile: &mut Profile, thread: ThreadHandle, tok: &str, h: &Handles) -> FrameHandle {
    let (tok, flags) = match tok.split_once('!') {
        Some((t, b)) => (t, FrameFlags::from_bits_truncate(b.parse().unwrap())),
        None => (tok, FrameFlags::empty()),
    };
    let (f, sc) = match tok.split_once('^') {
        Some((f, sc)) => (f, Some(sc)),
        None => (tok, None),
    };
    match sc {
        None => frame_of(profile, thread, f, CategoryHandle::OTHER, flags, &h.nsyms),
        Some(x) if x.starts_with('c') => frame_of(profile, thread, f, h.cats[x[1..].parse::<usize>().unwrap()], flags, &h.nsyms),
        Some(x) if x.starts_with('s') => frame_of(profile, thread, f, h.subs[x[1..].parse::<usize>().unwrap()], flags, &h.nsyms),
        Some(x) if x.starts_with('C') => {
            let p: Vec<&str> = x[1..].split(',').collect();
            frame_of(profile, thread, f, Category(p[0], color_of(p[1])), flags, &h.nsyms)
        }
        Some(x) if x.starts_with('S') => {
            let p: Vec<&str> = x[1..].split(',').collect();
            frame_of(profile, thread, f, Subcategory(Category(p[0], color_of(p[1])), p[2]), flags, &h.nsyms)
        }
        Some(x) => panic!("bad subcategory {x}"),
    }
}

fn stack_of(profile: &mut Profile, thread: ThreadHandle, frames: &[&str], h: &Handles) -> Option<StackHandle> {
    let mut stack = None;
    for tok in frames {
        let fh = frame_handle(profile, thread, tok, h);
        stack = Some(profile.handle_for_stack(thread, fh, stack));
    }
    stack
}

/// the same stack through Profile::handle_for_stack_frames: the frames are made inside the callback, one per call
fn stack_of_iter(profile: &mut Profile, thread: ThreadHandle, frames: &[&str], h: &Handles) -> Option<StackHandle> {
    let mut it = frames.iter();
    profile.handle_for_stack_frames(thread, |p| it.next().map(|tok| frame_handle(p, thread, tok, h)))
}

pub fn run(line: &str) -> String {
    let r = catch_unwind(AssertUnwindSafe(|| {
        let mut profile = Profile::new("h", ReferenceTimestamp::from_millis_since_unix_epoch(0.0), SamplingInterval::from_millis(1));
        let mut procs = Vec::new();
        let mut threads = Vec::new();
        let mut libs = Vec::new();
        let mut counters = Vec::new();
        let mut mtypes: Vec<(MarkerTypeHandle, String)> = Vec::new();
        let mut hd = Handles { nsyms: Vec::new(), cats: Vec::new(), subs: Vec::new() };
        for op in line.split(';') {
            let t: Vec<&str> = op.split_whitespace().collect();
            if t.is_empty() {
                continue;
            }
            let ns = |s: &str| Timestamp::from_nanos_since_reference(s.parse().unwrap());
            match t[0] {
                "P" => procs.push(profile.add_process(t[3], t[1].parse().unwrap(), ns(t[2]))),
                "T" => threads.push(profile.add_thread(procs[t[1].parse::<usize>().unwrap()], t[2].parse().unwrap(), ns(t[3]), t[4] == "1")),
                "N" => profile.set_thread_name(threads[t[1].parse::<usize>().unwrap()], t[2]),
                "E" => profile.set_thread_end_time(threads[t[1].parse::<usize>().unwrap()], ns(t[2])),
                "L" => {
                    let name = t[1].to_string();
                    // an optional variant: same file name, another directory and debug id
                    let variant = t.get(2).map(|s| s.to_string());
                    let idsrc = format!("{}{}", name, variant.clone().unwrap_or_default());
                    let mut idb = [0u8; 16];
                    for (i, b) in idsrc.bytes().enumerate() {
                        idb[i % 16] ^= b.wrapping_mul(31).wrapping_add(i as u8);
                    }
                    let hex: String = idb.iter().map(|b| format!("{:02X}", b)).collect();
                    libs.push(profile.add_lib(LibraryInfo {
                        name: name.clone(),
                        debug_name: name.clone(),
                        path: variant.as_ref().map_or(format!("/lib/{name}"), |v| format!("/lib/{v}/{name}")),
                        debug_path: variant.as_ref().map_or(format!("/lib/{name}"), |v| format!("/lib/{v}/{name}")),
                        debug_id: debugid::DebugId::from_breakpad(&format!("{hex}0")).unwrap(),
                        code_id: None,
                        arch: None,
                    }));
                }
                "Y" => {
                    let syms: Vec<Symbol> = t[2..]
                        .iter()
                        .map(|x| {
                            let p: Vec<&str> = x.split(':').collect();
                            let size: u32 = p[1].parse().unwrap();
                            Symbol { address: p[0].parse().unwrap(), size: if size == 0 { None } else { Some(size) }, name: p[2].to_string() }
                        })
                        .collect();
                    profile.set_lib_symbol_table(libs[t[1].parse::<usize>().unwrap()], std::sync::Arc::new(SymbolTable::new(syms)));
                }
                "M" => profile.add_lib_mapping(
                    procs[t[1].parse::<usize>().unwrap()],
                    libs[t[2].parse::<usize>().unwrap()],
                    t[3].parse().unwrap(),
                    t[4].parse().unwrap(),
                    t[5].parse().unwrap(),
                ),
                "H" => {
                    let th = threads[t[1].parse::<usize>().unwrap()];
                    let size: u32 = t[4].parse().unwrap();
                    let sym = Symbol { address: t[3].parse().unwrap(), size: if size == 0 { None } else { Some(size) }, name: t[5].to_string() };
                    hd.nsyms.push(profile.handle_for_native_symbol(th, libs[t[2].parse::<usize>().unwrap()], &sym));
                }
                "S" => {
                    let th = threads[t[1].parse::<usize>().unwrap()];
                    let stack = stack_of(&mut profile, th, &t[4..], &hd);
                    profile.add_sample(th, ns(t[2]), stack, CpuDelta::ZERO, t[3].parse().unwrap());
                }
                "S2" => {
                    let th = threads[t[1].parse::<usize>().unwrap()];
                    let stack = stack_of_iter(&mut profile, th, &t[4..], &hd);
                    profile.add_sample(th, ns(t[2]), stack, CpuDelta::ZERO, t[3].parse().unwrap());
                }
                "B" => {
                    let th = threads[t[1].parse::<usize>().unwrap()];
                    let stack = stack_of(&mut profile, th, &t[5..], &hd);
                    profile.add_allocation_sample(th, ns(t[2]), stack, t[3].parse().unwrap(), t[4].parse().unwrap());
                }
                "K" => {
                    let th = threads[t[1].parse::<usize>().unwrap()];
                    let name = profile.handle_for_string(if t[3] == "~" { "" } else { t[3] });
                    let text = profile.handle_for_string(if t[4] == "~" { "" } else { t[4] });
                    let mh = profile.add_marker(th, MarkerTiming::Instant(ns(t[2])), TextMarker { name, text });
                    if t.len() > 5 {
                        let stack = stack_of(&mut profile, th, &t[5..], &hd);
                        profile.set_marker_stack(th, mh, stack);
                    }
                }
                "J" => {
                    let th = threads[t[1].parse::<usize>().unwrap()];
                    let name = profile.handle_for_string(if t[3] == "~" { "" } else { t[3] });
                    let text = profile.handle_for_string(if t[4] == "~" { "" } else { t[4] });
                    profile.add_marker(th, MarkerTiming::Instant(ns(t[2])), LayoutMarker { name, text });
                }
                "G" => {
                    let kinds = if t[2] == "-" { "" } else { t[2] };
                    let category = match t.get(3) {
                        Some(c) => hd.cats[c[1..].parse::<usize>().unwrap()],
                        None => CategoryHandle::OTHER,
                    };
                    let fields = kinds
                        .chars()
                        .enumerate()
                        .map(|(i, k)| RuntimeSchemaMarkerField {
                            key: format!("f{i}"),
                            label: format!("Field {i}"),
                            format: match k {
                                'u' => MarkerFieldFormat::String,
                                's' => MarkerFieldFormat::Url,
                                'p' => MarkerFieldFormat::FilePath,
                                'z' => MarkerFieldFormat::SanitizedString,
                                'n' => MarkerFieldFormat::Integer,
                                x => panic!("bad kind {x}"),
                            },
                            flags: MarkerFieldFlags::empty(),
                        })
                        .collect();
                    let h = profile.register_marker_type(RuntimeSchemaMarkerSchema {
                        type_name: t[1].to_string(),
                        category,
                        description: None,
                        locations: MarkerLocations::MARKER_CHART | MarkerLocations::MARKER_TABLE,
                        chart_label: None,
                        tooltip_label: None,
                        table_label: None,
                        fields,
                        graphs: vec![],
                    });
                    mtypes.push((h, kinds.to_string()));
                }
                "R" => {
                    let th = threads[t[1].parse::<usize>().unwrap()];
                    let (t1, t2) = (ns(t[3]), ns(t[4]));
                    let timing = match t[2] {
                        "I" => MarkerTiming::Instant(t1),
                        "V" => MarkerTiming::Interval(t1, t2),
                        "B" => MarkerTiming::IntervalStart(t1),
                        "E" => MarkerTiming::IntervalEnd(t2),
                        x => panic!("bad timing {x}"),
                    };
                    let (ty, kinds) = mtypes[t[5].parse::<usize>().unwrap()].clone();
                    let name = profile.handle_for_string(if t[6] == "~" { "" } else { t[6] });
                    let vals: Vec<&str> = if t[7] == "-" { vec![] } else { t[7].split(',').collect() };
                    let mut strings = Vec::new();
                    let mut numbers = Vec::new();
                    for (i, k) in kinds.chars().enumerate() {
                        if k == 'n' {
                            strings.push(None);
                            numbers.push(Some(vals[i].parse::<f64>().unwrap()));
                        } else {
                            strings.push(Some(profile.handle_for_string(if vals[i] == "~" { "" } else { vals[i] })));
                            numbers.push(None);
                        }
                    }
                    let mh = profile.add_marker(th, timing, DynMarker { ty, name, strings, numbers });
                    if t.len() > 8 {
                        let stack = stack_of(&mut profile, th, &t[8..], &hd);
                        profile.set_marker_stack(th, mh, stack);
                    }
                }
                "Q" => hd.cats.push(profile.handle_for_category(Category(t[1], color_of(t[2])))),
                "U" => {
                    let c = hd.cats[t[1].parse::<usize>().unwrap()];
                    hd.subs.push(profile.handle_for_subcategory(c, t[2]));
                }
                "C" => counters.push(profile.add_counter(procs[t[1].parse::<usize>().unwrap()], t[2], "Memory", "d")),
                "D" => profile.add_counter_sample(counters[t[1].parse::<usize>().unwrap()], ns(t[2]), t[3].parse().unwrap(), t[4].parse().unwrap()),
                "V" => profile.add_initial_visible_thread(threads[t[1].parse::<usize>().unwrap()]),
                "W" => profile.add_initial_selected_thread(threads[t[1].parse::<usize>().unwrap()]),
                x => panic!("bad op {x}"),
            }
        }
        serde_json::to_string(&profile).unwrap()
    }));
    r.unwrap_or_else(|_| "PANIC".to_string())
}
