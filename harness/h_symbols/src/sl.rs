// C05: symbol lookups in all address forms.
//   sl-dump: <file path>                      -> JSON {"ok":bool,"base":u64,"ranges":[[svma,off,size]],"entries":[[addr,kind]], "nsyms":n, "kindname":".."}
//   sl-look: <file path> <form><value> ...    -> per lookup "N" | "<start>:<size|->:<name_ok 0|1>:<enumerated 0|1>" ; then " | T=<0|1>" (8 threads repeat the lookups and agree)
//            form: r = relative, s = svma, o = file offset
use crate::memhelper::{Loc, MemHelper};
use samply_symbols::{demangle_any, LookupAddress, SymbolManager, SymbolMap};
use std::sync::Arc;

fn load(path: &str) -> Result<SymbolMap<MemHelper>, String> {
    let data = std::fs::read(path).map_err(|e| e.to_string())?;
    let mut h = MemHelper::default();
    h.files.insert(path.to_string(), Arc::new(data));
    // companion files next to it (debuglink targets, symindex) are served too
    if let Some(dir) = std::path::Path::new(path).parent() {
        if let Ok(rd) = std::fs::read_dir(dir) {
            for e in rd.flatten() {
                let p = e.path();
                if p.is_file() && p.to_string_lossy() != path {
                    if let Ok(d) = std::fs::read(&p) {
                        if d.len() < 64 * 1024 * 1024 {
                            h.files.insert(p.to_string_lossy().to_string(), Arc::new(d));
                        }
                    }
                }
            }
        }
    }
    let sm = SymbolManager::with_helper(h);
    futures::executor::block_on(sm.load_symbol_map_from_location(Loc(path.to_string()), None)).map_err(|e| e.to_string())
}

pub fn run_dump(toks: &[&str]) -> String {
    let map = match load(toks[0]) {
        Ok(m) => m,
        Err(e) => return format!("{{\"ok\":false,\"error\":{:?}}}", e),
    };
    let nsyms = map.iter_symbols().count();
    match map.verif_dump() {
        Some(d) => format!(
            "{{\"ok\":true,\"object\":true,\"base\":{},\"ranges\":[{}],\"entries\":[{}],\"nsyms\":{}}}",
            d.image_base_address,
            d.svma_file_ranges.iter().map(|r| format!("[{},{},{}]", r.0, r.1, r.2)).collect::<Vec<_>>().join(","),
            d.entries.iter().map(|e| format!("[{},{}]", e.0, e.1)).collect::<Vec<_>>().join(","),
            nsyms
        ),
        None => {
            let syms: Vec<String> = map.iter_symbols().map(|(a, _)| format!("[{},0]", a)).collect();
            format!("{{\"ok\":true,\"object\":false,\"base\":0,\"ranges\":[],\"entries\":[{}],\"nsyms\":{}}}", syms.join(","), nsyms)
        }
    }
}

fn one(map: &SymbolMap<MemHelper>, enumerated: &std::collections::HashMap<u32, String>, form: char, v: u64) -> String {
    let addr = match form {
        'r' => LookupAddress::Relative(v as u32),
        's' => LookupAddress::Svma(v),
        _ => LookupAddress::FileOffset(v),
    };
    match map.lookup_sync(addr) {
        None => "N".to_string(),
        Some(info) => {
            let (name_ok, en) = match enumerated.get(&info.symbol.address) {
                // the property: the name is the demangled form of the enumerated entry's name (not merely the raw name)
                Some(raw) => ((demangle_any(raw) == info.symbol.name) as u8, 1),
                None => (0, 0),
            };
            format!("{}:{}:{}:{}", info.symbol.address, info.symbol.size.map(|s| s.to_string()).unwrap_or("-".into()), name_ok, en)
        }
    }
}

pub fn run_look(toks: &[&str]) -> String {
    let map = match load(toks[0]) {
        Ok(m) => Arc::new(m),
        Err(_) => return "LOADERR".to_string(),
    };
    let enumerated: Arc<std::collections::HashMap<u32, String>> = Arc::new(map.iter_symbols().map(|(a, n)| (a, n.to_string())).collect());
    let reqs: Vec<(char, u64)> = toks[1..].iter().map(|t| (t.chars().next().unwrap(), t[1..].parse().unwrap())).collect();
    let seq: Vec<String> = reqs.iter().map(|(f, v)| one(&map, &enumerated, *f, *v)).collect();
    // repeat from 8 threads, in a different order each
    let mut agree = true;
    let handles: Vec<_> = (0..8)
        .map(|t| {
            let (map, en, reqs) = (map.clone(), enumerated.clone(), reqs.clone());
            std::thread::spawn(move || {
                let mut idx: Vec<usize> = (0..reqs.len()).collect();
                idx.rotate_left(if reqs.is_empty() { 0 } else { (t * 7) % reqs.len() });
                if t % 2 == 1 {
                    idx.reverse();
                }
                idx.into_iter().map(|i| (i, one(&map, &en, reqs[i].0, reqs[i].1))).collect::<Vec<_>>()
            })
        })
        .collect();
    for h in handles {
        for (i, r) in h.join().unwrap() {
            if r != seq[i] {
                agree = false;
            }
        }
    }
    format!("{} | T={}", seq.join(" "), agree as u8)
}
