// C13: FileContentsWithChunkedCaching over an in-memory, logging source.
// Case tokens: F <len> | Z <pos> (byte 0 at pos) | T <pos> (byte 10 at pos) | A <off> <size> | U <start> <end> <delim> | I <off> <size> <prefill> (read_bytes_into) | X (the next read of the source fails once; a call during which that happened is marked '!')
// File bytes default to 1 + (i mod 7).  Outcome per op: K<n> (Ok, n bytes, equal to file[start..start+n)) | W<n> (Ok, other bytes) | E | P,
// then "| off:size ..." = the reads issued to the source.
use samply_symbols::{FileByteSource, FileContents, FileContentsWithChunkedCaching};
use std::panic::{catch_unwind, AssertUnwindSafe};
use std::sync::{Arc, Mutex};

struct Src {
    data: Arc<Vec<u8>>,
    log: Arc<Mutex<Vec<(u64, usize)>>>,
    // fail_next: the next read of the source fails (a transient I/O error); failed: a read has failed since the flag was last cleared
    fail_next: Arc<std::sync::atomic::AtomicBool>,
    failed: Arc<std::sync::atomic::AtomicBool>,
}

impl FileByteSource for Src {
    fn read_bytes_into(&self, buffer: &mut Vec<u8>, offset: u64, size: usize) -> Result<(), Box<dyn std::error::Error + Send + Sync>> {
        self.log.lock().unwrap().push((offset, size));
        if self.fail_next.swap(false, std::sync::atomic::Ordering::SeqCst) {
            self.failed.store(true, std::sync::atomic::Ordering::SeqCst);
            return Err("transient read error".into());
        }
        let end = (offset as usize).checked_add(size).ok_or("overflow")?;
        if end > self.data.len() {
            return Err("out of bounds".into());
        }
        buffer.extend_from_slice(&self.data[offset as usize..end]);
        Ok(())
    }
}

/// read_bytes_into with a destination that already holds `prefill` bytes: K<n> = Ok, exactly n = size bytes appended, equal to the file, the earlier
/// bytes untouched; W<len> = Ok with anything else; E = Err with the destination unchanged; W<len> also for an Err that changed the destination
fn read_into<S: FileByteSource>(fc: &FileContentsWithChunkedCaching<S>, data: &[u8], off: u64, size: u64, prefill: u64) -> String {
    let mut buf = vec![0xEEu8; prefill as usize];
    match fc.read_bytes_into(&mut buf, off, size as usize) {
        Ok(()) => {
            let p = prefill as usize;
            let good = buf.len() == p + size as usize
                && buf[..p].iter().all(|b| *b == 0xEE)
                && (off as usize).checked_add(size as usize).map_or(false, |e| e <= data.len() && data[off as usize..e] == buf[p..]);
            format!("{}{}", if good { "K" } else { "W" }, buf.len().saturating_sub(p))
        }
        Err(_) => {
            if buf.len() == prefill as usize {
                "E".to_string()
            } else {
                format!("W{}", buf.len())
            }
        }
    }
}

// Several threads on one shared cache ("ccmt" mode).  Case tokens: F / Z / T as above, R <rounds>, then per thread "X" followed by its A / U calls.
// Every round builds a fresh cache and releases all threads from a barrier; each thread makes its calls in order.  Outcome: per thread (separated
// by " / ") one token per call: the outcome of round 0, replaced by the first W (wrong bytes) or P (panic) seen in any round, or by D when rounds disagree otherwise.
pub fn run_mt(toks: &[&str]) -> String {
    let mut i = 0;
    let mut data: Vec<u8> = Vec::new();
    let mut rounds = 1usize;
    let mut threads: Vec<Vec<(char, u64, u64, u64)>> = Vec::new();
    while i < toks.len() {
        match toks[i] {
            "F" => {
                let n: usize = toks[i + 1].parse().unwrap();
                data = (0..n).map(|k| 1 + (k % 7) as u8).collect();
                i += 2;
            }
            "Z" | "T" => {
                let p: usize = toks[i + 1].parse().unwrap();
                if p < data.len() {
                    data[p] = if toks[i] == "Z" { 0 } else { 10 };
                }
                i += 2;
            }
            "R" => {
                rounds = toks[i + 1].parse().unwrap();
                i += 2;
            }
            "X" => {
                threads.push(Vec::new());
                i += 1;
            }
            "A" => {
                threads.last_mut().unwrap().push(('A', toks[i + 1].parse().unwrap(), toks[i + 2].parse().unwrap(), 0));
                i += 3;
            }
            "U" => {
                threads.last_mut().unwrap().push(('U', toks[i + 1].parse().unwrap(), toks[i + 2].parse().unwrap(), toks[i + 3].parse().unwrap()));
                i += 4;
            }
            "I" => {
                threads.last_mut().unwrap().push(('I', toks[i + 1].parse().unwrap(), toks[i + 2].parse().unwrap(), toks[i + 3].parse().unwrap()));
                i += 4;
            }
            t => panic!("bad token {t}"),
        }
    }
    let data = Arc::new(data);
    let mut result: Vec<Vec<String>> = Vec::new();
    for round in 0..rounds {
        let log = Arc::new(Mutex::new(Vec::new()));
        let fail_next = Arc::new(std::sync::atomic::AtomicBool::new(false));
        let failed = Arc::new(std::sync::atomic::AtomicBool::new(false));
        let fc = Arc::new(FileContentsWithChunkedCaching::new(data.len() as u64, Src { data: data.clone(), log: log.clone(), fail_next: fail_next.clone(), failed: failed.clone() }));
        let barrier = Arc::new(std::sync::Barrier::new(threads.len().max(1)));
        let handles: Vec<_> = threads
            .iter()
            .cloned()
            .map(|ops| {
                let (fc, data, barrier) = (fc.clone(), data.clone(), barrier.clone());
                std::thread::spawn(move || {
                    barrier.wait();
                    ops.into_iter()
                        .map(|(k, a, b, d)| {
                            let r = catch_unwind(AssertUnwindSafe(|| {
                                if k == 'I' {
                                    return read_into(&fc, &data, a, b, d);
                                }
                                let res = if k == 'A' { fc.read_bytes_at(a, b) } else { fc.read_bytes_at_until(a..b, d as u8) };
                                match res {
                                    Ok(bytes) => {
                                        let start = a as usize;
                                        let exact = start.checked_add(bytes.len()).map_or(false, |e| e <= data.len() && &data[start..e] == bytes) || bytes.is_empty();
                                        format!("{}{}", if exact { "K" } else { "W" }, bytes.len())
                                    }
                                    Err(_) => "E".to_string(),
                                }
                            }));
                            r.unwrap_or_else(|_| "P".to_string())
                        })
                        .collect::<Vec<String>>()
                })
            })
            .collect();
        let outs: Vec<Vec<String>> = handles.into_iter().map(|h| h.join().unwrap_or_else(|_| vec!["P".to_string()])).collect();
        if round == 0 {
            result = outs;
        } else {
            for (t, o) in outs.into_iter().enumerate() {
                for (k, tok) in o.into_iter().enumerate() {
                    let cur = &result[t][k];
                    let cur_bad = cur.starts_with('W') || cur.starts_with('P');
                    if !cur_bad && *cur != tok {
                        // D = the outcome of one and the same call differs between rounds
                        result[t][k] = if tok.starts_with('W') || tok.starts_with('P') { tok } else { "D".to_string() };
                    }
                }
            }
        }
    }
    result.iter().map(|o| o.join(" ")).collect::<Vec<_>>().join(" / ")
}

pub fn run(toks: &[&str]) -> String {
    let mut i = 0;
    let mut data: Vec<u8> = Vec::new();
    let mut ops: Vec<(char, u64, u64, u64)> = Vec::new();
    while i < toks.len() {
        match toks[i] {
            "F" => {
                let n: usize = toks[i + 1].parse().unwrap();
                data = (0..n).map(|k| 1 + (k % 7) as u8).collect();
                i += 2;
            }
            "Z" | "T" => {
                let p: usize = toks[i + 1].parse().unwrap();
                if p < data.len() {
                    data[p] = if toks[i] == "Z" { 0 } else { 10 };
                }
                i += 2;
            }
            "A" => {
                ops.push(('A', toks[i + 1].parse().unwrap(), toks[i + 2].parse().unwrap(), 0));
                i += 3;
            }
            "U" => {
                ops.push(('U', toks[i + 1].parse().unwrap(), toks[i + 2].parse().unwrap(), toks[i + 3].parse().unwrap()));
                i += 4;
            }
            "I" => {
                ops.push(('I', toks[i + 1].parse().unwrap(), toks[i + 2].parse().unwrap(), toks[i + 3].parse().unwrap()));
                i += 4;
            }
            "X" => {
                // the next read the cache issues to the source fails once
                ops.push(('X', 0, 0, 0));
                i += 1;
            }
            t => panic!("bad token {t}"),
        }
    }
    let data = Arc::new(data);
    let log = Arc::new(Mutex::new(Vec::new()));
    let fail_next = Arc::new(std::sync::atomic::AtomicBool::new(false));
    let failed = Arc::new(std::sync::atomic::AtomicBool::new(false));
    let fc = FileContentsWithChunkedCaching::new(data.len() as u64, Src { data: data.clone(), log: log.clone(), fail_next: fail_next.clone(), failed: failed.clone() });
    let mut out: Vec<String> = Vec::new();
    for (k, a, b, d) in ops {
        if k == 'X' {
            fail_next.store(true, std::sync::atomic::Ordering::SeqCst);
            out.push("x".to_string());
            continue;
        }
        failed.store(false, std::sync::atomic::Ordering::SeqCst);
        let r = catch_unwind(AssertUnwindSafe(|| {
            if k == 'I' {
                return read_into(&fc, &data, a, b, d);
            }
            let res = if k == 'A' { fc.read_bytes_at(a, b) } else { fc.read_bytes_at_until(a..b, d as u8) };
            match res {
                Ok(bytes) => {
                    let start = a as usize;
                    let exact = start.checked_add(bytes.len()).map_or(false, |e| e <= data.len() && &data[start..e] == bytes) || bytes.is_empty();
                    format!("{}{}", if exact { "K" } else { "W" }, bytes.len())
                }
                Err(_) => "E".to_string(),
            }
        }));
        // "!" marks a call during which the source failed: that call may fail, and must leave no trace
        let mut tok = r.unwrap_or_else(|_| "P".to_string());
        if failed.load(std::sync::atomic::Ordering::SeqCst) {
            tok.push('!');
        }
        out.push(tok);
    }
    let reads: Vec<String> = log.lock().unwrap().iter().map(|(o, s)| format!("{}:{}", o, s)).collect();
    format!("{} | {}", out.join(" "), reads.join(" "))
}
