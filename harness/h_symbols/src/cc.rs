// C13: FileContentsWithChunkedCaching over an in-memory, logging source.
// Case tokens: F <len> | Z <pos> (byte 0 at pos) | T <pos> (byte 10 at pos) | A <off> <size> | U <start> <end> <delim>
// File bytes default to 1 + (i mod 7).  Outcome per op: K<n> (Ok, n bytes, equal to file[start..start+n)) | W<n> (Ok, other bytes) | E | P,
// then "| off:size ..." = the reads issued to the source.
use samply_symbols::{FileByteSource, FileContents, FileContentsWithChunkedCaching};
use std::panic::{catch_unwind, AssertUnwindSafe};
use std::sync::{Arc, Mutex};

struct Src {
    data: Arc<Vec<u8>>,
    log: Arc<Mutex<Vec<(u64, usize)>>>,
}

impl FileByteSource for Src {
    fn read_bytes_into(&self, buffer: &mut Vec<u8>, offset: u64, size: usize) -> Result<(), Box<dyn std::error::Error + Send + Sync>> {
        self.log.lock().unwrap().push((offset, size));
        let end = (offset as usize).checked_add(size).ok_or("overflow")?;
        if end > self.data.len() {
            return Err("out of bounds".into());
        }
        buffer.extend_from_slice(&self.data[offset as usize..end]);
        Ok(())
    }
}

pub fn run(toks: &[&str]) -> String {
    let mut i = 0;
    let mut data: Vec<u8> = Vec::new();
    let mut ops: Vec<(char, u64, u64, u64)> = Vec::new();
    while i < toks.len() {
        match toks[i] {
            "F" => {
                let n: usize = toks[i + 1].parse().unwrap();
                data = (0..n).map(|k| 1 + (k % 7) as u8).collect();
                i += 2;
            }
            "Z" | "T" => {
                let p: usize = toks[i + 1].parse().unwrap();
                if p < data.len() {
                    data[p] = if toks[i] == "Z" { 0 } else { 10 };
                }
                i += 2;
            }
            "A" => {
                ops.push(('A', toks[i + 1].parse().unwrap(), toks[i + 2].parse().unwrap(), 0));
                i += 3;
            }
            "U" => {
                ops.push(('U', toks[i + 1].parse().unwrap(), toks[i + 2].parse().unwrap(), toks[i + 3].parse().unwrap()));
                i += 4;
            }
            t => panic!("bad token {t}"),
        }
    }
    let data = Arc::new(data);
    let log = Arc::new(Mutex::new(Vec::new()));
    let fc = FileContentsWithChunkedCaching::new(data.len() as u64, Src { data: data.clone(), log: log.clone() });
    let mut out: Vec<String> = Vec::new();
    for (k, a, b, d) in ops {
        let r = catch_unwind(AssertUnwindSafe(|| {
            let res = if k == 'A' { fc.read_bytes_at(a, b) } else { fc.read_bytes_at_until(a..b, d as u8) };
            match res {
                Ok(bytes) => {
                    let start = a as usize;
                    let exact = start.checked_add(bytes.len()).map_or(false, |e| e <= data.len() && &data[start..e] == bytes) || bytes.is_empty();
                    format!("{}{}", if exact { "K" } else { "W" }, bytes.len())
                }
                Err(_) => "E".to_string(),
            }
        }));
        out.push(r.unwrap_or_else(|_| "P".to_string()));
    }
    let reads: Vec<String> = log.lock().unwrap().iter().map(|(o, s)| format!("{}:{}", o, s)).collect();
    format!("{} | {}", out.join(" "), reads.join(" "))
}
