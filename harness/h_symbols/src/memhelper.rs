// An in-memory FileAndPathHelper: locations are plain strings, files are byte vectors; every load is logged.
use samply_symbols::{CandidatePathInfo, FileAndPathHelper, FileAndPathHelperResult, FileLocation, LibraryInfo, OptionallySendFuture};
use std::collections::HashMap;
use std::sync::{Arc, Mutex};

#[derive(Clone, Debug, PartialEq, Eq, Hash)]
pub struct Loc(pub String);

impl std::fmt::Display for Loc {
    fn fmt(&self, f: &mut std::fmt::Formatter<'_>) -> std::fmt::Result {
        self.0.fmt(f)
    }
}

impl FileLocation for Loc {
    fn location_for_dyld_subcache(&self, suffix: &str) -> Option<Self> {
        Some(Loc(format!("{}{}", self.0, suffix)))
    }
    fn location_for_external_object_file(&self, object_file: &str) -> Option<Self> {
        Some(Loc(object_file.to_string()))
    }
    fn location_for_pdb_from_binary(&self, p: &str) -> Option<Self> {
        Some(Loc(p.to_string()))
    }
    fn location_for_source_file(&self, p: &str) -> Option<Self> {
        Some(Loc(p.to_string()))
    }
    fn location_for_breakpad_symindex(&self) -> Option<Self> {
        Some(Loc(format!("{}.symindex", self.0.trim_end_matches(".sym"))))
    }
    fn location_for_dwo(&self, _comp_dir: &str, _path: &str) -> Option<Self> {
        None
    }
    fn location_for_dwp(&self) -> Option<Self> {
        Some(Loc(format!("{}.dwp", self.0)))
    }
}

/// candidate strings of the form "dyld=<cache file>=<dylib path>" stand for an image inside a dyld shared cache
fn cand(p: &str) -> CandidatePathInfo<Loc> {
    if let Some(rest) = p.strip_prefix("dyld=") {
        if let Some((cache, dylib)) = rest.split_once('=') {
            return CandidatePathInfo::InDyldCache { dyld_cache_path: Loc(cache.to_string()), dylib_path: dylib.to_string() };
        }
    }
    CandidatePathInfo::SingleFile(Loc(p.to_string()))
}

#[derive(Default)]
pub struct MemHelper {
    pub files: HashMap<String, Arc<Vec<u8>>>,
    pub debug_candidates: Vec<String>,
    pub binary_candidates: Vec<String>,
    pub debuglink_candidates: Vec<String>,
    pub supplementary_candidates: Vec<String>,
    pub log: Arc<Mutex<Vec<String>>>,
}

pub struct Bytes(pub Arc<Vec<u8>>);
impl std::ops::Deref for Bytes {
    type Target = [u8];
    fn deref(&self) -> &[u8] {
        &self.0
    }
}

impl FileAndPathHelper for MemHelper {
    type F = Bytes;
    type FL = Loc;

    fn get_candidate_paths_for_debug_file(&self, _info: &LibraryInfo) -> FileAndPathHelperResult<Vec<CandidatePathInfo<Loc>>> {
        Ok(self.debug_candidates.iter().map(|p| cand(p)).collect())
    }
    fn get_candidate_paths_for_binary(&self, _info: &LibraryInfo) -> FileAndPathHelperResult<Vec<CandidatePathInfo<Loc>>> {
        Ok(self.binary_candidates.iter().map(|p| cand(p)).collect())
    }
    fn get_candidate_paths_for_gnu_debug_link_dest(&self, _orig: &Loc, _name: &str) -> FileAndPathHelperResult<Vec<Loc>> {
        Ok(self.debuglink_candidates.iter().map(|p| Loc(p.clone())).collect())
    }
    fn get_candidate_paths_for_supplementary_debug_file(&self, _orig: &Loc, _path: &str, _id: &samply_symbols::ElfBuildId) -> FileAndPathHelperResult<Vec<Loc>> {
        Ok(self.supplementary_candidates.iter().map(|p| Loc(p.clone())).collect())
    }
    fn get_dyld_shared_cache_paths(&self, _arch: Option<&str>) -> FileAndPathHelperResult<Vec<Loc>> {
        Ok(vec![])
    }
    fn load_file(&self, location: Loc) -> std::pin::Pin<Box<dyn OptionallySendFuture<Output = FileAndPathHelperResult<Self::F>> + '_>> {
        Box::pin(async move {
            self.log.lock().unwrap().push(location.0.clone());
            match self.files.get(&location.0) {
                Some(b) => Ok(Bytes(b.clone())),
                None => Err(Box::new(std::io::Error::new(std::io::ErrorKind::NotFound, "no such file")) as Box<dyn std::error::Error + Send + Sync>),
            }
        })
    }
}
