// C06: candidate selection and companion files.
//   cand: <sym|bin> <requested: breakpad id, or "code:<code id>"> <candidate>...     candidate = file path | @missing | @garbage | @empty
//         -> "<standalone outcome per candidate> | <selection>"
//            sym standalone: "ok:<breakpad id>" | "err";  selection: "sel:<breakpad id>:<location>" | "err"
//            bin standalone: "ok:<debug id|->:<code id|->" | "err";  selection: "sel:<debug id|->:<code id|->" | "err"
//            a candidate "dyld=<cache file>=<dylib path>" is offered as CandidatePathInfo::InDyldCache; its standalone entry is the word "dyld"
//   companion: <debuglink|sup> <main file> <first-level debug file | -> <companion file> <offset> <xor mask>
//         -> "frames=<n> idmatch=<0|1>"   n = number of probed addresses for which debug-info frames were returned;
//            idmatch: debuglink: crc32 of the (corrupted) companion equals the CRC in .gnu_debuglink; sup: its build id equals the .gnu_debugaltlink id
use crate::memhelper::{Loc, MemHelper};
use samply_symbols::debugid::DebugId;
use samply_symbols::object::{self, Object};
use samply_symbols::{CodeId, FramesLookupResult, LibraryInfo, LookupAddress, MultiArchDisambiguator, SymbolManager};
use std::str::FromStr;
use std::sync::Arc;

fn block<F: std::future::Future>(f: F) -> F::Output {
    futures::executor::block_on(f)
}

fn helper_with(cands: &[&str]) -> (MemHelper, Vec<String>) {
    let mut h = MemHelper::default();
    let mut locs = Vec::new();
    for (i, c) in cands.iter().enumerate() {
        let loc = match *c {
            "@missing" => format!("missing{}", i),
            "@garbage" => {
                let l = format!("garbage{}", i);
                h.files.insert(l.clone(), Arc::new((0..200u32).map(|k| (k * 37 % 251) as u8).collect()));
                l
            }
            "@empty" => {
                let l = format!("empty{}", i);
                h.files.insert(l.clone(), Arc::new(Vec::new()));
                l
            }
            path if path.starts_with("dyld=") => {
                // "dyld=<cache file>=<dylib path>": the cache file is what gets loaded
                let cache = path[5..].split('=').next().unwrap_or("");
                if !h.files.contains_key(cache) {
                    if let Ok(d) = std::fs::read(cache) {
                        h.files.insert(cache.to_string(), Arc::new(d));
                    }
                }
                path.to_string()
            }
            path => {
                if !h.files.contains_key(path) {
                    if let Ok(d) = std::fs::read(path) {
                        h.files.insert(path.to_string(), Arc::new(d));
                    }
                }
                path.to_string()
            }
        };
        locs.push(loc);
    }
    (h, locs)
}

fn ids(img: &samply_symbols::BinaryImage<crate::memhelper::Bytes>) -> String {
    format!("{}:{}", img.debug_id().map(|d| d.breakpad().to_string()).unwrap_or("-".into()), img.code_id().map(|c| c.to_string()).unwrap_or("-".into()))
}

pub fn run_cand(toks: &[&str]) -> String {
    let kind = toks[0];
    let req = toks[1];
    let (mut h, locs) = helper_with(&toks[2..]);
    // request: "<breakpad id>" | "code:<code id>" | "<breakpad id>+code:<code id>"
    let (req_debug, req_code): (Option<DebugId>, Option<CodeId>) = if let Some(c) = req.strip_prefix("code:") {
        (None, CodeId::from_str(c).ok())
    } else if let Some((d, c)) = req.split_once("+code:") {
        (DebugId::from_breakpad(d).ok(), CodeId::from_str(c).ok())
    } else {
        (DebugId::from_breakpad(req).ok(), None)
    };
    h.debug_candidates = locs.clone();
    h.binary_candidates = locs.clone();
    let sm = SymbolManager::with_helper(h);
    let mut standalone = Vec::new();
    let dis = req_debug.map(MultiArchDisambiguator::DebugId);
    for l in &locs {
        if l.starts_with("dyld=") {
            // no standalone entry point exists for an image inside a shared cache: the generator states which image (and id) the cache holds under that path
            standalone.push("dyld".into());
            continue;
        }
        if kind == "sym" {
            match block(sm.load_symbol_map_from_location(Loc(l.clone()), dis.clone())) {
                Ok(m) => standalone.push(format!("ok:{}", m.debug_id().breakpad())),
                Err(_) => standalone.push("err".into()),
            }
        } else {
            match block(sm.load_binary_at_location(Loc(l.clone()), None, None, dis.clone())) {
                Ok(img) => standalone.push(format!("ok:{}", ids(&img))),
                Err(_) => standalone.push("err".into()),
            }
        }
    }
    let info = LibraryInfo { debug_name: Some("x".into()), debug_id: req_debug, code_id: req_code, ..Default::default() };
    let sel = if kind == "sym" {
        match block(sm.load_symbol_map(&info)) {
            Ok(m) => format!("sel:{}:{}", m.debug_id().breakpad(), m.debug_file_location()),
            Err(_) => "err".into(),
        }
    } else {
        match block(sm.load_binary(&info)) {
            Ok(img) => format!("sel:{}", ids(&img)),
            Err(_) => "err".into(),
        }
    };
    format!("{} | {}", standalone.join(" "), sel)
}

// fat: <requested breakpad id | -> <file>  -> "sym:<ok:id|err> bin:<ok:id|err>"   (direct loads with the id, or nothing, as disambiguator)
pub fn run_fat(toks: &[&str]) -> String {
    let dis = DebugId::from_breakpad(toks[0]).ok().map(MultiArchDisambiguator::DebugId);
    let (h, locs) = helper_with(&toks[1..2]);
    let sm = SymbolManager::with_helper(h);
    let a = match block(sm.load_symbol_map_from_location(Loc(locs[0].clone()), dis.clone())) {
        Ok(m) => format!("ok:{}", m.debug_id().breakpad()),
        Err(_) => "err".into(),
    };
    let b = match block(sm.load_binary_at_location(Loc(locs[0].clone()), None, None, dis)) {
        Ok(img) => format!("ok:{}", img.debug_id().map(|d| d.breakpad().to_string()).unwrap_or("-".into())),
        Err(_) => "err".into(),
    };
    format!("sym:{} bin:{}", a, b)
}

fn crc32(data: &[u8]) -> u32 {
    let mut crc = 0xFFFF_FFFFu32;
    for &b in data {
        crc ^= b as u32;
        for _ in 0..8 {
            crc = if crc & 1 != 0 { (crc >> 1) ^ 0xEDB8_8320 } else { crc >> 1 };
        }
    }
    !crc
}

pub fn run_companion(toks: &[&str]) -> String {
    let kind = toks[0];
    let main_path = toks[1];
    let first_level = toks[2];
    let comp_path = toks[3];
    let offset: usize = toks[4].parse().unwrap();
    let mask: u8 = toks[5].parse().unwrap();
    let main = std::fs::read(main_path).expect("main");
    let mut comp = std::fs::read(comp_path).expect("companion");
    if offset < comp.len() {
        comp[offset] ^= mask;
    }
    let mut h = MemHelper::default();
    h.files.insert("main".into(), Arc::new(main.clone()));
    let idmatch;
    if kind == "debuglink" {
        let f = object::File::parse(&main[..]).expect("parse main");
        let (_, crc) = f.gnu_debuglink().ok().flatten().expect("debuglink");
        idmatch = crc32(&comp) == crc;
        h.files.insert("comp".into(), Arc::new(comp));
        h.debuglink_candidates = vec!["comp".into()];
    } else {
        let fl = std::fs::read(first_level).expect("first level debug file");
        let f = object::File::parse(&fl[..]).expect("parse first level");
        let (_, want) = f.gnu_debugaltlink().ok().flatten().expect("altlink");
        idmatch = object::File::parse(&comp[..]).ok().and_then(|c| c.build_id().ok().flatten().map(|b| b == want)).unwrap_or(false);
        // the supplementary file is consulted when the first-level debug file itself is opened as the symbol source
        // (the .gnu_debuglink path of the stripped binary does not load it)
        h.files.insert("main".into(), Arc::new(fl.clone()));
        h.files.insert("comp".into(), Arc::new(comp));
        h.supplementary_candidates = vec!["comp".into()];
    }
    let sm = SymbolManager::with_helper(h);
    let map = match block(sm.load_symbol_map_from_location(Loc("main".into()), None)) {
        Ok(m) => m,
        Err(e) => return format!("LOADERR {}", e.to_string().replace(' ', "_")),
    };
    let starts: Vec<u32> = map.iter_symbols().map(|(a, _)| a).take(4000).collect();
    let step = (starts.len() / 120).max(1);
    let mut frames = 0;
    let mut named = 0;
    for a in starts.iter().step_by(step) {
        if let Some(info) = map.lookup_sync(LookupAddress::Relative(*a + 4)) {
            if let Some(FramesLookupResult::Available(fr)) = info.frames {
                if fr.iter().any(|f| f.file_path.is_some()) {
                    frames += 1;
                }
                // dwz: function names that live only in the supplementary file
                if fr.iter().any(|f| f.function.is_some()) {
                    named += 1;
                }
            }
        }
    }
    // explicit probe addresses (relative), e.g. inside inlined functions whose names live in a supplementary file
    let mut probe_names: Vec<String> = Vec::new();
    for t in &toks[6..] {
        let a: u32 = t.parse().unwrap();
        if let Some(info) = map.lookup_sync(LookupAddress::Relative(a)) {
            if let Some(FramesLookupResult::Available(fr)) = info.frames {
                probe_names.extend(fr.iter().map(|f| f.function.clone().unwrap_or("-".into())));
            }
        }
    }
    format!("frames={} named={} idmatch={} probes={}", frames, named, idmatch as u8, probe_names.join(","))
}
