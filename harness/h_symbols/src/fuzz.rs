// C08 (samply-symbols side).
//   codeid: <hex of the UTF-8 bytes of the text>      -> "PE <timestamp> <size>" | "UUID <32 hex>" | "ELF <hex>" | "ERR" | "PANIC" | "NOTUTF8"
//   bpfuzz: <sym file> <symindex file | -> <addr>...  -> "<n lookups done> <PANIC count> <detail>"   (every call under catch_unwind)
use crate::memhelper::{Loc, MemHelper};
use samply_symbols::{BreakpadIndex, BreakpadIndexCreator, CodeId, LookupAddress, SymbolManager};
use std::panic::{catch_unwind, AssertUnwindSafe};
use std::str::FromStr;
use std::sync::Arc;

pub fn run_codeid(toks: &[&str]) -> String {
    let hex = toks.first().copied().unwrap_or("");
    let bytes: Vec<u8> = (0..hex.len() / 2).map(|i| u8::from_str_radix(&hex[2 * i..2 * i + 2], 16).unwrap()).collect();
    let Ok(s) = String::from_utf8(bytes) else { return "NOTUTF8".to_string() };
    match catch_unwind(AssertUnwindSafe(|| CodeId::from_str(&s))) {
        Err(_) => "PANIC".to_string(),
        Ok(Err(())) => "ERR".to_string(),
        Ok(Ok(CodeId::PeCodeId(p))) => format!("PE {} {}", p.timestamp, p.image_size),
        Ok(Ok(CodeId::MachoUuid(u))) => format!("UUID {:X}", u.simple()),
        Ok(Ok(CodeId::ElfBuildId(e))) => format!("ELF {}", e.0.iter().map(|b| format!("{:02x}", b)).collect::<String>()),
    }
}

pub fn run_bpfuzz(toks: &[&str]) -> String {
    let data = std::fs::read(toks[0]).expect("sym file");
    let index = if toks[1] == "-" { None } else { Some(std::fs::read(toks[1]).expect("symindex file")) };
    let mut panics = 0;
    let mut detail = String::new();
    // index creation in a few partitions
    for chunk in [data.len().max(1), 1, 7, 4096] {
        let r = catch_unwind(AssertUnwindSafe(|| {
            let mut c = BreakpadIndexCreator::new();
            for ch in data.chunks(chunk) {
                c.consume(ch);
            }
            c.finish().map(|b| BreakpadIndex::parse_symindex_file(&b[..]).map(|i| i.serialize_to_bytes().len()).ok())
        }));
        if r.is_err() {
            panics += 1;
            detail = format!("index-creation(chunk={})", chunk);
        }
    }
    if let Some(idx) = &index {
        if catch_unwind(AssertUnwindSafe(|| BreakpadIndex::parse_symindex_file(&idx[..]).map(|i| i.serialize_to_bytes().len()).ok())).is_err() {
            panics += 1;
            detail = "parse-stored-index".into();
        }
    }
    let mut h = MemHelper::default();
    h.files.insert("f.sym".into(), Arc::new(data));
    if let Some(idx) = index {
        h.files.insert("f.symindex".into(), Arc::new(idx));
    }
    let sm = SymbolManager::with_helper(h);
    let map = catch_unwind(AssertUnwindSafe(|| futures::executor::block_on(sm.load_symbol_map_from_location(Loc("f.sym".into()), None))));
    let mut n = 0;
    match map {
        Err(_) => {
            panics += 1;
            detail = "load_symbol_map".into();
        }
        Ok(Err(_)) => {}
        Ok(Ok(map)) => {
            for t in &toks[2..] {
                let a: u32 = t.parse().unwrap();
                n += 1;
                if catch_unwind(AssertUnwindSafe(|| map.lookup_sync(LookupAddress::Relative(a)).map(|i| i.symbol.name.len()))).is_err() {
                    panics += 1;
                    detail = format!("lookup({})", a);
                }
            }
            if catch_unwind(AssertUnwindSafe(|| map.iter_symbols().count())).is_err() {
                panics += 1;
                detail = "iter_symbols".into();
            }
        }
    }
    format!("{} {} {}", n, panics, detail)
}
