// C08 (samply-symbols side).
//   codeid: <hex of the UTF-8 bytes of the text>      -> "PE <timestamp> <size>" | "UUID <32 hex>" | "ELF <hex>" | "ERR" | "PANIC" | "NOTUTF8"
//   bpfuzz: <sym file> <symindex file | -> <addr>...  -> "<n lookups done> <PANIC count> <detail>"   (every call under catch_unwind)
use crate::memhelper::{Loc, MemHelper};
use samply_symbols::{BreakpadIndex, BreakpadIndexCreator, CodeId, LookupAddress, SymbolManager};
use std::panic::{catch_unwind, AssertUnwindSafe};
use std::str::FromStr;
use std::sync::Arc;

pub fn run_codeid(toks: &[&str]) -> String {
    let hex = toks.first().copied().unwrap_or("");
    let bytes: Vec<u8> = (0..hex.len() / 2).map(|i| u8::from_str_radix(&hex[2 * i..2 * i + 2], 16).unwrap()).collect();
    let Ok(s) = String::from_utf8(bytes) else { return "NOTUTF8".to_string() };
    match catch_unwind(AssertUnwindSafe(|| CodeId::from_str(&s))) {
        Err(_) => "PANIC".to_string(),
        Ok(Err(())) => "ERR".to_string(),
        Ok(Ok(CodeId::PeCodeId(p))) => format!("PE {} {}", p.timestamp, p.image_size),
        Ok(Ok(CodeId::MachoUuid(u))) => format!("UUID {:X}", u.simple()),
        Ok(Ok(CodeId::ElfBuildId(e))) => format!("ELF {}", e.0.iter().map(|b| format!("{:02x}", b)).collect::<String>()),
    }
}

// C19: cidrt <pe:<timestamp>:<size> | uuid:<32 hex> | elf:<hex>>  ->  "<to_string> | <from_str(to_string) rendered as in run_codeid>"
pub fn run_cidrt(toks: &[&str]) -> String {
    let spec = toks.first().copied().unwrap_or("");
    let parts: Vec<&str> = spec.split(':').collect();
    let unhex = |h: &str| -> Vec<u8> { (0..h.len() / 2).map(|i| u8::from_str_radix(&h[2 * i..2 * i + 2], 16).unwrap()).collect() };
    let id = match parts[0] {
        "pe" => CodeId::PeCodeId(samply_symbols::PeCodeId { timestamp: parts[1].parse().unwrap(), image_size: parts[2].parse().unwrap() }),
        "uuid" => {
            CodeId::MachoUuid(samply_symbols::debugid::DebugId::from_breakpad(&format!("{}0", parts[1].to_uppercase())).unwrap().uuid())
        }
        _ => CodeId::ElfBuildId(samply_symbols::ElfBuildId::from_bytes(&unhex(parts.get(1).copied().unwrap_or("")))),
    };
    let s = id.to_string();
    let hex: String = s.bytes().map(|b| format!("{:02x}", b)).collect();
    format!("{} | {}", s, run_codeid(&[&hex]))
}

// C19: names <file> <relative address>...  ->  function name per address ("-" when the lookup finds nothing), separated by \x1f
pub fn run_names(toks: &[&str]) -> String {
    let mut h = MemHelper::default();
    let path = toks[0];
    match std::fs::read(path) {
        Ok(d) => {
            // a .gnu_debuglink target next to the binary is part of "the binary recorded in the profile" (wholesym looks there too)
            use samply_symbols::object::Object;
            if let Ok(f) = samply_symbols::object::File::parse(&d[..]) {
                if let Ok(Some((name, _crc))) = f.gnu_debuglink() {
                    if let Some(dir) = std::path::Path::new(path).parent() {
                        let cand = dir.join(String::from_utf8_lossy(name).to_string());
                        if let Ok(dd) = std::fs::read(&cand) {
                            let loc = cand.to_string_lossy().to_string();
                            h.files.insert(loc.clone(), Arc::new(dd));
                            h.debuglink_candidates = vec![loc];
                        }
                    }
                }
            }
            h.files.insert(path.to_string(), Arc::new(d));
        }
        Err(_) => return "LOADERR".into(),
    }
    let sm = samply_symbols::SymbolManager::with_helper(h);
    let map = match futures::executor::block_on(sm.load_symbol_map_from_location(crate::memhelper::Loc(path.to_string()), None)) {
        Ok(m) => m,
        Err(_) => return "LOADERR".into(),
    };
    let mut out = vec![format!("{}", map.debug_id().breakpad())];
    for t in &toks[1..] {
        let a: u32 = t.parse().unwrap();
        out.push(match map.lookup_sync(samply_symbols::LookupAddress::Relative(a)) {
            Some(info) => info.symbol.name,
            None => "-".into(),
        });
    }
    out.join("\x1f")
}

// C10 / C08: idxrt <file with .symindex bytes>  ->  "OK <hex of parse(bytes).serialize_to_bytes()>" | "ERR <error variant>" | "PANIC"
pub fn run_idxrt(toks: &[&str]) -> String {
    let data = match std::fs::read(toks[0]) {
        Ok(d) => d,
        Err(_) => return "NOFILE".into(),
    };
    match catch_unwind(AssertUnwindSafe(|| BreakpadIndex::parse_symindex_file(&data[..]).map(|i| i.serialize_to_bytes()))) {
        Err(_) => "PANIC".into(),
        Ok(Err(e)) => format!("ERR {:?}", e).split('(').next().unwrap().to_string(),
        Ok(Ok(b)) => format!("OK {}", b.iter().map(|x| format!("{:02x}", x)).collect::<String>()),
    }
}

pub fn run_bpfuzz(toks: &[&str]) -> String {
    let data = std::fs::read(toks[0]).expect("sym file");
    let index = if toks[1] == "-" { None } else { Some(std::fs::read(toks[1]).expect("symindex file")) };
    let mut panics = 0;
    let mut detail = String::new();
    // index creation in a few partitions
    for chunk in [data.len().max(1), 1, 7, 4096] {
        let r = catch_unwind(AssertUnwindSafe(|| {
            let mut c = BreakpadIndexCreator::new();
            for ch in data.chunks(chunk) {
                c.consume(ch);
            }
            c.finish().map(|b| BreakpadIndex::parse_symindex_file(&b[..]).map(|i| i.serialize_to_bytes().len()).ok())
        }));
        if r.is_err() {
            panics += 1;
            detail = format!("index-creation(chunk={})", chunk);
        }
    }
    if let Some(idx) = &index {
        if catch_unwind(AssertUnwindSafe(|| BreakpadIndex::parse_symindex_file(&idx[..]).map(|i| i.serialize_to_bytes().len()).ok())).is_err() {
            panics += 1;
            detail = "parse-stored-index".into();
        }
    }
    let mut h = MemHelper::default();
    h.files.insert("f.sym".into(), Arc::new(data));
    if let Some(idx) = index {
        h.files.insert("f.symindex".into(), Arc::new(idx));
    }
    let sm = SymbolManager::with_helper(h);
    let map = catch_unwind(AssertUnwindSafe(|| futures::executor::block_on(sm.load_symbol_map_from_location(Loc("f.sym".into()), None))));
    let mut n = 0;
    match map {
        Err(_) => {
            panics += 1;
            detail = "load_symbol_map".into();
        }
        Ok(Err(_)) => {}
        Ok(Ok(map)) => {
            for t in &toks[2..] {
                let a: u32 = t.parse().unwrap();
                n += 1;
                if catch_unwind(AssertUnwindSafe(|| map.lookup_sync(LookupAddress::Relative(a)).map(|i| i.symbol.name.len()))).is_err() {
                    panics += 1;
                    detail = format!("lookup({})", a);
                }
            }
            if catch_unwind(AssertUnwindSafe(|| map.iter_symbols().count())).is_err() {
                panics += 1;
                detail = "iter_symbols".into();
            }
        }
    }
    format!("{} {} {}", n, panics, detail)
}
