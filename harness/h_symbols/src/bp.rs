// C10: Breakpad index.  Case: <path of .sym file> <seed> <number of random partitions> <lookup addresses...>
// Outcome: "EQ=<0|1> RT=<0|1> IDX=<hex of index bytes | ERR> LKEQ=<0|1> | <lookup> | <lookup> ..."
//   EQ: every partition (whole, all 1-byte chunks, splits after every '\r', random ones) produced identical index bytes
//   RT: parse_symindex_file(bytes) -> serialize_to_bytes reproduces the bytes
//   LKEQ: lookups through a symbol map with a separately stored index equal lookups through one that indexes the file itself
//   lookup = "N" | "S <addr> <size|-> <name> [<function|->@<file|->:<line|->;...]"   (frames innermost first, as returned)
use crate::memhelper::{Loc, MemHelper};
use samply_symbols::{BreakpadIndex, BreakpadIndexCreator, FramesLookupResult, LookupAddress, SymbolManager};
use std::sync::Arc;

fn index_for(chunks: &[&[u8]]) -> Result<Vec<u8>, String> {
    let mut c = BreakpadIndexCreator::new();
    for ch in chunks {
        c.consume(ch);
    }
    c.finish().map_err(|e| e.to_string())
}

fn xorshift(s: &mut u64) -> u64 {
    *s ^= *s << 13;
    *s ^= *s >> 7;
    *s ^= *s << 17;
    *s
}

fn split_at<'a>(data: &'a [u8], cuts: &[usize]) -> Vec<&'a [u8]> {
    let mut v = Vec::new();
    let mut prev = 0;
    for &c in cuts {
        if c > prev && c < data.len() {
            v.push(&data[prev..c]);
            prev = c;
        }
    }
    v.push(&data[prev..]);
    v
}

// names and paths are printed as "x" + the hex of their bytes: they may contain any character, including this protocol's separators
fn esc(s: &str) -> String {
    let mut o = String::with_capacity(1 + 2 * s.len());
    o.push('x');
    for b in s.bytes() {
        o.push_str(&format!("{:02x}", b));
    }
    o
}

fn lookup(sm: &samply_symbols::SymbolMap<MemHelper>, a: u32) -> String {
    match sm.lookup_sync(LookupAddress::Relative(a)) {
        None => "N".to_string(),
        Some(info) => {
            let frames = match info.frames {
                Some(FramesLookupResult::Available(fr)) => fr
                    .iter()
                    .map(|f| {
                        format!("{}@{}:{}", f.function.as_deref().map(esc).unwrap_or("-".into()),
                                f.file_path.as_ref().map(|p| esc(p.raw_path())).unwrap_or("-".into()),
                                f.line_number.map(|l| l.to_string()).unwrap_or("-".into()))
                    })
                    .collect::<Vec<_>>()
                    .join(";"),
                Some(_) => "external".to_string(),
                None => "nf".to_string(),
            };
            format!("S {} {} {} [{}]", info.symbol.address, info.symbol.size.map(|s| s.to_string()).unwrap_or("-".into()), esc(&info.symbol.name), frames)
        }
    }
}

pub fn run(toks: &[&str]) -> String {
    let data = std::fs::read(toks[0]).expect("sym file");
    let mut seed: u64 = toks[1].parse::<u64>().unwrap() | 1;
    let nrand: usize = toks[2].parse().unwrap();
    let whole = index_for(&[&data[..]]);
    let mut eq = true;
    let ones: Vec<&[u8]> = data.chunks(1).collect();
    if index_for(&ones) != whole {
        eq = false;
    }
    // splits right after every '\r' (inside "\r\n") and right after every '\n'
    for want in [b'\r', b'\n'] {
        let cuts: Vec<usize> = data.iter().enumerate().filter(|(_, b)| **b == want).map(|(i, _)| i + 1).collect();
        if index_for(&split_at(&data, &cuts)) != whole {
            eq = false;
        }
    }
    for _ in 0..nrand {
        let n = (xorshift(&mut seed) % 12) as usize + 1;
        let mut cuts: Vec<usize> = (0..n).map(|_| (xorshift(&mut seed) as usize) % (data.len() + 1)).collect();
        cuts.sort();
        if index_for(&split_at(&data, &cuts)) != whole {
            eq = false;
        }
    }
    let (idx_hex, rt) = match &whole {
        Ok(b) => {
            let rt = match BreakpadIndex::parse_symindex_file(&b[..]) {
                Ok(i) => i.serialize_to_bytes() == *b,
                Err(_) => false,
            };
            (b.iter().map(|x| format!("{:02x}", x)).collect::<String>(), rt)
        }
        Err(_) => ("ERR".to_string(), true),
    };
    let addrs: Vec<u32> = toks[3..].iter().map(|s| s.parse().unwrap()).collect();
    let mut lk: Vec<String> = Vec::new();
    let mut lkeq = true;
    if let Ok(idx) = &whole {
        let data = Arc::new(data.clone());
        let mut h1 = MemHelper::default();
        h1.files.insert("f.sym".into(), data.clone());
        let mut h2 = MemHelper::default();
        h2.files.insert("f.sym".into(), data.clone());
        h2.files.insert("f.symindex".into(), Arc::new(idx.clone()));
        let m1 = futures_block(SymbolManager::with_helper(h1).load_symbol_map_from_location(Loc("f.sym".into()), None));
        let m2 = futures_block(SymbolManager::with_helper(h2).load_symbol_map_from_location(Loc("f.sym".into()), None));
        match (m1, m2) {
            (Ok(m1), Ok(m2)) => {
                for a in addrs {
                    let (r1, r2) = (lookup(&m1, a), lookup(&m2, a));
                    if r1 != r2 {
                        lkeq = false;
                    }
                    lk.push(r1);
                }
            }
            _ => lk.push("MAPERR".into()),
        }
    }
    format!("EQ={} RT={} IDX={} LKEQ={} | {}", eq as u8, rt as u8, idx_hex, lkeq as u8, lk.join(" | "))
}

fn futures_block<F: std::future::Future>(f: F) -> F::Output {
    futures::executor::block_on(f)
}
