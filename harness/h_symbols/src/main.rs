// Correspondence harness for the samply-symbols crate (C13, later C10 C05 C06).
use std::io::{BufRead, Write};

mod bp;
mod cand;
mod cc;
mod fuzz;
mod memhelper;
mod sl;

fn main() {
    std::panic::set_hook(Box::new(|_| {}));
    let mode = std::env::args().nth(1).expect("mode");
    let stdin = std::io::stdin();
    let stdout = std::io::stdout();
    let mut out = std::io::BufWriter::new(stdout.lock());
    for line in stdin.lock().lines() {
        let line = line.unwrap();
        let toks: Vec<&str> = line.split_whitespace().collect();
        let res = match mode.as_str() {
            "cc" => cc::run(&toks),
            "ccmt" => cc::run_mt(&toks),
            // a panic inside the crate under test on one generated file is reported for that file, not as a dead harness
            "bp" => std::panic::catch_unwind(std::panic::AssertUnwindSafe(|| bp::run(&toks))).unwrap_or_else(|_| "PANIC".to_string()),
            "cand" => cand::run_cand(&toks),
            "companion" => cand::run_companion(&toks),
            "fat" => cand::run_fat(&toks),
            "sl-dump" => sl::run_dump(&toks),
            "sl-look" => sl::run_look(&toks),
            "codeid" => fuzz::run_codeid(&toks),
            "cidrt" => fuzz::run_cidrt(&toks),
            "names" => fuzz::run_names(&toks),
            "idxrt" => fuzz::run_idxrt(&toks),
            "bpfuzz" => fuzz::run_bpfuzz(&toks),
            _ => panic!("unknown mode"),
        };
        writeln!(out, "{}", res).unwrap();
    }
}
