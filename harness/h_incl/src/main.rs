// Harness for modules of the samply binary crate that are compiled in by #[path] (always the current source).
#![allow(dead_code)]
use std::io::{BufRead, Write};
use std::panic::{catch_unwind, AssertUnwindSafe};

#[path = "/repo/samply/src/shared/context_switch.rs"]
mod context_switch;

mod cs;

fn main() {
    std::panic::set_hook(Box::new(|_| {}));
    let mode = std::env::args().nth(1).expect("mode");
    let stdin = std::io::stdin();
    let stdout = std::io::stdout();
    let mut out = std::io::BufWriter::new(stdout.lock());
    for line in stdin.lock().lines() {
        let line = line.unwrap();
        let toks: Vec<&str> = line.split_whitespace().collect();
        let res = match mode.as_str() {
            "cs" => cs::run(&toks),
            _ => panic!("unknown mode"),
        };
        writeln!(out, "{}", res).unwrap();
    }
}

pub fn guard<T, F: FnOnce() -> T>(f: F) -> Option<T> {
    catch_unwind(AssertUnwindSafe(f)).ok()
}
