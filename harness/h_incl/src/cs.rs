// C12: ContextSwitchHandler.  Case: "<interval> ev ev ..." with ev = i<t> | o<t> | s<t> | c
// Outcome: per event "-" | "g:<begin>:<end>:<count>" | "d:<delta>", then "| <on_acc> <off_acc>"; "P" at the panicking event.
use crate::context_switch::{ContextSwitchHandler, ThreadContextSwitchData};
use crate::guard;

fn field(dbg: &str, name: &str) -> u64 {
    let i = dbg.find(name).expect("debug field") + name.len();
    let rest = &dbg[i..];
    let rest = rest.trim_start_matches(|c: char| c == ':' || c == ' ');
    let end = rest.find(|c: char| !c.is_ascii_digit()).unwrap_or(rest.len());
    rest[..end].parse().unwrap()
}

pub fn run(toks: &[&str]) -> String {
    let interval: u64 = toks[0].parse().unwrap();
    let handler = ContextSwitchHandler::new(interval);
    let mut thread = ThreadContextSwitchData::default();
    let mut out: Vec<String> = Vec::new();
    for t in &toks[1..] {
        let (k, rest) = t.split_at(1);
        let r = guard(|| match k {
            "i" => handler.handle_switch_in(rest.parse().unwrap(), &mut thread).map(|g| (g.begin_timestamp, g.end_timestamp, g.sample_count)).map_or("-".to_string(), |g| format!("g:{}:{}:{}", g.0, g.1, g.2)),
            "s" => handler.handle_on_cpu_sample(rest.parse().unwrap(), &mut thread).map(|g| (g.begin_timestamp, g.end_timestamp, g.sample_count)).map_or("-".to_string(), |g| format!("g:{}:{}:{}", g.0, g.1, g.2)),
            "o" => {
                handler.handle_switch_out(rest.parse().unwrap(), &mut thread);
                "-".to_string()
            }
            "c" => format!("d:{}", handler.consume_cpu_delta(&mut thread)),
            _ => panic!("bad event"),
        });
        match r {
            Some(s) => out.push(s),
            None => {
                out.push("P".into());
                return out.join(" ");
            }
        }
    }
    let dbg = format!("{:?}", thread);
    out.push(format!("| {} {}", field(&dbg, "on_cpu_duration_since_last_sample"), field(&dbg, "off_cpu_duration_since_last_off_cpu_sample")));
    out.join(" ")
}
