// C16 harness: one creator of <dir>/dest per thread, driven step by step over stdin/stdout.
//   h_fc child <dir> <id:nchunks:ok|err> [<id:nchunks:ok|err> ...]
// Every creator runs create_file_cleanly (the real wholesym/src/file_creation.rs, included by path) on its own thread.
// After each protocol step (the cfg(samply_verif) hook) and after each chunk written by the write function the creator
// prints "<id> at <step>" and blocks until the line "<id> go" arrives on stdin ("<id> cancel" while inside the write
// function makes the write function's future get dropped... not available: see below).  When create_file_cleanly returns
// it prints "<id> result written|existing|failed:<error variant>".
// A creator blocked in flock prints nothing until it has the lock.  The parent kills the process (SIGKILL) to model
// abrupt termination; all creators of that process die together.
#![allow(dead_code)]
#[path = "/repo/wholesym/src/file_creation.rs"]
mod file_creation;

use std::collections::HashMap;
use std::io::{BufRead, Write};
use std::path::PathBuf;
use std::sync::mpsc::{channel, Receiver, Sender};
use std::sync::{Arc, Mutex};

thread_local! {
    static ME: std::cell::RefCell<Option<(u32, Arc<Mutex<Receiver<String>>>)>> = const { std::cell::RefCell::new(None) };
}

fn say(line: &str) {
    let out = std::io::stdout();
    let mut l = out.lock();
    let _ = writeln!(l, "{}", line);
    let _ = l.flush();
}

fn pause(step: &str) {
    ME.with(|m| {
        if let Some((id, rx)) = &*m.borrow() {
            say(&format!("{} at {}", id, step));
            // block until the parent says go
            let _ = rx.lock().unwrap().recv();
        }
    });
}

#[derive(Debug)]
struct WErr;
impl std::fmt::Display for WErr {
    fn fmt(&self, f: &mut std::fmt::Formatter<'_>) -> std::fmt::Result {
        write!(f, "writer failed")
    }
}
impl std::error::Error for WErr {}

fn creator(dir: PathBuf, id: u32, nchunks: u32, ok: bool, rx: Receiver<String>) {
    let rx = Arc::new(Mutex::new(rx));
    ME.with(|m| *m.borrow_mut() = Some((id, rx.clone())));
    pause("start");
    let dest = dir.join("dest");
    let rt = tokio::runtime::Builder::new_current_thread().build().unwrap();
    let res = rt.block_on(file_creation::create_file_cleanly(
        &dest,
        |mut file: std::fs::File| async move {
            for j in 0..nchunks {
                let chunk = format!("w{:03}j{:04}\n", id, j);
                file.write_all(chunk.as_bytes()).map_err(|_| WErr)?;
                pause("chunk");
            }
            drop(file);
            if ok {
                Ok("written")
            } else {
                Err(WErr)
            }
        },
        || async { Ok::<_, WErr>("existing") },
    ));
    let r = match res {
        Ok(v) => v.to_string(),
        Err(e) => {
            use file_creation::CleanFileCreationError as E;
            format!(
                "failed:{}",
                match e {
                    E::InvalidPath => "InvalidPath",
                    E::LockFileCreation(_) => "LockFileCreation",
                    E::TempFileCreation(_) => "TempFileCreation",
                    E::LockFileLocking(_) => "LockFileLocking",
                    E::CallbackIndicatedError(_) => "Callback",
                    E::RenameError(_) => "Rename",
                }
            )
        }
    };
    say(&format!("{} result {}", id, r));
}

fn main() {
    let args: Vec<String> = std::env::args().collect();
    assert!(args.len() >= 4 && args[1] == "child");
    let dir = PathBuf::from(&args[2]);
    file_creation::VERIF_STEP_HOOK.set(Box::new(|name| pause(name))).ok().unwrap();
    let mut txs: HashMap<u32, Sender<String>> = HashMap::new();
    let mut handles = Vec::new();
    for spec in &args[3..] {
        let p: Vec<&str> = spec.split(':').collect();
        let id: u32 = p[0].parse().unwrap();
        let n: u32 = p[1].parse().unwrap();
        let ok = p[2] == "ok";
        let (tx, rx) = channel();
        txs.insert(id, tx);
        let d = dir.clone();
        handles.push(std::thread::spawn(move || creator(d, id, n, ok, rx)));
    }
    // dispatcher: "<id> go"
    let stdin = std::io::stdin();
    for line in stdin.lock().lines() {
        let line = match line {
            Ok(l) => l,
            Err(_) => break,
        };
        let mut it = line.split_whitespace();
        let id: u32 = match it.next().and_then(|x| x.parse().ok()) {
            Some(i) => i,
            None => continue,
        };
        let cmd = it.next().unwrap_or("go").to_string();
        if let Some(tx) = txs.get(&id) {
            let _ = tx.send(cmd);
        }
    }
    // stdin closed: let every creator run to completion
    drop(txs);
    for h in handles {
        let _ = h.join();
    }
}
