// C16 harness: one creator of <dir>/dest per thread, driven step by step over stdin/stdout.
//   h_fc child <dir> <id:nchunks:ok|err[:gate]> [<id:nchunks:ok|err[:gate]> ...]
// Every creator runs create_file_cleanly (the real wholesym/src/file_creation.rs, included by path) on its own thread, polled by hand inside
// its own tokio runtime (one blocking-pool thread).
// After each protocol step (the cfg(samply_verif) hook) and after each chunk written by the write function the creator
// prints "<id> at <step>" and blocks until the line "<id> go" or "<id> cancel" arrives on stdin.  "cancel" asks for the CANCELLATION of the
// creator's future: the future is dropped at the next point where it returns Pending (an .await that is not ready: waiting for the lock,
// inside the write function - which yields after a chunk once cancellation was asked for -, or any other await the routine performs);
// synchronous code up to that point still runs and reports its steps.  A creator waiting for the lock can be cancelled too.
// It then prints "<id> result cancelled"; its runtime stays alive (as the runtime of a long-lived process would).
// When create_file_cleanly returns it prints "<id> result written|existing|failed:<error variant>".
// ":gate" occupies the single blocking-pool thread of that creator's runtime until "<id> release" arrives: work the routine hands to the
// blocking pool is queued behind it (a busy pool).
// A creator blocked in flock prints nothing until it has the lock.  The parent kills the process (SIGKILL) to model
// abrupt termination; all creators of that process die together.
#![allow(dead_code)]
#[path = "/repo/wholesym/src/file_creation.rs"]
mod file_creation;

use std::collections::HashMap;
use std::future::Future;
use std::io::{BufRead, Write};
use std::path::PathBuf;
use std::sync::mpsc::{channel, Receiver, Sender};
use std::sync::{Arc, Mutex};

thread_local! {
    static ME: std::cell::RefCell<Option<(u32, Arc<Mutex<Receiver<String>>>)>> = const { std::cell::RefCell::new(None) };
    static CANCEL: std::cell::Cell<bool> = const { std::cell::Cell::new(false) };
}

static GATES: Mutex<Option<HashMap<u32, Sender<()>>>> = Mutex::new(None);

fn say(line: &str) {
    let out = std::io::stdout();
    let mut l = out.lock();
    let _ = writeln!(l, "{}", line);
    let _ = l.flush();
}

fn pause(step: &str) {
    ME.with(|m| {
        if let Some((id, rx)) = &*m.borrow() {
            say(&format!("{} at {}", id, step));
            // block until the parent says go (or asks for cancellation, which takes effect at the next await that is not ready)
            if let Ok(cmd) = rx.lock().unwrap().recv() {
                if cmd == "cancel" {
                    CANCEL.with(|c| c.set(true));
                }
            }
        }
    });
}

#[derive(Debug)]
struct WErr;
impl std::fmt::Display for WErr {
    fn fmt(&self, f: &mut std::fmt::Formatter<'_>) -> std::fmt::Result {
        write!(f, "writer failed")
    }
}
impl std::error::Error for WErr {}

fn creator(dir: PathBuf, id: u32, nchunks: u32, ok: bool, gate: bool, rx: Receiver<String>) {
    let rx = Arc::new(Mutex::new(rx));
    ME.with(|m| *m.borrow_mut() = Some((id, rx.clone())));
    pause("start");
    let dest = dir.join("dest");
    let rt = tokio::runtime::Builder::new_current_thread().max_blocking_threads(1).build().unwrap();
    if gate {
        let (gtx, grx) = channel::<()>();
        GATES.lock().unwrap().get_or_insert_with(HashMap::new).insert(id, gtx);
        rt.spawn_blocking(move || {
            let _ = grx.recv();
        });
    }
    let _guard = rt.enter();
    let mut fut = Box::pin(file_creation::create_file_cleanly(
        &dest,
        |mut file: std::fs::File| async move {
            for j in 0..nchunks {
                let chunk = format!("w{:03}j{:04}\n", id, j);
                file.write_all(chunk.as_bytes()).map_err(|_| WErr)?;
                pause("chunk");
                if CANCEL.with(|c| c.get()) {
                    // cancellation was asked for: yield for good (the file is still open, as in a write function waiting for more data)
                    std::future::pending::<()>().await;
                }
            }
            drop(file);
            if ok {
                Ok("written")
            } else {
                Err(WErr)
            }
        },
        || async { Ok::<_, WErr>("existing") },
    ));
    let waker = futures::task::noop_waker();
    let mut cx = std::task::Context::from_waker(&waker);
    let res = loop {
        match fut.as_mut().poll(&mut cx) {
            std::task::Poll::Ready(r) => break Some(r),
            std::task::Poll::Pending => {
                if CANCEL.with(|c| c.get()) {
                    break None;
                }
                // not paused in a hook (waiting for the lock, or for the blocking pool): the only command that makes sense is "cancel"
                if let Ok(cmd) = rx.lock().unwrap().recv_timeout(std::time::Duration::from_millis(2)) {
                    if cmd == "cancel" {
                        break None;
                    }
                }
            }
        }
    };
    drop(fut);
    let Some(res) = res else {
        say(&format!("{} result cancelled", id));
        // keep the runtime (and its blocking pool) alive until the parent closes stdin
        while rx.lock().unwrap().recv().is_ok() {}
        return;
    };
    let r = match res {
        Ok(v) => v.to_string(),
        Err(e) => {
            use file_creation::CleanFileCreationError as E;
            format!(
                "failed:{}",
                match e {
                    E::InvalidPath => "InvalidPath",
                    E::LockFileCreation(_) => "LockFileCreation",
                    E::TempFileCreation(_) => "TempFileCreation",
                    E::LockFileLocking(_) => "LockFileLocking",
                    E::CallbackIndicatedError(_) => "Callback",
                    E::RenameError(_) => "Rename",
                }
            )
        }
    };
    say(&format!("{} result {}", id, r));
}

fn main() {
    let args: Vec<String> = std::env::args().collect();
    assert!(args.len() >= 4 && args[1] == "child");
    let dir = PathBuf::from(&args[2]);
    file_creation::VERIF_STEP_HOOK.set(Box::new(|name| pause(name))).ok().unwrap();
    let mut txs: HashMap<u32, Sender<String>> = HashMap::new();
    let mut handles = Vec::new();
    for spec in &args[3..] {
        let p: Vec<&str> = spec.split(':').collect();
        let id: u32 = p[0].parse().unwrap();
        let n: u32 = p[1].parse().unwrap();
        let ok = p[2] == "ok";
        let gate = p.get(3) == Some(&"gate");
        let (tx, rx) = channel();
        txs.insert(id, tx);
        let d = dir.clone();
        handles.push(std::thread::spawn(move || creator(d, id, n, ok, gate, rx)));
    }
    // dispatcher: "<id> go"
    let stdin = std::io::stdin();
    for line in stdin.lock().lines() {
        let line = match line {
            Ok(l) => l,
            Err(_) => break,
        };
        let mut it = line.split_whitespace();
        let id: u32 = match it.next().and_then(|x| x.parse().ok()) {
            Some(i) => i,
            None => continue,
        };
        let cmd = it.next().unwrap_or("go").to_string();
        if cmd == "release" {
            if let Some(g) = GATES.lock().unwrap().as_mut().and_then(|m| m.remove(&id)) {
                let _ = g.send(());
            }
            continue;
        }
        if let Some(tx) = txs.get(&id) {
            let _ = tx.send(cmd);
        }
    }
    // stdin closed: let every creator run to completion
    *GATES.lock().unwrap() = None;
    drop(txs);
    for h in handles {
        let _ = h.join();
    }
}
