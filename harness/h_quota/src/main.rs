// C15: the real QuotaManager on a scratch directory.  One case per line:
//   <scratch dir> then ops:  c <k> <size> <age_h> | C <k> <size> <age_h> (outside the root) | a <k> <age_h> [D] | A <k> <age_h> (outside)
//                           d <k> | x <k> | s <max|-> | g <half hours|-> | e | r
//   keys: file k lives at root/d<k%3>/n<k%2>/f<k> (nested dirs), outside files at <scratch>/{outside,root-old,root2,roo}[k%4]/f<k> (an unrelated directory and siblings whose names extend / shorten the root's name).
//   "a k h D" notifies with a '..'-decorated spelling of the path.
//   A first op "U<secs>" makes the time unit <secs> seconds instead of an hour (ages are whole units ago, the age limit is in half units); "w" then waits until
//   one more whole unit of REAL time has passed since the case began (nothing else happens meanwhile), and ages are counted from that moment on.
// After every e / r a snapshot is printed:  rows k:size:age_h,... ; in k,k,... ; out k,k,...   (joined by " | "); "P" if the op panicked.
use samply_quota_manager::QuotaManager;
use std::io::{BufRead, Write};
use std::path::{Path, PathBuf};
use std::time::{Duration, SystemTime, UNIX_EPOCH};

fn in_path(root: &Path, k: u64) -> PathBuf {
    // keys 6..11 are the upper-case spellings of keys 0..5: different files (the file system is case-sensitive) whose paths are equal
    // under ASCII case folding
    if (6..12).contains(&k) {
        let j = k - 6;
        return root.join(format!("D{}", j % 3)).join(format!("N{}", j % 2)).join(format!("F{}", j));
    }
    root.join(format!("d{}", k % 3)).join(format!("n{}", k % 2)).join(format!("f{}", k))
}

fn list(dir: &Path, out: &mut Vec<u64>) {
    if let Ok(rd) = std::fs::read_dir(dir) {
        for e in rd.flatten() {
            let p = e.path();
            if p.is_dir() {
                list(&p, out);
            } else if let Some(n) = p.file_name().and_then(|n| n.to_str()) {
                if let Some(k) = n.strip_prefix('f').and_then(|s| s.parse().ok()) {
                    out.push(k);
                } else if let Some(j) = n.strip_prefix('F').and_then(|s| s.parse::<u64>().ok()) {
                    out.push(j + 6);          // the upper-case spelling of key j is key j + 6 (in_path)
                }
            }
        }
    }
}

// outside the managed root: an unrelated directory, and siblings whose names extend or shorten the root's name
const OUT_DIRS: [&str; 4] = ["outside", "root-old", "root2", "roo"];
fn out_path(scratch: &Path, k: u64) -> PathBuf {
    scratch.join(OUT_DIRS[(k % 4) as usize]).join(format!("f{k}"))
}

fn snapshot(qm: &QuotaManager, root: &Path, outside: &Path, base: u64, unit: u64) -> String {
    let rows: Vec<String> = qm
        .verif_rows()
        .iter()
        .map(|(p, size, _c, a)| {
            let name = Path::new(p).file_name().unwrap().to_str().unwrap();
            let k: u64 = name[1..].parse::<u64>().unwrap() + if name.starts_with('F') { 6 } else { 0 };
            let age = base as i64 - *a;
            format!("{}:{}:{}", k, size, if age % unit as i64 == 0 { (age / unit as i64).to_string() } else { format!("?{}", age) })
        })
        .collect();
    let mut i = Vec::new();
    list(root, &mut i);
    i.sort();
    let mut o = Vec::new();
    for d in OUT_DIRS {
        list(&outside.join(d), &mut o);
    }
    o.sort();
    let f = |v: &Vec<u64>| v.iter().map(|x| x.to_string()).collect::<Vec<_>>().join(",");
    format!("rows {} ; in {} ; out {}", rows.join(","), f(&i), f(&o))
}

async fn run_case(toks: Vec<String>) -> String {
    let scratch = PathBuf::from(&toks[0]);
    let _ = std::fs::remove_dir_all(&scratch);
    let root = scratch.join("root");
    let outside = scratch.clone();
    std::fs::create_dir_all(&root).unwrap();
    for d in OUT_DIRS {
        std::fs::create_dir_all(outside.join(d)).unwrap();
    }
    let db = scratch.join("inventory.db");
    let mut base = SystemTime::now().duration_since(UNIX_EPOCH).unwrap().as_secs();
    let mut unit: u64 = 3600;
    let mut qm = QuotaManager::new(&root, &db).unwrap();
    let mut out: Vec<String> = Vec::new();
    let mut i = 1;
    if let Some(u) = toks.get(1).and_then(|s| s.strip_prefix('U')).and_then(|s| s.parse::<u64>().ok()) {
        unit = u;
        i = 2;
    }
    while i < toks.len() {
        let n = |j: usize| toks[i + j].parse::<u64>().unwrap();
        let t = |age_h: u64| UNIX_EPOCH + Duration::from_secs(base - age_h * unit);
        match toks[i].as_str() {
            "w" => {
                assert!(unit <= 60, "waiting is for the fast clock only");
                base += unit;
                loop {
                    let now = SystemTime::now().duration_since(UNIX_EPOCH).unwrap();
                    if now.as_secs() >= base {
                        break;
                    }
                    tokio::time::sleep(Duration::from_millis(50)).await;
                }
                i += 1;
            }
            "c" | "C" => {
                let p = if toks[i] == "c" { in_path(&root, n(1)) } else { out_path(&outside, n(1)) };
                std::fs::create_dir_all(p.parent().unwrap()).unwrap();
                std::fs::write(&p, vec![7u8; n(2) as usize]).unwrap();
                qm.notifier().on_file_created(&p, n(2), t(n(3)));
                i += 4;
            }
            "a" | "A" => {
                let mut p = if toks[i] == "a" { in_path(&root, n(1)) } else { out_path(&outside, n(1)) };
                let mut used = 3;
                if toks.get(i + 3).map(|s| s.as_str()) == Some("D") {
                    let name = p.file_name().unwrap().to_owned();
                    p = p.parent().unwrap().join("..").join(p.parent().unwrap().file_name().unwrap()).join(name);
                    used = 4;
                }
                qm.notifier().on_file_accessed(&p, t(n(2)));
                i += used;
            }
            "d" => {
                let p = in_path(&root, n(1));
                let _ = std::fs::remove_file(&p);
                qm.notifier().on_file_deleted(&p);
                i += 2;
            }
            "x" => {
                let _ = std::fs::remove_file(in_path(&root, n(1)));
                i += 2;
            }
            "s" => {
                qm.set_max_total_size(toks[i + 1].parse().ok());
                i += 2;
            }
            "g" => {
                // half hours -> seconds
                qm.set_max_age(toks[i + 1].parse::<u64>().ok().map(|h2| h2 * unit / 2));
                i += 2;
            }
            "e" => {
                let r = tokio::spawn({
                    let root = root.clone();
                    let outside = outside.clone();
                    async move {
                        qm.verif_perform_eviction().await;
                        let mut s = snapshot(&qm, &root, &outside, base, unit);
                        // on the fast clock a pass belongs to the instant `base`; if it ended more than a quarter unit later (a stalled machine) the history
                        // is not the one the case describes (rows may have crossed the age limit meanwhile): say so
                        let now = SystemTime::now().duration_since(UNIX_EPOCH).unwrap();
                        if unit <= 60 && now.as_millis() as u64 > base * 1000 + unit * 1000 / 4 + 1000 {
                            s.push_str(" LATE");
                        }
                        (qm, s)
                    }
                })
                .await;
                match r {
                    Ok((q, s)) => {
                        qm = q;
                        out.push(s);
                    }
                    Err(_) => {
                        out.push("P".into());
                        return out.join(" | ");
                    }
                }
                i += 1;
            }
            "r" => {
                let (max_size, max_age) = (None::<u64>, None::<u64>);
                let _ = (max_size, max_age);
                qm.finish().await;
                qm = QuotaManager::new(&root, &db).unwrap();
                out.push(snapshot(&qm, &root, &outside, base, unit));
                i += 1;
            }
            t => panic!("bad token {t}"),
        }
    }
    qm.finish().await;
    let _ = std::fs::remove_dir_all(&scratch);
    out.join(" | ")
}

fn main() {
    std::panic::set_hook(Box::new(|_| {}));
    let rt = tokio::runtime::Builder::new_multi_thread().worker_threads(2).enable_all().build().unwrap();
    let stdin = std::io::stdin();
    let stdout = std::io::stdout();
    let mut out = std::io::BufWriter::new(stdout.lock());
    for line in stdin.lock().lines() {
        let line = line.unwrap();
        let toks: Vec<String> = line.split_whitespace().map(|s| s.to_string()).collect();
        let res = rt.block_on(async move { tokio::spawn(run_case(toks)).await.unwrap_or_else(|_| "P".to_string()) });
        writeln!(out, "{}", res).unwrap();
    }
}
