// "info": <fixtures subdir> <file name>  ->  name debugName debugId arch | function starts (relative, up to 400) | sizes
use crate::helper::{FileLocationType, Helper};
use samply_api::samply_symbols::SymbolManager;
use std::path::PathBuf;
use std::sync::{Arc, Mutex};

pub fn run(toks: &[&str]) -> String {
    let dir = PathBuf::from("/repo/fixtures").join(toks[0]);
    let log = Arc::new(Mutex::new(Vec::new()));
    let sm = SymbolManager::with_helper(Helper { symbol_directory: dir.clone(), log });
    let loc = FileLocationType(dir.join(toks[1]));
    let bin = match futures::executor::block_on(sm.load_binary_at_location(loc.clone(), Some(toks[1].to_string()), None, None)) {
        Ok(b) => b,
        Err(e) => return format!("ERR {}", e.to_string().replace(' ', "_")),
    };
    let li = bin.library_info();
    let mut syms: Vec<String> = Vec::new();
    if let Ok(map) = futures::executor::block_on(sm.load_symbol_map_from_location(loc, None)) {
        for (addr, _name) in map.iter_symbols().take(20000) {
            syms.push(addr.to_string());
        }
    }
    let step = (syms.len() / 300).max(1);
    let picked: Vec<String> = syms.iter().step_by(step).cloned().collect();
    format!("{} {} {} {} | {}", li.name.unwrap_or_default(), li.debug_name.unwrap_or_default(),
            li.debug_id.map(|d| d.breakpad().to_string()).unwrap_or_default(), li.arch.unwrap_or_default(), picked.join(" "))
}
