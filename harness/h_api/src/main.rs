// Correspondence harness for the samply-api crate (C20, later C07 C08 C09).
use std::io::{BufRead, Write};

mod asm;
mod fuzz;
mod info;
mod sym;
mod helper;

fn main() {
    std::panic::set_hook(Box::new(|_| {}));
    let mode = std::env::args().nth(1).expect("mode");
    let stdin = std::io::stdin();
    let stdout = std::io::stdout();
    let mut out = std::io::BufWriter::new(stdout.lock());
    for line in stdin.lock().lines() {
        let line = line.unwrap();
        let toks: Vec<&str> = line.split_whitespace().collect();
        let res = match mode.as_str() {
            "asm" => asm::run(&toks),
            "info" => info::run(&toks),
            "fuzz" => fuzz::run(&toks),
            "sym" => sym::run_sym(&toks),
            "src" => sym::run_src(&toks),
            _ => panic!("unknown mode"),
        };
        writeln!(out, "{}", res).unwrap();
    }
}
