// FileAndPathHelper over a fixtures directory (after /repo/tools/query_api), logging every file it is asked to load.
use samply_api::samply_symbols::{
    CandidatePathInfo, FileAndPathHelper, FileAndPathHelperResult, FileLocation, LibraryInfo, OptionallySendFuture,
};
use std::fs::File;
use std::path::PathBuf;
use std::sync::{Arc, Mutex};

pub struct Helper {
    pub symbol_directory: PathBuf,
    pub log: Arc<Mutex<Vec<String>>>,
}

impl FileAndPathHelper for Helper {
    type F = memmap2::Mmap;
    type FL = FileLocationType;

    fn get_candidate_paths_for_debug_file(&self, library_info: &LibraryInfo) -> FileAndPathHelperResult<Vec<CandidatePathInfo<FileLocationType>>> {
        let debug_name = match library_info.debug_name.as_deref() {
            Some(debug_name) => debug_name,
            None => return Ok(Vec::new()),
        };
        let mut paths = vec![];
        if debug_name.ends_with(".so") {
            paths.push(CandidatePathInfo::SingleFile(FileLocationType(self.symbol_directory.join(format!("{debug_name}.dbg")))));
        }
        if !debug_name.ends_with(".pdb") {
            paths.push(CandidatePathInfo::SingleFile(FileLocationType(
                self.symbol_directory.join(format!("{debug_name}.dSYM")).join("Contents").join("Resources").join("DWARF").join(debug_name),
            )));
        }
        if let Some(debug_id) = library_info.debug_id {
            paths.push(CandidatePathInfo::SingleFile(FileLocationType(
                self.symbol_directory.join(debug_name).join(debug_id.breakpad().to_string()).join(format!("{}.sym", debug_name.trim_end_matches(".pdb"))),
            )));
        }
        if let Some(debug_id) = library_info.debug_id {
            // several fixtures share a file name ("main"): <name>-<breakpad id> comes before the plain name
            paths.push(CandidatePathInfo::SingleFile(FileLocationType(self.symbol_directory.join(format!("{debug_name}-{}", debug_id.breakpad())))));
        }
        paths.push(CandidatePathInfo::SingleFile(FileLocationType(self.symbol_directory.join(debug_name))));
        Ok(paths)
    }

    fn get_dyld_shared_cache_paths(&self, _arch: Option<&str>) -> FileAndPathHelperResult<Vec<FileLocationType>> {
        Ok(vec![])
    }

    fn load_file(&self, location: FileLocationType) -> std::pin::Pin<Box<dyn OptionallySendFuture<Output = FileAndPathHelperResult<Self::F>> + '_>> {
        Box::pin(async {
            let mut path = location.0;
            if !path.starts_with(&self.symbol_directory) {
                if let Some(filename) = path.file_name() {
                    let redirected_path = self.symbol_directory.join(filename);
                    if std::fs::metadata(&redirected_path).is_ok() {
                        path = redirected_path;
                    }
                }
            }
            self.log.lock().unwrap().push(path.to_string_lossy().to_string());
            let file = File::open(&path)?;
            Ok(unsafe { memmap2::MmapOptions::new().map(&file)? })
        })
    }

    fn get_candidate_paths_for_binary(&self, library_info: &LibraryInfo) -> FileAndPathHelperResult<Vec<CandidatePathInfo<FileLocationType>>> {
        let name = match library_info.name.as_deref() {
            Some(name) => name,
            None => return Ok(Vec::new()),
        };
        Ok(vec![CandidatePathInfo::SingleFile(FileLocationType(self.symbol_directory.join(name)))])
    }
}

#[derive(Clone)]
pub struct FileLocationType(pub PathBuf);

impl std::fmt::Display for FileLocationType {
    fn fmt(&self, f: &mut std::fmt::Formatter<'_>) -> std::fmt::Result {
        self.0.to_string_lossy().fmt(f)
    }
}

impl FileLocation for FileLocationType {
    fn location_for_dyld_subcache(&self, suffix: &str) -> Option<Self> {
        let mut filename = self.0.file_name().unwrap().to_owned();
        filename.push(suffix);
        Some(Self(self.0.with_file_name(filename)))
    }
    fn location_for_external_object_file(&self, object_file: &str) -> Option<Self> {
        Some(Self(object_file.into()))
    }
    fn location_for_pdb_from_binary(&self, pdb_path_in_binary: &str) -> Option<Self> {
        Some(Self(pdb_path_in_binary.into()))
    }
    fn location_for_source_file(&self, source_file_path: &str) -> Option<Self> {
        Some(Self(source_file_path.into()))
    }
    fn location_for_breakpad_symindex(&self) -> Option<Self> {
        Some(Self(self.0.with_extension("symindex")))
    }
    fn location_for_dwo(&self, _comp_dir: &str, _path: &str) -> Option<Self> {
        None
    }
    fn location_for_dwp(&self) -> Option<Self> {
        let mut s = self.0.as_os_str().to_os_string();
        s.push(".dwp");
        Some(Self(s.into()))
    }
}
