// C07 / C09: /symbolicate/v5 and /source/v1 against a symbol directory, with the direct lookups as oracle.
//   sym: <dir> <file containing the request JSON>
//        -> {"resp": <API response>, "oracle": [{"debugName","breakpadId","load":bool,"addrs":[[addr, null|{sym_addr,name,size,frames}]]}]}
//   src: <dir> <debugName> <breakpadId> <offset> <file containing the requested path>
//        -> {"resp": <API response>, "reads": [locations loaded because of the request], "load": bool, "frames": null|[{file,raw}|null]}
use crate::helper::Helper;
use samply_api::samply_symbols::{LibraryInfo, LookupAddress, SourceFilePath, SymbolManager};
use samply_api::Api;
use serde_json::{json, Value};
use std::path::PathBuf;
use std::sync::{Arc, Mutex};

fn dir_of(tok: &str) -> PathBuf {
    if tok.starts_with('/') { PathBuf::from(tok) } else { PathBuf::from("/repo/fixtures").join(tok) }
}

pub fn api_path(p: &SourceFilePath) -> String {
    match p.mapped_path() {
        Some(m) => m.to_special_path_str(),
        None => p.raw_path().to_owned(),
    }
}

fn lib_info(debug_name: &str, breakpad_id: &str) -> Option<LibraryInfo> {
    let debug_id = samply_api::debugid::DebugId::from_breakpad(breakpad_id).ok()?;
    Some(LibraryInfo { debug_name: Some(debug_name.to_string()), debug_id: Some(debug_id), ..Default::default() })
}

fn block<F: std::future::Future>(f: F) -> F::Output {
    futures::executor::block_on(f)
}

pub fn run_sym(toks: &[&str]) -> String {
    let dir = dir_of(toks[0]);
    let request = std::fs::read_to_string(toks[1]).expect("request file");
    let log = Arc::new(Mutex::new(Vec::new()));
    let sm = SymbolManager::with_helper(Helper { symbol_directory: dir, log });
    let api = Api::new(&sm);
    let resp_s = block(api.query_api("/symbolicate/v5", &request));
    let resp: Value = serde_json::from_str(&resp_s).unwrap_or(json!({"_invalid_json": resp_s}));
    // oracle
    let req: Value = serde_json::from_str(&request).unwrap_or(Value::Null);
    let jobs: Vec<Value> = match req.get("jobs").and_then(|j| j.as_array()) {
        Some(j) => j.clone(),
        None => vec![req.clone()],
    };
    let mut libs: Vec<(String, String, Vec<u64>)> = Vec::new();
    for job in &jobs {
        let mm = job.get("memoryMap").and_then(|m| m.as_array()).cloned().unwrap_or_default();
        for stack in job.get("stacks").and_then(|s| s.as_array()).cloned().unwrap_or_default() {
            for frame in stack.as_array().cloned().unwrap_or_default() {
                let (Some(idx), Some(addr)) = (frame.get(0).and_then(|v| v.as_u64()), frame.get(1).and_then(|v| v.as_u64())) else { continue };
                let Some(m) = mm.get(idx as usize) else { continue };
                let (Some(dn), Some(id)) = (m.get(0).and_then(|v| v.as_str()), m.get(1).and_then(|v| v.as_str())) else { continue };
                match libs.iter_mut().find(|(a, b, _)| a == dn && b == id) {
                    Some(e) => e.2.push(addr),
                    None => libs.push((dn.to_string(), id.to_string(), vec![addr])),
                }
            }
        }
    }
    let mut oracle = Vec::new();
    for (dn, id, addrs) in libs {
        let map = lib_info(&dn, &id).and_then(|li| block(sm.load_symbol_map(&li)).ok());
        let mut entries = Vec::new();
        if let Some(map) = &map {
            let mut addrs = addrs.clone();
            addrs.sort();
            addrs.dedup();
            for a in addrs {
                let info = block(map.lookup(LookupAddress::Relative(a as u32)));
                let v = match info {
                    None => Value::Null,
                    Some(ai) => json!({
                        "sym_addr": ai.symbol.address, "name": ai.symbol.name, "size": ai.symbol.size,
                        "frames": ai.frames.map(|fs| fs.iter().map(|f| json!({
                            "function": f.function, "file": f.file_path.as_ref().map(api_path),
                            "raw": f.file_path.as_ref().map(|p| p.raw_path().to_string()), "line": f.line_number})).collect::<Vec<_>>()),
                    }),
                };
                entries.push(json!([a, v]));
            }
        }
        oracle.push(json!({"debugName": dn, "breakpadId": id, "load": map.is_some(), "addrs": entries}));
    }
    json!({"resp": resp, "oracle": oracle}).to_string()
}

pub fn run_src(toks: &[&str]) -> String {
    let dir = dir_of(toks[0]);
    let (dn, id) = (toks[1], toks[2]);
    let offset: u32 = toks[3].parse().unwrap();
    let requested = std::fs::read_to_string(toks[4]).expect("path file");
    // oracle first, on its own symbol manager: which files does loading + looking up touch?
    let log0 = Arc::new(Mutex::new(Vec::new()));
    let sm0 = SymbolManager::with_helper(Helper { symbol_directory: dir.clone(), log: log0.clone() });
    let map = lib_info(dn, id).and_then(|li| block(sm0.load_symbol_map(&li)).ok());
    let frames = map.as_ref().and_then(|m| block(m.lookup(LookupAddress::Relative(offset)))).and_then(|ai| ai.frames);
    let frames_v = frames.map(|fs| fs.iter().map(|f| match &f.file_path {
        Some(p) => json!({"file": api_path(p), "raw": p.raw_path()}),
        None => Value::Null,
    }).collect::<Vec<_>>());
    // what /symbolicate/v5 itself reports for the offset (the property's last sentence is about exactly these paths)
    let symfiles: Vec<String> = {
        let sm1 = SymbolManager::with_helper(Helper { symbol_directory: dir.clone(), log: Arc::new(Mutex::new(Vec::new())) });
        let api1 = Api::new(&sm1);
        let req = json!({"memoryMap": [[dn, id]], "stacks": [[[0, offset]]]});
        let resp: Value = serde_json::from_str(&block(api1.query_api("/symbolicate/v5", &req.to_string()))).unwrap_or(Value::Null);
        let mut v = Vec::new();
        if let Some(fr) = resp.pointer("/results/0/stacks/0/0") {
            if let Some(f) = fr.get("file").and_then(|x| x.as_str()) {
                v.push(f.to_string());
            }
            for inl in fr.get("inlines").and_then(|x| x.as_array()).cloned().unwrap_or_default() {
                if let Some(f) = inl.get("file").and_then(|x| x.as_str()) {
                    v.push(f.to_string());
                }
            }
        }
        v
    };
    let baseline: Vec<String> = log0.lock().unwrap().clone();
    // the request
    let log = Arc::new(Mutex::new(Vec::new()));
    let sm = SymbolManager::with_helper(Helper { symbol_directory: dir, log: log.clone() });
    let api = Api::new(&sm);
    let req = json!({"debugName": dn, "debugId": id, "moduleOffset": format!("0x{:x}", offset), "file": requested});
    let resp_s = block(api.query_api("/source/v1", &req.to_string()));
    let resp: Value = serde_json::from_str(&resp_s).unwrap_or(json!({"_invalid_json": resp_s}));
    let reads: Vec<String> = log.lock().unwrap().iter().filter(|l| !baseline.contains(l)).cloned().collect();
    let resp_small = match resp.get("error") {
        Some(e) => json!({"error": e}),
        None => json!({"file": resp.get("file"), "has_source": resp.get("source").is_some()}),
    };
    json!({"resp": resp_small, "reads": reads, "load": map.is_some(), "frames": frames_v, "symfiles": symfiles}).to_string()
}
