// C20: /asm/v1.  Case: <fixtures subdir> <name> <debugName> <debugId> <start> <size> <continue 0|1>
// Outcome:  "ERR <message>"  |  "PANIC"  |
//   "OK arch=<a> start=<n> size=<n> nbytes=<n> fend=<n|-> ind=<ok|bad:..|none> | <off>:<v|i> ... | <off>:<o|x|i>:<len or consumed> ..."
//   second group = listed instructions (v = decoded, i = '.byte' invalid); third group = decoder oracle at every offset
//   0..min(nbytes, 700): o = Ok(len), x = data exhausted(consumed), i = invalid(consumed).
use crate::helper::Helper;
use samply_api::samply_symbols::{LibraryInfo, LookupAddress, SymbolManager};
use samply_api::Api;
use serde_json::{json, Value};
use std::panic::{catch_unwind, AssertUnwindSafe};
use std::path::PathBuf;
use std::str::FromStr;
use std::sync::{Arc, Mutex};

fn hex(v: &Value) -> Option<u64> {
    u64::from_str_radix(v.as_str()?.trim_start_matches("0x"), 16).ok()
}

macro_rules! oracle {
    ($arch:ty, $decoder:expr, $bytes:expr, $max:expr) => {{
        use yaxpeax_arch::{Decoder, Reader, U8Reader};
        let decoder = $decoder;
        let mut out: Vec<String> = Vec::new();
        let bytes: &[u8] = $bytes;
        for off in 0..=bytes.len().min($max) {
            let mut reader = U8Reader::new(&bytes[off..]);
            let r = decoder.decode(&mut reader);
            let consumed = u64::from(Reader::<<$arch as yaxpeax_arch::Arch>::Address, <$arch as yaxpeax_arch::Arch>::Word>::total_offset(&mut reader));
            match r {
                Ok(_) => out.push(format!("{}:o:{}", off, consumed)),
                Err(e) => {
                    use yaxpeax_arch::DecodeError;
                    if e.data_exhausted() {
                        out.push(format!("{}:x:{}", off, consumed));
                    } else {
                        out.push(format!("{}:i:{}", off, consumed));
                    }
                }
            }
        }
        out
    }};
}

/// An independent reading of the file (object crate, not samply-symbols) for the bytes at a relative address:
///  - the admissible lengths of a read of `want` bytes: for every *allocated* section that contains the address (start <= address < end),
///    min(want, end - address) - a read stops at the end of the section that holds the address;
///  - the contents: the bytes the file maps at that address (through the segment / LOAD command that contains it, else through the section).
/// None when the file is not a single object file the crate reads (e.g. a fat archive) or no allocated section contains the address.
fn independent_bytes(path: &std::path::Path, rel: u64, want: u64) -> Option<(Vec<u64>, Vec<u8>)> {
    use object::{Object, ObjectSection, ObjectSegment, SectionFlags};
    let data = std::fs::read(path).ok()?;
    let file = object::File::parse(&data[..]).ok()?;
    let svma = file.relative_address_base().checked_add(rel)?;
    let mut lens: Vec<u64> = Vec::new();
    let mut longest = 0u64;
    let mut via_section: Option<Vec<u8>> = None;
    for section in file.sections() {
        let allocated = match section.flags() {
            SectionFlags::Elf { sh_flags } => sh_flags & 2 != 0,
            _ => true,
        };
        let (a, n) = (section.address(), section.size());
        if allocated && a <= svma && svma - a < n {
            let l = want.min(n - (svma - a));
            lens.push(l);
            if l > longest {
                longest = l;
                via_section = section.data_range(svma, l).ok().flatten().map(|d| d.to_vec());
            }
        }
    }
    if lens.is_empty() {
        return None;
    }
    for segment in file.segments() {
        let (a, n) = (segment.address(), segment.size());
        if a <= svma && svma - a < n {
            if let Ok(Some(d)) = segment.data_range(svma, longest) {
                return Some((lens, d.to_vec()));
            }
        }
    }
    via_section.map(|d| (lens, d))
}

pub fn run(toks: &[&str]) -> String {
    catch_unwind(AssertUnwindSafe(|| run_inner(toks))).unwrap_or_else(|_| "PANIC".to_string())
}

fn run_inner(toks: &[&str]) -> String {
    let dir = PathBuf::from("/repo/fixtures").join(toks[0]);
    let (name, debug_name, debug_id) = (toks[1], toks[2], toks[3]);
    let start: u32 = toks[4].parse().unwrap();
    let size: u32 = toks[5].parse().unwrap();
    let cont = toks[6] == "1";
    let log = Arc::new(Mutex::new(Vec::new()));
    let symbol_manager = SymbolManager::with_helper(Helper { symbol_directory: dir, log });
    let api = Api::new(&symbol_manager);
    let req = json!({"name": name, "debugName": debug_name, "debugId": debug_id,
                     "startAddress": format!("0x{:x}", start), "size": format!("0x{:x}", size), "continueUntilFunctionEnd": cont});
    let resp = futures::executor::block_on(api.query_api("/asm/v1", &req.to_string()));
    let v: Value = match serde_json::from_str(&resp) {
        Ok(v) => v,
        Err(_) => return "BADJSON".to_string(),
    };
    if let Some(e) = v.get("error") {
        return format!("ERR {}", e.as_str().unwrap_or("?").replace(' ', "_"));
    }
    let arch = v["arch"].as_str().unwrap().to_string();
    let r_start = hex(&v["startAddress"]).unwrap();
    let r_size = hex(&v["size"]).unwrap();
    let mut listed: Vec<String> = Vec::new();
    for inst in v["instructions"].as_array().unwrap() {
        let off = inst[0].as_u64().unwrap();
        let text = inst[1].as_str().unwrap();
        listed.push(format!("{}:{}", off, if text.starts_with(".byte") { "i" } else { "v" }));
    }
    // the inputs of the decode loop, obtained directly
    let lib = LibraryInfo {
        name: Some(name.to_string()),
        debug_name: Some(debug_name.to_string()),
        debug_id: samply_api::debugid::DebugId::from_breakpad(debug_id).ok(),
        ..Default::default()
    };
    let fend: Option<u64> = futures::executor::block_on(symbol_manager.load_symbol_map(&lib)).ok().and_then(|m| {
        let info = m.lookup_sync(LookupAddress::Relative(start))?;
        Some(info.symbol.address as u64 + info.symbol.size? as u64)
    });
    let binary = futures::executor::block_on(symbol_manager.load_binary(&lib)).expect("binary");
    let mut decode_len = size as u64;
    if cont {
        if let Some(fe) = fend {
            if fe <= u32::MAX as u64 && fe >= start as u64 && fe - start as u64 > size as u64 {
                decode_len = fe - start as u64;
            }
        }
    }
    let bytes = binary.read_bytes_at_relative_address(r_start as u32, (decode_len as u32).saturating_add(15)).expect("bytes");
    let max = 700usize;
    let oracle: Vec<String> = match arch.as_str() {
        "x86_64" => oracle!(yaxpeax_x86::amd64::Arch, yaxpeax_x86::amd64::InstDecoder::default(), bytes, max),
        "i686" => oracle!(yaxpeax_x86::protected_mode::Arch, yaxpeax_x86::protected_mode::InstDecoder::default(), bytes, max),
        "aarch64" => oracle!(yaxpeax_arm::armv8::a64::ARMv8, yaxpeax_arm::armv8::a64::InstDecoder::default(), bytes, max),
        "arm" => oracle!(yaxpeax_arm::armv7::ARMv7, yaxpeax_arm::armv7::InstDecoder::default_thumb(), bytes, max),
        _ => vec![],
    };
    let _ = u64::from_str("0");
    // ind: the independent reading of the file agrees (ok), differs (bad:<bytes read>:<bytes there>), or is not available (none)
    let want = (decode_len as u32).saturating_add(15) as u64;
    let ind = match independent_bytes(&PathBuf::from("/repo/fixtures").join(toks[0]).join(name), r_start, want) {
        None => "none".to_string(),
        Some((lens, b)) if lens.contains(&(bytes.len() as u64)) && b.len() >= bytes.len() && b[..bytes.len()] == bytes[..] => "ok".to_string(),
        Some((lens, b)) => format!("bad:{}:{}", bytes.len(), if lens.contains(&(bytes.len() as u64)) { "other-bytes".to_string() } else { format!("{:?}", lens).replace(' ', "") }),
    };
    let _ = b"";
    format!("OK arch={} start={} size={} nbytes={} fend={} ind={} | {} | {}", arch, r_start, r_size, bytes.len(),
            fend.map_or("-".to_string(), |f| f.to_string()), ind, listed.join(" "), oracle.join(" "))
}
