// C08 (API side): <dir> <file with the request path> <file with the request body>
//   -> "RESULT" (valid JSON object without error) | "ERROR" (valid JSON object with an error string) | "BADJSON" | "PANIC" | "HANG"
use crate::helper::Helper;
use samply_api::samply_symbols::SymbolManager;
use samply_api::Api;
use serde_json::Value;
use std::path::PathBuf;
use std::sync::mpsc;
use std::sync::{Arc, Mutex};
use std::time::Duration;

pub fn run(toks: &[&str]) -> String {
    let dir = if toks[0].starts_with('/') { PathBuf::from(toks[0]) } else { PathBuf::from("/repo/fixtures").join(toks[0]) };
    let url = std::fs::read_to_string(toks[1]).unwrap_or_default();
    let body = String::from_utf8_lossy(&std::fs::read(toks[2]).unwrap_or_default()).to_string();
    let (tx, rx) = mpsc::channel();
    std::thread::spawn(move || {
        let r = std::panic::catch_unwind(std::panic::AssertUnwindSafe(|| {
            let log = Arc::new(Mutex::new(Vec::new()));
            let sm = SymbolManager::with_helper(Helper { symbol_directory: dir, log });
            let api = Api::new(&sm);
            futures::executor::block_on(api.query_api(&url, &body))
        }));
        let _ = tx.send(r);
    });
    match rx.recv_timeout(Duration::from_secs(20)) {
        Err(_) => "HANG".to_string(),
        Ok(Err(_)) => "PANIC".to_string(),
        Ok(Ok(resp)) => match serde_json::from_str::<Value>(&resp) {
            Ok(Value::Object(o)) => {
                if let Some(e) = o.get("error") {
                    if e.is_string() { "ERROR".to_string() } else { "BADJSON".to_string() }
                } else {
                    "RESULT".to_string()
                }
            }
            _ => "BADJSON".to_string(),
        },
    }
}
