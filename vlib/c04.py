# C04 — serialized sample / counter tables.  Model: coq/Model/SampleTable.v; spec: coq/Spec/SampleTableSpec.v;
# tie: harness/h_fxprof st-samples / st-counter (Profile API -> serde_json -> columns).
import os, sys
from . import common as K

PROP = "C04"
RULE = ("cases = histories of add_sample(t, stack, cpu, w) / add_sample_same_stack_zero_cpu(t, w) on one thread, and of add_counter_sample(t, value, n) on one counter; "
        "streams: sampled exhaustive histories of length <= 5 over 4 timestamps, random histories up to 300 calls with ~30% out-of-order and ~20% equal timestamps, "
        "negative weights, zero and non-zero CPU deltas up to 2^52 us (values around 2^32 included), None stacks; the two F-C04 witnesses run first (corpus). "
        "Observed: the serialized columns read back from serde_json (time deltas as exact ns; a negative / non-finite delta, unequal column lengths or a panic is 'bad'). "
        "non-trivial = the in-memory table was out of order at serialization time or a merge call extended an existing entry; distinct = distinct case text")
TRUSTED = ["serde_json and the profile JSON layout (harness/h_fxprof/src/st.rs); float ms -> ns conversion by round(x*1e6), exact for t < 2^50 (generator stays below)",
           "sort_unstable_by_key modelled as an insertion sort; ties are compared as multisets (verdict 4 = raw order differs only)"]
ASSUMPTIONS = ["i32 weight sums stay in range (the generator keeps |w| small)", "counter values are integer-valued f64"]


def prove():
    return K.prove(PROP, extra_targets=["Tie/C04.vo"])


def gen(tier, rng, scale):
    quick = tier == "quick"
    cases = []
    ts = [5, 10, 15, 20]
    for _ in range((2500 if quick else 30000) * scale):
        n = rng.range(1, 5)
        items = []
        for _ in range(n):
            if rng.chance(2, 5):
                items.append(["m", rng.choice(ts), rng.choice([1, 1, 2, -1])])
            else:
                items.append(["a", rng.choice(ts), rng.choice(["n", 0, 1, 2]), rng.choice([0, 0, 3]), rng.choice([1, 1, -1, 4, 0])])
        cases.append({"kind": "samples", "items": items})
    for _ in range((350 if quick else 5000) * scale):
        n = rng.range(6, 80 if quick else 300)
        t = rng.below(1000)
        lifecycle = rng.chance(1, 3)
        items = []
        for _ in range(n):
            r = rng.below(100)
            if r < 30:
                t = max(0, t - rng.below(500))      # out of order
            elif r < 50:
                pass                                 # equal timestamp
            else:
                t += rng.below(2000) * rng.choice([1, 1, 1000, 10**6])
            t = min(t, 2**48)
            if lifecycle and rng.chance(1, 10):
                # the thread's end / start time or name is set between samples (a converter does that when EXIT / COMM records arrive): the samples
                # added later, also those after the stated end time, keep their own times
                items.append(rng.choice([["e", max(0, t - rng.below(3000))], ["e", t + rng.below(100)], ["b", rng.below(t + 1)], ["nm", "t%d" % rng.below(9)]]))
            if rng.chance(1, 3):
                items.append(["m", t, rng.choice([1, 1, 1, 3, -2, 0])])
            else:
                items.append(["a", t, rng.choice(["n", 0, 1, 2, 3, 4, 5]), rng.choice([0, 0, 0, 1, 250, 10**6, 10**6, 2**32 - 1, 2**32, 2**32 + 7, 5 * 10**9, 2**40 + 3, 2**52]), rng.choice([1, 1, 1, -1, 7, -3, 0])])            # weight 0 (with CPU delta 0 too) is a sample like any other
        cases.append({"kind": "samples", "items": items})
    for _ in range((300 if quick else 4000) * scale):
        n = rng.range(1, 40 if quick else 200)
        t = rng.below(100)
        items = []
        for _ in range(n):
            r = rng.below(100)
            if r < 30:
                t = max(0, t - rng.below(50))
            elif r >= 50:
                t += rng.below(100) * rng.choice([1, 1000])
            items.append(["k", t, rng.choice([0, 0, 1, -1, 5, 1000, -4096]), rng.choice([0, 0, 1, 2, 9])])
        cases.append({"kind": "counter", "items": items})
    return cases


def with_items(case, items):
    return {"kind": case["kind"], "items": items}


def _line(c):
    return " ".join(" ".join(str(x) for x in it) for it in c["items"])


def _coq_op(it):
    if it[0] == "a":
        st = 0 if it[2] == "n" else int(it[2]) + 1
        return "OAdd %d %d %d (%d)%%Z" % (it[1], st, it[3], it[4])
    if it[0] == "m":
        return "OMerge %d (%d)%%Z" % (it[1], it[2])
    if it[0] == "k":   # counter sample: stack := number, w := value, cpu := 0; give it a non-zero cpu so merges never apply (there are none)
        return "OAdd %d %d 0 (%d)%%Z" % (it[1], it[3], it[2])
    raise ValueError(it)


def evaluate(cases):
    if not cases:
        return []
    ok, log, bindir = K.cargo_build("h_fxprof")
    if not ok:
        raise K.TieBroken("harness h_fxprof does not build against the current tree:\n" + log[-1500:])
    binp = os.path.join(bindir, "h_fxprof")
    outs = [None] * len(cases)
    for kind, mode in (("samples", "st-samples"), ("counter", "st-counter")):
        idx = [i for i, c in enumerate(cases) if c["kind"] == kind]
        if not idx:
            continue
        rc, outl, err = K.run_lines(binp, [mode], [_line(cases[i]) for i in idx])
        if rc != 0 or len(outl) != len(idx):
            raise K.TieBroken("h_fxprof %s failed (rc=%s, %d/%d lines): %s" % (mode, rc, len(outl), len(idx), err[-500:]))
        for i, l in zip(idx, outl):
            outs[i] = l.split()
    terms = []
    for c, toks in zip(cases, outs):
        bad = ("P" in toks) or ("X" in toks)
        rows = []
        for t in toks:
            if t in ("P", "X"):
                continue
            d, s, w, cpu = t.split(":")
            if c["kind"] == "samples":
                st = 0 if s == "n" else int(s) + 1
            else:
                st = int(s)
            rows.append("(%s, %d, (%s)%%Z, %s)" % (d, st, w, cpu))
        terms.append("(%s, %s, %s)" % (K.coq_list([_coq_op(it) for it in c["items"] if it[0] not in ("e", "b", "nm")]), K.coq_list(rows), "true" if bad else "false"))
    shards = ["Definition cases : list (list op * list row * bool) := %s.\nEval vm_compute in (map verdict cases).\n" % K.coq_list(ch)
              for ch in K.chunked(terms, K.NCPU)]
    try:
        res = K.coq_eval(PROP, "From SV Require Import Model.SampleTable Spec.SampleTableSpec Tie.C04.\nOpen Scope N_scope.", shards)
    except RuntimeError as ex:
        raise K.TieBroken(str(ex))
    flat = [v for r in res for v in r]
    if len(flat) != len(cases):
        raise K.TieBroken("verdict count mismatch %d vs %d" % (len(flat), len(cases)))
    return flat


def known(case):
    return None


def describe(case):
    return {"kind": case["kind"], "calls": _line(case)[:300]}


def distribution(cases):
    d = {"kinds": {}, "calls": {}, "len_hist": {}, "out_of_order_steps": 0, "equal_time_steps": 0}
    for c in cases:
        d["kinds"][c["kind"]] = d["kinds"].get(c["kind"], 0) + 1
        b = min(len(c["items"]) // 20 * 20, 300)
        d["len_hist"][str(b)] = d["len_hist"].get(str(b), 0) + 1
        prev = None
        for it in c["items"]:
            d["calls"][it[0]] = d["calls"].get(it[0], 0) + 1
            if it[0] in ("e", "b", "nm"):
                continue
            if prev is not None:
                if it[1] < prev:
                    d["out_of_order_steps"] += 1
                elif it[1] == prev:
                    d["equal_time_steps"] += 1
            prev = it[1]
    return d


def run(out, tier, seed, replay):
    K.standard_flow(out, sys.modules[__name__], tier, seed, replay)
