# C15 — cache eviction.  Model: coq/Model/Quota.v; tie: harness/h_quota (the real QuotaManager + sqlite inventory on scratch directories,
# eviction passes run synchronously through the cfg(samply_verif) hook).
import os, shutil, sys
from . import common as K

PROP = "C15"
RULE = ("cases = histories of 5..60 operations on a fresh managed directory: create / overwrite files (nested directories), notify accesses (plain and '..'-decorated spellings), "
        "delete with notification, delete behind the manager's back, the same for paths OUTSIDE the managed directory, change the size / age limits, eviction passes, restarts "
        "(drop + reopen on the same sqlite file); sizes and access times with ties, totals exactly at the limit, repeated passes with no activity in between; a second stream of short histories on a fast clock "
        "(time unit 6 s) in which real time passes between passes - with nothing happening meanwhile, or with an access / a creation / a settings change / a restart around the wait (model op Tick). "
        "Observed after every eviction / restart: inventory rows (hook dump, rowid order), directory listing inside and outside the root. "
        "non-trivial = some eviction pass of the history removed at least one row (measured on the model)")
TRUSTED = ["SQLite: durability of the WAL database across drop/reopen, ORDER BY LastAccessTime on the indexed column returning ties in rowid order (observed; an order-only difference is verdict 4, not an alarm)",
           "the hooks QuotaManager::verif_perform_eviction / verif_rows (cfg samply_verif) run the same perform_eviction_if_needed the background task runs",
           "a crash between unlinking a file and deleting its row is not exercised (no kill point inside delete_files); the model's answer - the next pass forgets the row - is the NotFound branch that IS exercised by external deletions"]
ASSUMPTIONS = ["access times are whole hours ago and the age limit is an odd number of half hours, so no row sits exactly on the age cut-off (SystemTime::now() moves between calls); on the fast clock the margin is 3 s of real time per pass",
               "notifications concern existing files (paths that cannot be canonicalised are compared textually by the code)"]


def prove():
    return K.prove(PROP, extra_targets=["Tie/C15.vo"])


def gen(tier, rng, scale):
    quick = tier == "quick"
    cases = []
    for ci in range((500 if quick else 8000) * scale):
        n = rng.range(5, 40 if quick else 60)
        items = []
        keys = []
        on_disk = set()
        sizes = [0, 1, 50, 100, 100, 100, 150, 300]
        total_guess = 0
        for _ in range(n):
            r = rng.below(100)
            if r < 35 or not keys:
                k = rng.below(12) if rng.chance(3, 4) else rng.choice(keys or [0])
                sz = rng.choice(sizes)
                items.append(["c", k, sz, rng.choice([0, 1, 2, 2, 3, 5, 5, 8, 13, 30])])
                keys.append(k)
                on_disk.add(k)
                total_guess += sz
            elif r < 45:
                k = rng.choice(keys)
                # the '..'-decorated spelling is only meaningful for a file that exists (it has to be canonicalised)
                items.append(["a", k, rng.choice([0, 1, 2, 5, 9]), rng.choice(["", "", "D"]) if k in on_disk else ""])
            elif r < 50:
                k = rng.choice(keys)
                on_disk.discard(k)
                items.append(["d", k])
            elif r < 57:
                k = rng.choice(keys)
                on_disk.discard(k)
                items.append(["x", k])
            elif r < 62:
                items.append(["C", 100 + rng.below(4), rng.choice(sizes), rng.choice([1, 5, 50])])
            elif r < 65:
                items.append(["A", 100 + rng.below(4), rng.choice([0, 3])])
            elif r < 75:
                m = rng.choice(["-", 0, 100, 200, 250, 300, 301, 400, 1000, max(0, total_guess), max(0, total_guess - 50), max(0, total_guess - 100),
                                # limits from the top of the u64 range ("no limit in practice"), and around 2^63
                                2**64 - 1, 2**64 - 1 - 10**6, 2**63, 2**63 - 1, 2**63 + 5])
                items.append(["s", m])
            elif r < 81:
                items.append(["g", rng.choice(["-", 1, 3, 5, 11, 17, 61])])
            elif r < 95:
                items.append(["e"])
                on_disk = set()      # unknown after an eviction: be conservative
                if rng.chance(1, 4):
                    items.append(["e"])
            else:
                items.append(["r"])
        items.append(["e"])
        cases.append({"items": items})
    # many small files, and one pass that has to remove most of them (several hundred in one go): by size, by age, or both
    mrng = rng.fork("many")
    for ci in range((3 if quick else 30) * scale):
        nfiles = mrng.choice([520, 600, 700, 1100])
        items = []
        for k in range(nfiles):
            items.append(["c", 12 + k, mrng.choice([1, 1, 1, 2, 3]), mrng.choice([0, 1, 2, 3, 5, 8, 13, 30]) if mrng.chance(1, 2) else (30 if k % 7 else 0)])
        if mrng.chance(1, 3):
            items.append(["e"])
        kind = mrng.below(3)
        if kind != 1:
            items.append(["s", mrng.choice([0, 5, 100, nfiles // 10])])
        if kind != 0:
            items.append(["g", mrng.choice([1, 3, 11])])
        items.append(["e"])
        if mrng.chance(1, 2):
            items.append(["a", 12 + mrng.below(nfiles), 0, ""])
        items.append(["e"])
        cases.append({"items": items})
    # the clock alone: histories on a fast clock (a time unit of FAST_UNIT seconds instead of an hour) in which REAL time passes between passes - with nothing
    # at all happening in between, or with some activity / a settings change / a restart before or after the wait
    for ci in range((10 if quick else 48) * scale):
        items = []
        keys = []
        for _ in range(rng.range(1, 4)):
            k = rng.below(6)
            items.append(["c", k, rng.choice([1, 50, 100]), rng.choice([0, 0, 1, 1, 2, 3])])
            keys.append(k)
        lim = rng.choice([1, 3, 3, 5])
        items.append(["g", lim])
        if rng.chance(1, 3):
            items.append(["s", rng.choice([100, 150, 1000])])
        items.append(["e"])
        for _ in range(rng.choice([1, 1, 2])):
            if rng.chance(1, 4):
                items.append(rng.choice([["a", rng.choice(keys), 0, ""], ["c", 6 + rng.below(3), 10, rng.choice([0, 1])], ["g", rng.choice([lim, lim + 2])], ["r"], ["g", lim]]))
            items.append(["w"])
            if rng.chance(1, 5):
                items.append(["a", rng.choice(keys), rng.choice([0, 1]), ""])
            items.append(["e"])
            if rng.chance(1, 4):
                items.append(["e"])
        cases.append({"items": items})
    return cases


def with_items(case, items):
    return {"items": items}


FAST_UNIT = 6


def _line(c, scratch):
    t = [scratch]
    if any(it[0] == "w" for it in c["items"]):
        t.append("U%d" % FAST_UNIT)
    for it in c["items"]:
        t += [str(x) for x in it if x != ""]
    return " ".join(t)


def _coq_op(it):
    k = it[0]
    if k == "c":
        return "Create %d %d %d" % (it[1], it[2], it[3])
    if k == "C":
        return "CreateOut %d %d %d" % (it[1], it[2], it[3])
    if k == "a":
        return "Access %d %d" % (it[1], it[2])
    if k == "A":
        return "AccessOut %d %d" % (it[1], it[2])
    if k == "d":
        return "Delete %d" % it[1]
    if k == "x":
        return "ExtDelete %d" % it[1]
    if k == "s":
        return "SetMaxSize %s" % ("None" if it[1] == "-" else "(Some %d)" % it[1])
    if k == "g":
        return "SetMaxAge %s" % ("None" if it[1] == "-" else "(Some %d)" % it[1])
    if k == "e":
        return "Evict"
    if k == "r":
        return "Restart"
    if k == "w":
        return "Tick"
    raise ValueError(it)


def evaluate(cases):
    if not cases:
        return []
    ok, log, bindir = K.cargo_build("h_quota")
    if not ok:
        raise K.TieBroken("harness h_quota does not build against the current tree (hooks missing?):\n" + log[-1500:])
    base = os.path.join(K.SCRATCH, "c15_%d" % os.getpid())
    os.makedirs(base, exist_ok=True)
    try:
        # several harness processes in parallel, each with its own scratch directory
        import concurrent.futures
        # histories that wait for real time to pass get a process each (they run side by side), the others are spread over 8 processes
        slow = [i for i, c in enumerate(cases) if any(it[0] == "w" for it in c["items"])]
        parts = K.chunked([i for i in range(len(cases)) if i not in set(slow)], 8) + [[i] for i in slow]
        parts = [p for p in parts if p]
        outl = [None] * len(cases)

        def work(pi):
            part = parts[pi]
            lines = [_line(cases[i], os.path.join(base, "w%d" % pi)) for i in part]
            rc, o, err = K.run_lines(os.path.join(bindir, "h_quota"), [], lines, timeout=1500)
            if rc != 0 or len(o) != len(part):
                raise K.TieBroken("h_quota failed (rc=%s, %d/%d lines): %s" % (rc, len(o), len(part), err[-500:]))
            for i, l in zip(part, o):
                outl[i] = l

        with concurrent.futures.ThreadPoolExecutor(max_workers=24) as ex:
            list(ex.map(work, range(len(parts))))
    finally:
        shutil.rmtree(base, ignore_errors=True)
    terms = []
    late = set()
    for ci_, (c, l) in enumerate(zip(cases, outl)):
        if " LATE" in l:
            # the machine stalled inside a fast-clock history: real time ran away from the instants the case assigns to its passes - not judged
            late.add(ci_)
            l = l.replace(" LATE", "")
        panicked = False
        snaps = []
        for s in l.split(" | "):
            s = s.strip()
            if s == "P":
                panicked = True
                continue
            if not s:
                continue
            rows_s, in_s, out_s = [x.strip() for x in s.split(";")]
            rows = []
            for r in rows_s[len("rows"):].strip().split(","):
                if not r:
                    continue
                k, sz, age = r.split(":")
                if age.startswith("?"):
                    age = "999999"
                rows.append("(mkRow %s %s %s)" % (k, sz, age))
            ins = [x for x in in_s[len("in"):].strip().split(",") if x]
            outs = [str(int(x) ) for x in out_s[len("out"):].strip().split(",") if x]
            snaps.append("(%s, %s, %s)" % (K.coq_list(rows), K.coq_list(ins), K.coq_list(outs)))
        terms.append("(%s, %s, %s)" % (K.coq_list([_coq_op(it) for it in c["items"]]), K.coq_list(snaps), "true" if panicked else "false"))
    shards = [K.case_defs("(list op * list snap * bool)", ch) for ch in K.chunked(terms, K.NCPU)]
    try:
        res = K.coq_eval(PROP, "From SV Require Import Model.Quota Tie.C15.\nOpen Scope N_scope.", shards)
    except RuntimeError as ex:
        raise K.TieBroken(str(ex))
    flat = [v for r in res for v in r]
    if len(flat) != len(cases):
        raise K.TieBroken("verdict count mismatch %d vs %d" % (len(flat), len(cases)))
    return [3 if i in late else v for i, v in enumerate(flat)]


def known(case):
    return None


def describe(case):
    return " ".join(" ".join(str(x) for x in it if x != "") for it in case["items"])


def distribution(cases):
    d = {"ops": {}, "len_hist": {}}
    for c in cases:
        b = str(len(c["items"]) // 10 * 10)
        d["len_hist"][b] = d["len_hist"].get(b, 0) + 1
        for it in c["items"]:
            d["ops"][it[0]] = d["ops"].get(it[0], 0) + 1
    return d


def run(out, tier, seed, replay):
    K.standard_flow(out, sys.modules[__name__], tier, seed, replay)
