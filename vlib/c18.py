# C18 — the local server serves profile and API only under the secret path.
# Model: coq/Model/Server.v; tie: the real `samply load` server driven over raw sockets.
import gzip, os, re, shutil, signal, socket, subprocess, sys, time, urllib.parse
from . import common as K

PROP = "C18"
RULE = ("cases = raw HTTP/1.1 requests (GET/POST/OPTIONS/HEAD/PUT/DELETE; with/without Origin, Access-Control-Request-Method, Access-Control-Request-Headers) against "
        "`samply load <profile> --no-open -P <port>+` servers (plain and .gz profile, several runs): paths without the token, the token path and its API/profile children, "
        "proper prefixes and extensions of the token, case variants, percent-encodings, //, /./, /x/../ decorations, the token in the query string or after another segment. "
        "every path also with an Origin header naming the server's own origin (http://<listen address>:<port>, and respellings of it). Observed: status, Access-Control-* / Allow / Content-Encoding headers, body class (empty / landing page / profile bytes / API JSON). Tokens of all runs, and of 2 x 4 further servers started at the same moment (same clock second, neighbouring pids): 39 chars of the nix-base32 alphabet, pairwise distinct, and the 24 bytes each one encodes take at least 10 distinct values (24 random bytes do so with probability above 1 - 1e-19, C18_token_variety_arith; a repeated byte or a short period does not). "
        "One evaluation = one server run (several hundred requests); non-trivial = the run contained requests whose path mentions the token (or a variant of it) without being served")
TRUSTED = ["hyper's request parsing: req.uri().path() is the raw path before '?' (requests hyper rejects with 400 are judged by the property only)",
           "`samply load` always serves a profile, so the model's has_profile = false branch is proved but not exercised",
           "unpredictability of the token cannot be proved; observed: length, alphabet, distinctness across runs including simultaneously started ones, variety of the encoded bytes; translated from the source: the 24 bytes are filled by rand::rng().fill_bytes (c_token_from_os_rng)"]
ASSUMPTIONS = ["the landing page served without the prefix embeds the token by design (it is served without CORS headers, which is what the property requires)"]

METHODS = ["GET", "POST", "OPTIONS", "HEAD", "PUT", "DELETE"]
HSETS = [[], [("Origin", "https://evil.example")], [("Origin", "https://evil.example"), ("Access-Control-Request-Method", "POST")],
         [("Origin", "https://profiler.firefox.com"), ("Access-Control-Request-Method", "GET"), ("Access-Control-Request-Headers", "content-type, x-secret")],
         [("Access-Control-Request-Headers", "x-a")]]
RANK = {0: 0, 4: 1, 3: 1, 1: 2, 2: 3}
_last = {}


def prove():
    return K.prove(PROP, extra_targets=["Tie/C18.vo"])


def _setup():
    ok, log, samply = K.cargo_build_samply()
    if not ok:
        raise K.TieBroken("samply does not build:\n" + log[-1500:])
    ok, log, bindir = K.cargo_build("h_fxprof")
    if not ok:
        raise K.TieBroken("harness h_fxprof does not build:\n" + log[-1500:])
    d = os.path.join(K.SCRATCH, "c18_%d" % os.getpid())
    os.makedirs(d, exist_ok=True)
    p = subprocess.run([os.path.join(bindir, "h_fxprof"), "emit-profile"], stdout=subprocess.PIPE, check=True)
    pj = os.path.join(d, "profile.json")
    open(pj, "wb").write(p.stdout)
    pg = os.path.join(d, "profilegz.json.gz")
    with gzip.open(pg, "wb") as f:
        f.write(p.stdout)
    return samply, d, pj, pg


class Server:
    def __init__(self, samply, profile, port_base):
        self.profile = profile
        self.proc = subprocess.Popen([samply, "load", profile, "--no-open", "-P", "%d+" % port_base],
                                     stdout=subprocess.PIPE, stderr=subprocess.DEVNULL, text=True)
        line = ""
        t0 = time.time()
        while time.time() - t0 < 30:
            line = self.proc.stdout.readline()
            if line.startswith("http"):
                break
            if line == "" and self.proc.poll() is not None:
                break
        m = re.search(r"symbolServer=([^&\s]+)", line)
        if not m:
            self.stop()
            raise K.TieBroken("could not parse the server URL from samply's output: %r" % line)
        url = urllib.parse.unquote(m.group(1))
        u = urllib.parse.urlparse(url)
        self.host, self.port = u.hostname, u.port
        self.token = u.path.lstrip("/")
        self.file_bytes = open(profile, "rb").read()

    def stop(self):
        try:
            self.proc.send_signal(signal.SIGINT)
            self.proc.wait(timeout=5)
        except Exception:
            self.proc.kill()

    def request(self, method, path, headers, body=b""):
        try:
            s = socket.create_connection((self.host, self.port), timeout=10)
        except OSError:
            return b""
        try:
            req = ("%s %s HTTP/1.1\r\nHost: %s:%d\r\nConnection: close\r\n" % (method, path, self.host, self.port)).encode("latin-1")
            for k, v in headers:
                req += ("%s: %s\r\n" % (k, v)).encode()
            if body or method in ("POST", "PUT"):
                req += b"Content-Length: %d\r\n" % len(body)
            req += b"\r\n" + body
            s.sendall(req)
            data = b""
            while True:
                chunk = s.recv(65536)
                if not chunk:
                    break
                data += chunk
        except (socket.timeout, ConnectionError):
            data = b""
        finally:
            s.close()
        return data


def _read_response(s, method):
    """one HTTP/1.1 response from a connection that stays open: headers, then a body framed by Content-Length or chunked encoding (none for HEAD / 204 / 304)"""
    data = b""
    while b"\r\n\r\n" not in data:
        chunk = s.recv(65536)
        if not chunk:
            return data
        data += chunk
    head, _, rest = data.partition(b"\r\n\r\n")
    hl = head.lower()
    status = int(head.split(b"\r\n")[0].split()[1]) if head.startswith(b"HTTP/1.1 ") else 0
    if method == "HEAD" or status in (204, 304):
        return head + b"\r\n\r\n"
    m = re.search(rb"content-length:\s*(\d+)", hl)
    if m:
        n = int(m.group(1))
        while len(rest) < n:
            chunk = s.recv(65536)
            if not chunk:
                break
            rest += chunk
        return head + b"\r\n\r\n" + rest[:n]
    if b"transfer-encoding: chunked" in hl:
        while not rest.endswith(b"0\r\n\r\n"):
            chunk = s.recv(65536)
            if not chunk:
                break
            rest += chunk
        return head + b"\r\n\r\n" + rest
    return head + b"\r\n\r\n" + rest


def _request_after_tokened(srv, method, path, headers, body=b""):
    """the same request as Server.request, but as the SECOND request of a persistent connection whose first request carried the token
    (GET /<token>/profile.json): what the server answers must not depend on what the connection was used for before"""
    try:
        s = socket.create_connection((srv.host, srv.port), timeout=10)
    except OSError:
        return b""
    try:
        s.sendall(("GET /%s/profile.json HTTP/1.1\r\nHost: %s:%d\r\nConnection: keep-alive\r\n\r\n" % (srv.token, srv.host, srv.port)).encode())
        first = _read_response(s, "GET")
        if not first.startswith(b"HTTP/1.1 200"):
            return b""
        req = ("%s %s HTTP/1.1\r\nHost: %s:%d\r\nConnection: close\r\n" % (method, path, srv.host, srv.port)).encode("latin-1")
        for k, v in headers:
            req += ("%s: %s\r\n" % (k, v)).encode()
        if body or method in ("POST", "PUT"):
            req += b"Content-Length: %d\r\n" % len(body)
        s.sendall(req + b"\r\n" + body)
        data = b""
        while True:
            chunk = s.recv(65536)
            if not chunk:
                break
            data += chunk
        return data
    except (socket.timeout, ConnectionError):
        return b""
    finally:
        s.close()


def _parse(data, method, srv):
    if not data.startswith(b"HTTP/1.1 "):
        return {"status": 0, "rejected": True, "hdr": {}, "body": "empty"}
    head, _, body = data.partition(b"\r\n\r\n")
    lines = head.split(b"\r\n")
    status = int(lines[0].split()[1])
    hdr = {}
    for l in lines[1:]:
        k, _, v = l.partition(b":")
        hdr[k.decode().strip().lower()] = v.decode().strip()
    if hdr.get("transfer-encoding", "") == "chunked":
        out = b""
        rest = body
        while rest:
            ln, _, rest = rest.partition(b"\r\n")
            try:
                n = int(ln.split(b";")[0], 16)
            except ValueError:
                break
            if n == 0:
                break
            out += rest[:n]
            rest = rest[n + 2:]
        body = out
    if len(body) == 0:
        cls = "empty"
    elif body == srv.file_bytes:
        cls = "profile"
    elif b"<html" in body.lower() or b"<!doctype" in body.lower():
        cls = "landing"
    else:
        cls = "api"
    return {"status": status, "rejected": status == 400, "hdr": hdr, "body": cls}


def _paths(tok):
    T = "/" + tok
    up = "/" + tok.upper()
    pe = "/%" + "%02x" % ord(tok[0]) + tok[1:]
    return ["/", "/profile.json", "/symbolicate/v5", "/index.html", "/favicon.ico", "/" + "0" * 39, "/" + "0" * 39 + "/profile.json",
            T, T + "/", T + "/profile.json", T + "/symbolicate/v5", T + "/source/v1", T + "/asm/v1", T + "/profile.json?x=1", T + "?q", T + "/nope",
            T + "x/profile.json", T + "profile.json", T[:-1], T[:-1] + "/profile.json", T[:20] + "/profile.json", "/" + tok[1:] + "/profile.json",
            up + "/profile.json", up, pe + "/profile.json", pe, "/" + T + "/profile.json", "/." + T + "/profile.json", "/x/.." + T + "/profile.json",
            "/x" + T + "/profile.json", "/?t=" + T + "/profile.json", "/profile.json?" + tok, "/%2F" + tok + "/profile.json", "/%2f" + tok,
            T + "/profile.json/", T + "/PROFILE.JSON", T + "//profile.json", T + "/./profile.json", T + "/../profile.json", "*"]


NIX32 = "0123456789abcdfghijklmnpqrsvwxyz"


def token_bytes(tok):
    """the bytes a nix-base32 string encodes (the k-th character from the END holds bits 5k .. 5k+4 of the little-endian bit string); None if it is not one"""
    if any(ch not in NIX32 for ch in tok):
        return None
    v = 0
    for k, ch in enumerate(reversed(tok)):
        v |= NIX32.index(ch) << (5 * k)
    return v.to_bytes(len(tok) * 5 // 8 + 1, "little")[:len(tok) * 5 // 8]


def token_guessable(tok):
    """why an attacker could enumerate this token, or None: a token is 24 random bytes; among 24 uniformly random bytes fewer than 10 distinct values occur
    with probability below 1e-19 (the count is machine-checked: C18_token_variety_arith), so a token with that little variety was not produced by 24
    independent random bytes - it belongs to a family (one byte repeated, a short period) small enough to be tried exhaustively"""
    b = token_bytes(tok)
    if b is None or len(b) < 20:
        return "it does not encode 20 or more bytes"
    if len(set(b)) < 10:
        return "its %d bytes take only %d distinct values (%s...)" % (len(b), len(set(b)), b[:6].hex())
    return None


def _simultaneous_tokens(samply, profile, n, port_base):
    """start n servers at the same moment (same clock second, consecutive pids) and return their tokens"""
    procs = [subprocess.Popen([samply, "load", profile, "--no-open", "-P", "%d+" % (port_base + 40 * i)], stdout=subprocess.PIPE, stderr=subprocess.DEVNULL, text=True)
             for i in range(n)]
    toks = []
    try:
        for pr in procs:
            t0 = time.time()
            line = ""
            while time.time() - t0 < 30:
                line = pr.stdout.readline()
                if line.startswith("http") or (line == "" and pr.poll() is not None):
                    break
            m = re.search(r"symbolServer=([^&\s]+)", line)
            if not m:
                raise K.TieBroken("could not parse the server URL from samply's output: %r" % line)
            toks.append(urllib.parse.urlparse(urllib.parse.unquote(m.group(1))).path.lstrip("/"))
    finally:
        for pr in procs:
            try:
                pr.send_signal(signal.SIGINT)
                pr.wait(timeout=5)
            except Exception:
                pr.kill()
    return toks


def gen(tier, rng, scale):
    # the concrete requests depend on the per-run token, so they are produced inside evaluate(); gen only fixes the plan
    quick = tier == "quick"
    runs = (3 if quick else 8) * scale
    return [{"items": [["run", i, "gz" if i % 3 == 1 else "json", rng.next()]]} for i in range(runs)]


def evaluate(cases):
    if not cases:
        return []
    samply, d, pj, pg = _setup()
    verdicts = []
    tokens = []
    dist = {"requests": 0, "by_method": {}, "rejected_by_parser": 0, "mentions_token_unserved": 0, "status": {}}
    samples = []
    try:
        for c in cases:
            it = c["items"][0]
            rng = K.SplitMix64(it[3])
            srv = Server(samply, pg if it[2] == "gz" else pj, 4100 + (os.getpid() * 7 + it[1] * 53) % 800)
            terms = []
            descr = []
            try:
                tokens.append(srv.token)
                tokb = K.coq_list([str(b) for b in srv.token.encode()])
                # requests that claim to come from the server's own origin (a public value: the address it listens on), in several spellings
                own = [[("Origin", "http://%s:%d" % (srv.host, srv.port))],
                       [("Origin", "http://%s:%d" % (srv.host, srv.port)), ("Access-Control-Request-Method", "GET")],
                       [("Origin", rng.choice(["http://localhost:%d" % srv.port, "http://%s:%d/" % (srv.host, srv.port), "https://%s:%d" % (srv.host, srv.port), "null", "HTTP://%s:%d" % (srv.host.upper(), srv.port)]))]]
                hsets = HSETS + own
                plan = [(path, m, hs, False) for path in _paths(srv.token) for m in METHODS
                        for hs in (hsets if m == "OPTIONS" else [HSETS[0], rng.choice(hsets[1:]), own[0]])]
                # the token-less paths once more, each as the second request of a connection that was first used with the token
                plan += [(path, m, HSETS[0], True) for path in ["/profile.json", "/symbolicate/v5", "/source/v1", "/asm/v1", "/", "/x"] for m in METHODS]
                # headers by which a proxy-aware server might be told another path, prefix, method or host than the request line states: none of them
                # may change what a path that does not begin with the token is given
                T = "/" + srv.token
                rew = [[("X-Forwarded-Prefix", "/proxy")], [("X-Forwarded-Prefix", "/proxy/")], [("X-Script-Name", "/proxy")], [("X-Forwarded-Path", "/proxy")],
                       [("X-Original-URL", T + "/profile.json")], [("X-Rewrite-URL", T + "/profile.json")], [("X-Forwarded-Uri", T + "/profile.json")],
                       [("X-HTTP-Method-Override", "GET")], [("Forwarded", "for=127.0.0.1;host=%s:%d;proto=http" % (srv.host, srv.port))],
                       [("X-Forwarded-Host", "%s:%d" % (srv.host, srv.port)), ("X-Forwarded-Proto", "http")], [("Referer", "http://%s:%d%s/" % (srv.host, srv.port, T))],
                       [("X-Forwarded-Prefix", "/proxy"), ("Origin", "https://profiler.firefox.com"), ("Access-Control-Request-Method", "POST")]]
                rpaths = ["/proxy" + T + "/profile.json", "/proxy" + T + "/symbolicate/v5", "/proxy/" + T[1:], "/profile.json", "/symbolicate/v5", "/proxy/profile.json", "/"]
                n_before = len(plan)
                plan += [(path, m, hs, False) for path in rpaths for m in ("GET", "POST", "OPTIONS") for hs in rew]
                dist["with_path_rewriting_headers"] = dist.get("with_path_rewriting_headers", 0) + len(plan) - n_before
                dist["after_a_tokened_request_on_the_same_connection"] = dist.get("after_a_tokened_request_on_the_same_connection", 0) + sum(1 for x in plan if x[3])
                for (path, m, hs, second) in plan:
                    if True:
                        if True:
                            body = b"{}" if m in ("POST", "PUT") else b""
                            raw = _request_after_tokened(srv, m, path, hs, body) if second else srv.request(m, path, hs, body)
                            r = _parse(raw, m, srv)
                            h = r["hdr"]
                            p0 = path.split("?")[0]
                            mentions = (srv.token.lower()[:20] in path.lower() or srv.token[1:] in path) and not p0.startswith("/" + srv.token)
                            dist["requests"] += 1
                            dist["by_method"][m] = dist["by_method"].get(m, 0) + 1
                            dist["status"][str(r["status"])] = dist["status"].get(str(r["status"]), 0) + 1
                            dist["rejected_by_parser"] += 1 if r["rejected"] else 0
                            dist["mentions_token_unserved"] += 1 if mentions else 0
                            cm = m if m in ("GET", "POST", "OPTIONS", "HEAD", "PUT") else "OTHER"
                            rq = "(mkReq %s %s %s %s)" % (cm, K.coq_list([str(b) for b in p0.encode("latin-1")]),
                                                          "true" if any(k == "Access-Control-Request-Method" for k, _ in hs) else "false",
                                                          "true" if any(k == "Access-Control-Request-Headers" for k, _ in hs) else "false")
                            b2 = {"empty": "BEmpty", "landing": "BLanding", "profile": "BProfile", "api": "BApi"}[r["body"]]
                            flags = ["true" if k in h else "false" for k in
                                     ("access-control-allow-origin", "access-control-allow-methods", "access-control-max-age", "access-control-allow-headers", "allow")]
                            ob = "(mkResp %d %s %s %s %s %s %s %s)" % (r["status"], flags[0], flags[1], flags[2], flags[3], flags[4],
                                                                       "true" if h.get("content-encoding", "") == "gzip" else "false", b2)
                            terms.append("(Some %s, %s, %s, %s, %s, %s)" % ("true" if it[2] == "gz" else "false", tokb, rq, ob,
                                                                           "true" if r["rejected"] else "false", "true" if mentions else "false"))
                            descr.append({"method": m, "second_request_of_a_connection_first_used_with_the_token": second, "path": path.replace(srv.token, "<token>").replace(srv.token.upper(), "<TOKEN>"),
                                          "request_headers": [k if k != "Origin" else "Origin: " + v.replace(str(srv.port), "<port>") for k, v in hs], "status": r["status"],
                                          "cors_headers": [k for k in h if k.startswith("access-control")], "body": r["body"]})
                            if len(samples) < 4 and mentions:
                                samples.append(descr[-1])
            finally:
                srv.stop()
            ty = "(option bool * list N * request * response * bool * bool)"
            shards = [K.case_defs(ty, ch) for ch in K.chunked(terms, K.NCPU)]
            try:
                res = K.coq_eval(PROP, "From SV Require Import Model.Server Tie.C18.\nOpen Scope N_scope.", shards)
            except RuntimeError as ex:
                raise K.TieBroken(str(ex))
            flat = [v for r in res for v in r]
            if len(flat) != len(terms):
                raise K.TieBroken("verdict count mismatch")
            worst = 0
            for v in flat:
                if RANK[v % 10] > RANK[worst]:
                    worst = v % 10
            c["_requests"] = len(flat)
            c["_bad"] = [dd for dd, v in zip(descr, flat) if v % 10 == worst and worst in (1, 2)][:5]
            verdicts.append(10 + worst)
        # "freshly random for every run": servers started at the same moment (same clock second, neighbouring pids) must not share a token either
        simul = []
        for rnd in range(2):
            simul += _simultaneous_tokens(samply, pj, 4, 5200 + (os.getpid() * 11 + rnd * 170) % 600)
        dist["simultaneous_starts"] = len(simul)
        alltok = tokens + simul
        if len(set(alltok)) != len(alltok):
            verdicts[0] = 12
            cases[0]["_bad"] = ["tokens repeated across runs (%d runs, %d started simultaneously in groups of 4): %r" % (len(alltok), len(simul), sorted(t for t in set(alltok) if alltok.count(t) > 1)[:3])]
        # "long enough not to be guessable": the bytes every observed token encodes must show the variety of 24 random bytes
        weak = [(t, token_guessable(t)) for t in alltok if token_guessable(t)]
        dist["tokens_examined_for_variety"] = len(alltok)
        if weak:
            verdicts[0] = 12
            cases[0]["_bad"] = ["guessable token %s: %s; all %d tokens of this run: %r" % (weak[0][0], weak[0][1], len(alltok), alltok[:12])]
    finally:
        shutil.rmtree(d, ignore_errors=True)
    _last.update({"dist": dist, "samples": samples, "tokens": len(tokens)})
    return verdicts


def known(case):
    return None


def describe(case):
    it = case["items"][0]
    return {"server_run": it[1], "profile": it[2], "requests_sent": case.get("_requests"), "offending_requests": case.get("_bad"),
            "example_requests": _last.get("samples", [])[:3]}


def distribution(cases):
    return _last.get("dist", {})


def run(out, tier, seed, replay):
    K.standard_flow(out, sys.modules[__name__], tier, seed, replay)
    out.cov["requests_sent"] = _last.get("dist", {}).get("requests", 0)
    out.cov["server_runs"] = _last.get("tokens", 0)
    out.cov["requests_mentioning_token_unserved"] = _last.get("dist", {}).get("mentions_token_unserved", 0)
