# C11 — library mapping tables.  Model: coq/Model/LibMappings.v; spec: coq/Spec/LibMappingsSpec.v;
# tie: harness/h_fxprof (LibMappings<u32> directly and through the Profile API).
import itertools, os
from . import common as K

PROP = "C11"
RULE = ("cases = operation sequences (Add s e rel lib | Remove s | Clear, on the process table and the kernel table) "
        "interleaved with lookups; streams: sampled exhaustive small scope (<=4 ops over 6 endpoints, lookups at every endpoint and endpoint-1), "
        "random sequences up to 200 ops over a 64-address universe, high-magnitude addresses (near 2^32, 2^63, 2^64-1); "
        "each case runs against LibMappings<u32> (direct mode) or through Profile::add_lib_mapping/.../handle_for_frame_with_address + serde_json (profile mode), "
        "in a debug build (overflow checks on). non-trivial = at least one Add evicted an existing mapping (measured by the Coq model); distinct = distinct case text")
TRUSTED = ["BTreeMap semantics as modelled in Model/LibMappings.v (insert/remove/range/next_back on a unique-key association list)",
           "serde_json and the profile JSON layout used to read back frame addresses (harness/h_fxprof/src/lm.rs)"]
ASSUMPTIONS = ["ranges with start >= end and relative addresses beyond 32 bits are outside the property (verdict 3, counted under outside_hypotheses)"]


def prove():
    return K.prove(PROP, extra_targets=["Tie/C11.vo"])


def _mk_add(rng, univ, big=False):
    if big:
        base = rng.choice([2**32 - 64, 2**32, 2**63 - 32, 2**63, 2**64 - 200])
        s = base + rng.below(64)
        e = min(2**64 - 1, s + 1 + rng.below(64))
        if e <= s:
            s = e - 1
        rel = rng.choice([0, 1, rng.below(1000), 2**32 - (e - s) - rng.below(3), 2**32 - (e - s)])      # up to the very top: the last byte has relative address u32::MAX
    else:
        s = rng.below(univ)
        e = s + 1 + rng.below(max(1, univ // 3))
        rel = rng.below(4096)
    return s, e, rel, rng.below(6)


def gen(tier, rng, scale):
    cases = []
    quick = tier == "quick"
    # (1) exhaustive small scope, sampled
    pts = [10, 20, 30, 40, 50, 60]
    ranges = [(a, b) for a in pts for b in pts if a < b]
    opsU = [("A", s, e) for (s, e) in ranges] + [("R", s) for s in pts[:5]] + [("C",)]
    n_small = (1500 if quick else 20000) * scale
    for i in range(n_small):
        n = rng.range(1, 4)
        items = []
        for j in range(n):
            o = rng.choice(opsU)
            if o[0] == "A":
                items.append(["A", o[1], o[2], o[1] + rng.below(3) * 100, j + 1])
            elif o[0] == "R":
                items.append(["R", o[1]])
            else:
                items.append(["C"])
            if rng.chance(1, 3) or j == n - 1:
                for a in pts:
                    items.append(["L", a - 1])
                    items.append(["L", a])
        mode = "direct" if i % 2 == 0 else "profile"
        cases.append(_finish(items, mode, rng))
    # (2) random long sequences over a 64-address universe
    n_rand = (300 if quick else 5000) * scale
    for i in range(n_rand):
        n = rng.range(5, 200 if not quick else 80)
        items = []
        starts = []
        conts = []
        for j in range(n):
            r = rng.below(100)
            if r < 45:
                s, e, rel, v = _mk_add(rng, 64)
                if starts and rng.chance(1, 5):   # identical / adjacent re-adds
                    s0, e0 = rng.choice(starts)
                    s, e = rng.choice([(s0, e0), (e0, e0 + 1 + rng.below(5)), (s0, s0 + 1), (max(0, s0 - 3), s0)])
                    if s >= e:
                        e = s + 1
                elif conts and rng.chance(1, 4):
                    # the next piece of the same library: it starts where an earlier mapping ends, with the relative address that continues
                    # it (segments of one file mapped one after the other, JIT code emitted back to back) - or the piece just before it
                    s0, e0, rel0, v0 = rng.choice(conts)
                    ln = 1 + rng.below(6)
                    if rng.chance(3, 4) or s0 < ln or rel0 < ln:
                        s, e, rel, v = e0, e0 + ln, rel0 + (e0 - s0), v0
                    else:
                        s, e, rel, v = s0 - ln, s0, rel0 - ln, v0
                starts.append((s, e))
                conts.append((s, e, rel, v))
                op = [rng.choice(["A", "A", "A", "KA"]), s, e, rel, v]
                if rng.chance(1, 4):
                    # the same address asked for immediately before and immediately after the operation, nothing else in between
                    probe = [rng.choice(["L", "FI", "FR", "FA"]), max(0, rng.choice([s, s + 1, e - 1, e, s - 1]))]
                    items += [list(probe), op, list(probe)]
                else:
                    items.append(op)
            elif r < 55 and starts:
                s0, e0 = rng.choice(starts)
                op = [rng.choice(["R", "R", "KR"]), rng.choice([s0, s0, e0, s0 + 1])]
                if rng.chance(1, 4):
                    probe = [rng.choice(["L", "FI", "FR", "FA"]), max(0, rng.choice([s0, s0 + 1, e0 - 1]))]
                    items += [list(probe), op, list(probe)]
                else:
                    items.append(op)
            elif r < 58:
                items.append(["C"])
            else:
                a = rng.below(70)
                if starts and rng.chance(1, 2):
                    s0, e0 = rng.choice(starts)
                    a = max(0, rng.choice([s0 - 1, s0, e0 - 1, e0, s0 + 1]))
                items.append([rng.choice(["L", "FI", "FR", "FA"]), a])
        cases.append(_finish(items, "direct" if i % 3 == 0 else "profile", rng))
    # (3) high-magnitude stream
    n_big = (150 if quick else 2000) * scale
    for i in range(n_big):
        n = rng.range(3, 30)
        items = []
        starts = []
        for j in range(n):
            if rng.chance(1, 2) or not starts:
                s, e, rel, v = _mk_add(rng, 64, big=True)
                starts.append((s, e))
                items.append([rng.choice(["A", "KA"]), s, e, rel, v])
            else:
                s0, e0 = rng.choice(starts)
                a = min(2**64 - 1, max(0, rng.choice([s0 - 1, s0, e0 - 1, e0, s0 + 1, 0, 2**64 - 1])))
                items.append([rng.choice(["L", "FI", "FR", "FA"]), a])
        cases.append(_finish(items, "direct" if i % 2 == 0 else "profile", rng))
    return cases


def _finish(items, mode, rng):
    out = []
    for it in items:
        k = it[0]
        if mode == "direct":
            if k in ("KA",):
                it = ["A"] + it[1:]
            elif k == "KR":
                it = ["R"] + it[1:]
            elif k in ("FI", "FR", "FA"):
                it = ["L"] + it[1:]
        else:
            if k == "L":
                it = ["FI"] + it[1:]
        out.append(it)
    return {"mode": mode, "items": out}


def with_items(case, items):
    return {"mode": case["mode"], "items": items}


def _coq_action(it):
    k = it[0]
    if k in ("A", "KA"):
        m = "(mkMapping %d %d %d %d)" % (it[1], it[2], it[3], it[4])
        return ("AOp (Add %s)" if k == "A" else "AKOp (Add %s)") % m
    if k == "R":
        return "AOp (Remove %d)" % it[1]
    if k == "KR":
        return "AKOp (Remove %d)" % it[1]
    if k == "C":
        return "AOp Clear"
    if k == "L":
        return "ALookup %d" % it[1]
    if k == "FI":
        return "AFrame (Ip %d)" % it[1]
    if k == "FR":
        return "AFrame (RetAddr %d)" % it[1]
    if k == "FA":
        return "AFrame (AdjRetAddr %d)" % it[1]
    raise ValueError(k)


def _coq_obs(tok):
    if tok == "N":
        return "ONone"
    if tok == "P":
        return "OPanic"
    if tok.startswith("S:"):
        _, r, l = tok.split(":")
        return "OSome %s %s" % (r, l)
    if tok.startswith("U:"):
        return "ORaw %s" % tok[2:]
    raise ValueError(tok)


def evaluate(cases):
    if not cases:
        return []
    ok, log, bindir = K.cargo_build("h_fxprof")
    if not ok:
        raise K.TieBroken("harness h_fxprof does not build against the current tree:\n" + log[-1500:])
    binp = os.path.join(bindir, "h_fxprof")
    obs = [None] * len(cases)
    for mode in ("direct", "profile"):
        idx = [i for i, c in enumerate(cases) if c["mode"] == mode]
        lines = [" ".join(" ".join(str(x) for x in it) for it in cases[i]["items"]) for i in idx]
        if not idx:
            continue
        rc, outl, err = K.run_lines(binp, ["lm-" + mode], lines)
        if rc != 0 or len(outl) != len(idx):
            raise K.TieBroken("h_fxprof lm-%s failed (rc=%s, %d/%d lines): %s" % (mode, rc, len(outl), len(idx), err[-500:]))
        for i, l in zip(idx, outl):
            obs[i] = l.split()
    terms = []
    for c, o in zip(cases, obs):
        acts = K.coq_list([_coq_action(it) for it in c["items"]])
        ob = K.coq_list([_coq_obs(t) for t in o])
        terms.append("(%s, %s)" % (acts, ob))
    shards = []
    for ch in K.chunked(terms, K.NCPU):
        shards.append("Definition cases : list (list action * list obs) := %s.\nEval vm_compute in (map (verdict true) cases).\n"
                      % K.coq_list(ch))
    try:
        res = K.coq_eval(PROP, "From SV Require Import Model.LibMappings Spec.LibMappingsSpec Tie.C11.\nOpen Scope N_scope.", shards)
    except RuntimeError as ex:
        raise K.TieBroken(str(ex))
    flat = [v for r in res for v in r]
    if len(flat) != len(cases):
        raise K.TieBroken("verdict count mismatch %d vs %d" % (len(flat), len(cases)))
    return flat


def known(case):
    return None


def describe(case):
    return {"mode": case["mode"], "ops": " ".join(" ".join(str(x) for x in it) for it in case["items"][:40])}


def distribution(cases):
    d = {"direct": 0, "profile": 0, "ops": {}, "len_hist": {}}
    for c in cases:
        d[c["mode"]] += 1
        b = min(len(c["items"]) // 20 * 20, 200)
        d["len_hist"][str(b)] = d["len_hist"].get(str(b), 0) + 1
        for it in c["items"]:
            d["ops"][it[0]] = d["ops"].get(it[0], 0) + 1
    return d


def run(out, tier, seed, replay):
    import sys
    K.standard_flow(out, sys.modules[__name__], tier, seed, replay)
