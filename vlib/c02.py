# C02 — attribution of frames to the library mapped at sample time (flush level).
# Model: coq/Model/Attribution.v (+ LibMappings.v); spec: coq/Spec/AttributionSpec.v; tie: harness/h_samply psd mode.
import os, re, sys
from . import common as K
from . import c02e

PROP = "C02"
RULE = ("cases = a queue of timestamped mapping operations (Add/Remove/Clear, a small tagged stream with Move and with unordered timestamps) and a list of "
        "samples (timestamp, call chain mixing ip / return / pre-adjusted return addresses, user and kernel frames, truncated-stack markers) pushed through "
        "ProcessSampleData::flush_samples_to_profile; mappings are added, overlapped, replaced, removed; op timestamps strictly before, EXACTLY AT and after the samples "
        "they could affect; frame addresses at every range boundary (start-1, start, start+1, end-1, end, end+1 - so that return-address-1 matters). "
        "Observed: each sample's resolved frames from the serialized JSON (lib + relative address, or raw address). "
        "non-trivial = some frame resolves into a library and some op is stamped at or after some sample")
TRUSTED = ["harness h_samply (samply/src/shared compiled in by #[path]) and its JSON read-back",
           "this check ties the flush half of C02; how the converter turns MMAP2/FORK records into queue operations (process.rs, converter.rs: relative start from page offset / ELF segments, "
           "inheritance across fork) is modelled and tied by the end-to-end perf.data check when present (see DESIGN.md)"]
ASSUMPTIONS = ["time-ordered queue and samples, non-empty ranges, relative addresses within 32 bits (cases outside are compared with the model only, verdict 3)",
               "jitdump / perf-map side tables are empty"]


def prove():
    return K.prove(PROP, extra_targets=["Tie/C02.vo"])


def gen(tier, rng, scale):
    quick = tier == "quick"
    cases = []
    for ci in range((900 if quick else 15000) * scale):
        tagged = rng.chance(1, 12)
        nops = rng.range(1, 12)
        t = rng.below(5)
        q = []
        ranges = []
        big = rng.chance(1, 10)
        for _ in range(nops):
            t += rng.choice([0, 0, 1, 2, 5])
            if tagged and rng.chance(1, 3):
                t = max(0, t - rng.range(1, 6))
            r = rng.below(100)
            if r < 75 or not ranges:
                base = (2**40 if big else 0)
                s = base + rng.below(40) * 16
                e = s + 16 * rng.range(1, 6)
                if ranges and rng.chance(1, 4):
                    s0, e0 = rng.choice(ranges)
                    s, e = rng.choice([(s0, e0), (e0, e0 + 32), (s0 + 8, e0 + 8), (max(0, s0 - 8), s0 + 8)])
                ranges.append((s, e))
                q.append([t, "A", s, e, rng.below(4096), rng.below(5)])
            elif r < 85:
                q.append([t, "R", rng.choice(ranges)[0]])
            elif r < 92:
                q.append([t, "C"])
            elif tagged:
                s0, e0 = rng.choice(ranges)
                ns = s0 + rng.choice([16, 1024])
                q.append([t, "V", s0, ns, ns + (e0 - s0)])
            else:
                q.append([t, "C"])
        tmax = t + 3
        ns = rng.range(1, 6)
        st = 0
        samples = []
        optimes = [o[0] for o in q]
        for _ in range(ns):
            st = max(st, rng.choice(optimes + [rng.below(tmax + 1)]) + rng.choice([-1, 0, 0, 0, 1]))
            if tagged and rng.chance(1, 4):
                st = max(0, st - rng.range(1, 5))
            st = max(0, st)
            nf = rng.range(1, 8)
            frames = []
            for _ in range(nf):
                if ranges and rng.chance(4, 5):
                    s0, e0 = rng.choice(ranges)
                    a = max(0, rng.choice([s0 - 1, s0, s0 + 1, e0 - 1, e0, e0 + 1, s0 + rng.below(max(1, e0 - s0))]))
                else:
                    a = rng.below(1000)
                k = rng.choice(["i", "r", "r", "r", "a", "I", "R", "A"]) if rng.chance(19, 20) else "t"
                frames.append(k + (str(a) if k != "t" else ""))
            samples.append([st, frames])
        cases.append({"q": q, "items": samples, "tag": "outside" if tagged else "main"})
    # end-to-end half: generated recordings through `samply import`
    erng = rng.fork("e2e")
    for _ in range((120 if quick else 2500) * scale):
        cases.append({"kind": "e2e", "items": c02e.gen_history(erng)})
    return cases


def with_items(case, items):
    c = {k: v for k, v in case.items() if not k.startswith("_")}
    c["items"] = items
    return c


def _e2e_valid(items):
    return items


def _line(c):
    t = []
    for o in c["q"]:
        t += ["M"] + [str(x) for x in o]
    for st, frames in c["items"]:
        t += ["S", str(st), "0"] + frames + [";"]
    return " ".join(t)


def _coq_q(o):
    t, k = o[0], o[1]
    if k == "A":
        return "(%d, QOp (Add (mkMapping %d %d %d %d)))" % (t, o[2], o[3], o[4], o[5])
    if k == "R":
        return "(%d, QOp (Remove %d))" % (t, o[2])
    if k == "C":
        return "(%d, QOp Clear)" % t
    return "(%d, QMove %d %d %d)" % (t, o[2], o[3], o[4])


def _coq_frame(f):
    if f == "t":
        return "SMarker"
    k, a = f[0], f[1:]
    md = "User" if k.islower() else "Kernel"
    return {"i": "SIp", "r": "SRet", "a": "SAdj"}[k.lower()] + " %s %s" % (a, md)


def _obs_frames(toks):
    out = []
    for t in toks:
        if t.startswith("L"):
            lib, rel = t[1:].split(":")
            out.append("RInLib %s %s" % (lib, rel))
        elif t.startswith("U"):
            body = t[1:]
            if "*" in body:
                a, rest = body.split("*")
                c, st = rest.split(":")
                for k in range(int(c)):
                    out.append("RRaw %d" % (int(a) + k * int(st)))
            else:
                out.append("RRaw %s" % body)
        else:
            out.append("RPanic")
    return out


_e2e_stats = {}


def evaluate(cases):
    if not cases:
        return []
    e2e = [(i, c) for i, c in enumerate(cases) if c.get("kind") == "e2e"]
    if e2e:
        rest = [(i, c) for i, c in enumerate(cases) if c.get("kind") != "e2e"]
        out = [None] * len(cases)
        for (i, _), v in zip(e2e, c02e.evaluate(PROP, [c for _, c in e2e], _e2e_stats)):
            out[i] = v
        for (i, _), v in zip(rest, evaluate([c for _, c in rest])):
            out[i] = v
        return out
    ok, log, bindir = K.cargo_build("h_samply")
    if not ok:
        raise K.TieBroken("harness h_samply does not build against the current tree:\n" + log[-1500:])
    rc, outl, err = K.run_lines(os.path.join(bindir, "h_samply"), ["psd"], [_line(c) for c in cases])
    if rc != 0 or len(outl) != len(cases):
        raise K.TieBroken("h_samply psd failed (rc=%s, %d/%d lines): %s" % (rc, len(outl), len(cases), err[-500:]))
    terms = []
    for c, l in zip(cases, outl):
        panicked = l.strip() == "P"
        per = [] if panicked else [p.split() for p in l.split("|")]
        if not panicked and len(per) != len(c["items"]):
            per = [p.split() for p in (l + " ").split("|")]
        obs = K.coq_list([K.coq_list(_obs_frames(p)) for p in per])
        q = K.coq_list([_coq_q(o) for o in c["q"]])
        ss = K.coq_list(["(%d, %s)" % (st, K.coq_list([_coq_frame(f) for f in frames])) for st, frames in c["items"]])
        terms.append("(%s, %s, %s, %s)" % (q, ss, obs, "true" if panicked else "false"))
    shards = ["Definition cases : list (list (N * qop) * list (N * list sframe) * list (list rframe) * bool) := %s.\nEval vm_compute in (map verdict cases).\n" % K.coq_list(ch)
              for ch in K.chunked(terms, K.NCPU)]
    try:
        res = K.coq_eval(PROP, "From SV Require Import Model.LibMappings Model.Attribution Tie.C02.\nOpen Scope N_scope.", shards)
    except RuntimeError as ex:
        raise K.TieBroken(str(ex))
    flat = [v for r in res for v in r]
    if len(flat) != len(cases):
        raise K.TieBroken("verdict count mismatch %d vs %d" % (len(flat), len(cases)))
    return flat


def known(case):
    return None


def describe(case):
    if case.get("kind") == "e2e":
        d = {"records": case["items"][:120]}
        if "_obs" in case:
            d["observed_samples"] = [[p, t, fr[:12]] for p, t, fr in case["_obs"][:20]]
        if "_out" in case:
            d["error"] = case["_out"]
        return d
    return {"queue": " ".join(" ".join(str(x) for x in o) for o in case["q"]), "samples": [[st, " ".join(fr)] for st, fr in case["items"]]}


def distribution(cases):
    d = {"main": 0, "outside": 0, "ops": {}, "op_at_sample_time": 0, "op_after_sample": 0, "frames": {}}
    d["e2e"] = dict(_e2e_stats)
    for c in cases:
        if c.get("kind") == "e2e":
            continue
        d[c["tag"]] += 1
        sts = [s[0] for s in c["items"]]
        for o in c["q"]:
            d["ops"][o[1]] = d["ops"].get(o[1], 0) + 1
            if o[0] in sts:
                d["op_at_sample_time"] += 1
            if any(o[0] > s for s in sts):
                d["op_after_sample"] += 1
        for _, fr in c["items"]:
            for f in fr:
                d["frames"][f[0]] = d["frames"].get(f[0], 0) + 1
    return d


def run(out, tier, seed, replay):
    K.standard_flow(out, sys.modules[__name__], tier, seed, replay)
