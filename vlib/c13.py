# C13 — chunk-cached file access.  Model: coq/Model/ChunkCache.v (spec inside); tie: harness/h_symbols cc mode.
import os, sys
from . import common as K

PROP = "C13"
CH = 32768
RULE = ("cases = (file length, positions of the two delimiter bytes, sequence of read_bytes_at(off,size) / read_bytes_at_until(start..end, delim) calls) on "
        "FileContentsWithChunkedCaching over an in-memory logging source; file lengths around multiples of the chunk size "
        "(0, 1, chunk-1, chunk, chunk+1, 2*chunk+-1, 5*chunk+7); reads straddling chunks, overlapping earlier partial buffers, starting inside a cached buffer and "
        "running past its end, at EOF, offset+size overflowing u64, empty ranges, delimited reads with the delimiter inside / at the edge of / beyond the range and beyond the 4096 limit, "
        "repeated with different range ends. Observed per call: Ok(n bytes, equal to the file at that offset?) | Err | panic. "
        "non-trivial = some buffer starts mid-chunk or the string cache was populated (measured on the model's final state)")
TRUSTED = ["RangeMap overwrite semantics modelled as newest-first list lookup; FrozenVec/Mutex not modelled (single-threaded histories)",
           "harness h_symbols/src/cc.rs compares the returned bytes with the file at the requested start (K/W)"]
ASSUMPTIONS = ["concurrent readers: the model takes each call as one atomic step (the two mutexes serialise the critical sections; C13_schedule_independent then covers every interleaving); "
               "the multi-threaded stream runs real threads against one cache and compares every answer with the specification - it samples schedules, it does not enumerate them",
               "round_up(value + CHUNK_SIZE - 1) overflowing u64 for files near 2^64 bytes is outside what is exercised"]


_state = {}


def prove():
    return K.prove(PROP, extra_targets=["Tie/C13.vo"])


def gen(tier, rng, scale):
    quick = tier == "quick"
    cases = []
    lens = [0, 1, CH - 1, CH, CH + 1, 2 * CH - 1, 2 * CH + 1, 5 * CH + 7, 100, 5000]
    for ci in range((700 if quick else 10000) * scale):
        flen = rng.choice(lens)
        nz = rng.range(0, 6)
        interesting = [0, 1, CH - 1, CH, CH + 1, 2 * CH - 1, 2 * CH, 3 * CH - 5, 4096, 4095, 4097]
        zs = sorted(set(min(max(0, rng.choice(interesting + [rng.below(flen + 1)]) + rng.range(-3, 3)), max(0, flen - 1)) for _ in range(nz))) if flen > 0 else []
        ts = sorted(set(rng.below(flen) for _ in range(rng.range(0, 3)))) if flen > 0 else []
        ts = [t for t in ts if t not in zs]
        n = rng.range(1, 25 if quick else 60)
        items = []
        starts = []
        for _ in range(n):
            r = rng.below(100)
            base = rng.choice(interesting + starts + [rng.below(flen + 2)])
            off = min(2**64 - 1, max(0, base + rng.range(-4, 4)))
            if r >= 96 and rng.chance(1, 2):
                # the source fails its next read once (a transient I/O error): the call that meets it may fail, and nothing of it may be remembered
                items.append(["X"])
                continue
            if r < 8:
                # read_bytes_into: appended to a destination that may already hold bytes (pdb::Source::view gathers several slices into one Vec)
                size = rng.choice([0, 1, 8, 100, 4096, CH, CH + 1])
                if rng.chance(1, 8) and flen >= off:
                    size = flen - off + rng.choice([0, 0, 1])
                if size > 4 * CH:
                    size = 4 * CH
                items.append(["I", off, size, rng.choice([0, 0, 1, 7, 4096])])
            elif r < 50:
                size = rng.choice([0, 1, 2, 7, 8, 100, 4096, CH - 1, CH, CH + 1, rng.below(3 * CH)])
                if rng.chance(1, 25):
                    off = 2**64 - rng.range(1, 5)
                    size = rng.range(1, 10)
                if rng.chance(1, 12) and flen >= off:
                    size = flen - off + rng.choice([0, 0, 1])
                items.append(["A", off, size])
            else:
                if zs and rng.chance(1, 2):
                    z = rng.choice(zs)
                    off = max(0, z - rng.choice([0, 1, 5, 40, 4094, 4095, 4096, 5000]))
                e = min(2**64 - 1, off + rng.choice([0, 0, 1, 3, 50, 4095, 4096, 4097, 10000]))
                if zs and rng.chance(1, 3):
                    e = rng.choice(zs) + rng.choice([0, 1, 2])
                if rng.chance(1, 10):
                    e = max(0, off - rng.range(1, 3))
                if rng.chance(1, 6):
                    e = flen + rng.choice([0, 0, 1])
                items.append(["U", off, e, rng.choice([0, 0, 0, 10])])
            starts.append(off)
        cases.append({"flen": flen, "zs": zs, "ts": ts, "items": items})
    # a plain read that spans more than two chunks leaves one long buffer behind; delimited reads are served from it at offsets of 64 KiB and
    # more into that buffer, and asked again (the second answer comes from the string cache)
    brng = rng.fork("bigbuf")
    for ci in range((120 if quick else 1500) * scale):
        flen = brng.choice([5 * CH + 7, 9 * CH + 3, 4 * CH])
        off0 = brng.choice([0, 1, CH - 1, CH, brng.below(CH)])
        size = min(flen - off0, 2 * CH + 1 + brng.below(2 * CH))
        items = [["A", off0, size]]
        zs = set()
        for _ in range(brng.range(1, 4)):
            d = 2 * CH + brng.below(max(1, size - 2 * CH)) if brng.chance(4, 5) else brng.below(size)
            uo = off0 + d
            z = min(flen - 1, uo + brng.choice([0, 1, 5, 60, 300, 4095]))
            zs.add(z)
            e = min(flen, z + brng.choice([1, 1, 2, 50]))
            call = ["U", uo, e, 0]
            items.append(list(call))
            if brng.chance(1, 3):
                items.append(["A", brng.below(flen), brng.choice([1, 8, 100])])
            items.append(list(call))
        cases.append({"flen": flen, "zs": sorted(zs), "ts": [], "items": items})
    # several threads on one shared cache, released together, many rounds per case: each thread starts with reads of chunks nobody has read yet
    # (simultaneous misses), then re-reads its own and the others' ranges; the last element of a call is its thread
    mrng = rng.fork("threads")
    for ci in range((40 if quick else 600) * scale):
        nth = mrng.choice([2, 4, 8, 8])
        nchunks = mrng.choice([nth, nth + 1, 2 * nth])
        flen = nchunks * CH + mrng.choice([0, 0, 7, CH // 2])
        zs = sorted(set(mrng.below(flen) for _ in range(mrng.range(0, 4))))
        items = []
        for t in range(nth):
            k = t % nchunks
            for j in range(mrng.range(1, 5)):
                if j and mrng.chance(1, 2):
                    k = mrng.below(nchunks)
                off = k * CH + mrng.choice([0, 1, 100, CH - 8, mrng.below(CH)])
                if mrng.chance(1, 5) and zs:
                    z = mrng.choice(zs)
                    items.append(["U", max(0, z - mrng.choice([0, 3, 50])), min(flen, z + mrng.choice([1, 2, 60])), 0, t])
                else:
                    items.append(["A", off, mrng.choice([1, 8, 71, 4096, CH, CH + 1]) if off + CH + 1 <= flen else mrng.choice([1, 8]), t])
        cases.append({"flen": flen, "zs": zs, "ts": [], "items": items, "mt": True, "rounds": 150 if quick else 400})
    return cases


def with_items(case, items):
    c = dict(case)
    c["items"] = items
    return c


def _line(c):
    t = ["F", str(c["flen"])]
    for z in c["zs"]:
        t += ["Z", str(z)]
    for z in c["ts"]:
        t += ["T", str(z)]
    for it in c["items"]:
        t += [str(x) for x in it]
    return " ".join(t)


def _coq_op(it):
    if it[0] == "I":
        return "ReadInto %d %d" % (it[1], it[2])
    return ("ReadAt %d %d" % (it[1], it[2])) if it[0] == "A" else ("ReadUntil %d %d %d" % (it[1], it[2], it[3]))


def _coq_obs(tok):
    if tok[0] == "K":
        return "OK %s" % tok[1:]
    if tok[0] == "W":
        return "OW %s" % tok[1:]
    if tok[0] == "D":
        return "OW 0"            # the outcome of one call differed between rounds of a multi-threaded case
    return {"E": "OE", "P": "OP"}[tok]


def _threads(c):
    th = {}
    for it in c["items"]:
        th.setdefault(it[-1], []).append(it[:-1])
    return [th[k] for k in sorted(th)]


def _evaluate_mt(cases, binp):
    lines = []
    for c in cases:
        t = ["F", str(c["flen"])]
        for z in c["zs"]:
            t += ["Z", str(z)]
        t += ["R", str(c.get("rounds", 100))]
        for ops in _threads(c):
            t.append("X")
            for it in ops:
                t += [str(x) for x in it]
        lines.append(" ".join(t))
    rc, outl, err = K.run_lines(binp, ["ccmt"], lines, timeout=3000)
    if rc != 0 or len(outl) != len(cases):
        raise K.TieBroken("h_symbols ccmt failed (rc=%s, %d/%d lines): %s" % (rc, len(outl), len(cases), err[-500:]))
    terms = []
    st = _state.setdefault("mt", {"cases": 0, "threads": 0, "calls": 0, "rounds": 0})
    for c, l in zip(cases, outl):
        ths = _threads(c)
        obs = [x.split() for x in l.split(" / ")] if ths else []
        if len(obs) != len(ths):
            obs = [["P"] * len(o) for o in ths]
        st["cases"] += 1
        st["threads"] += len(ths)
        st["calls"] += sum(len(o) for o in ths)
        st["rounds"] += c.get("rounds", 100)
        c["_out"] = l[:300]
        terms.append("(%d, %s, [], %s)" % (c["flen"], K.coq_list([str(z) for z in c["zs"]]),
                                           K.coq_list(["(%s, %s)" % (K.coq_list([_coq_op(it) for it in o]), K.coq_list([_coq_obs(t) for t in b])) for o, b in zip(ths, obs)])))
    shards = ["Definition cases : list (N * list N * list N * list (list op * list obs)) := %s.\nEval vm_compute in (map verdict_mt cases).\n" % K.coq_list(ch)
              for ch in K.chunked(terms, K.NCPU)]
    try:
        res = K.coq_eval(PROP, "From SV Require Import Model.ChunkCache Tie.C13.\nOpen Scope N_scope.", shards)
    except RuntimeError as ex:
        raise K.TieBroken(str(ex))
    flat = [v for r in res for v in r]
    if len(flat) != len(cases):
        raise K.TieBroken("verdict count mismatch %d vs %d" % (len(flat), len(cases)))
    return flat


def _evaluate_f(cases, binp):
    """histories with injected source failures (X calls): the model with a failing source (run_f) and the specification, Tie verdict_f"""
    rc, outl, err = K.run_lines(binp, ["cc"], [_line(c) for c in cases])
    if rc != 0 or len(outl) != len(cases):
        raise K.TieBroken("h_symbols cc failed (rc=%s, %d/%d lines): %s" % (rc, len(outl), len(cases), err[-500:]))
    st = _state.setdefault("source_failures", {"injected": 0, "calls_that_met_one": 0})
    terms = []
    for c, l in zip(cases, outl):
        res = l.split("|")[0].split()
        evs, obs, armed = [], [], False
        for it, t in zip(c["items"], res):
            if it[0] == "X":
                armed = True
                st["injected"] += 1
                continue
            met = t.endswith("!")
            st["calls_that_met_one"] += 1 if met else 0
            evs.append("(%s, %s)" % ("true" if armed else "false", _coq_op(it)))
            obs.append("(%s, %s)" % (_coq_obs(t.rstrip("!")), "true" if met else "false"))
            armed = False
        terms.append("(%d, %s, %s, %s, %s)" % (c["flen"], K.coq_list([str(z) for z in c["zs"]]), K.coq_list([str(z) for z in c["ts"]]), K.coq_list(evs), K.coq_list(obs)))
    shards = ["Definition cases : list (N * list N * list N * list (bool * op) * list (obs * bool)) := %s.\nEval vm_compute in (map verdict_f cases).\n" % K.coq_list(ch)
              for ch in K.chunked(terms, K.NCPU)]
    try:
        res = K.coq_eval(PROP, "From SV Require Import Model.ChunkCache Tie.C13.\nOpen Scope N_scope.", shards)
    except RuntimeError as ex:
        raise K.TieBroken(str(ex))
    flat = [v for r in res for v in r]
    if len(flat) != len(cases):
        raise K.TieBroken("verdict count mismatch %d vs %d" % (len(flat), len(cases)))
    return flat


def evaluate(cases):
    if not cases:
        return []
    ok, log, bindir = K.cargo_build("h_symbols")
    if not ok:
        raise K.TieBroken("harness h_symbols does not build against the current tree:\n" + log[-1500:])
    fx = [(i, c) for i, c in enumerate(cases) if not c.get("mt") and any(it[0] == "X" for it in c["items"])]
    if fx:
        out = [None] * len(cases)
        for (i, _), v in zip(fx, _evaluate_f([c for _, c in fx], os.path.join(bindir, "h_symbols"))):
            out[i] = v
        rest = [(i, c) for i, c in enumerate(cases) if (i, c) not in fx]
        for (i, _), v in zip(rest, evaluate([c for _, c in rest])):
            out[i] = v
        return out
    mt = [(i, c) for i, c in enumerate(cases) if c.get("mt")]
    if mt:
        out = [None] * len(cases)
        for (i, _), v in zip(mt, _evaluate_mt([c for _, c in mt], os.path.join(bindir, "h_symbols"))):
            out[i] = v
        rest = [(i, c) for i, c in enumerate(cases) if not c.get("mt")]
        for (i, _), v in zip(rest, evaluate([c for _, c in rest])):
            out[i] = v
        return out
    rc, outl, err = K.run_lines(os.path.join(bindir, "h_symbols"), ["cc"], [_line(c) for c in cases])
    if rc != 0 or len(outl) != len(cases):
        raise K.TieBroken("h_symbols cc failed (rc=%s, %d/%d lines): %s" % (rc, len(outl), len(cases), err[-500:]))
    terms = []
    for c, l in zip(cases, outl):
        res = l.split("|")[0].split()
        keep = list(zip(c["items"], res))
        terms.append("(%d, %s, %s, %s, %s)" % (c["flen"], K.coq_list([str(z) for z in c["zs"]]), K.coq_list([str(z) for z in c["ts"]]),
                                               K.coq_list([_coq_op(it) for it, _ in keep]), K.coq_list([_coq_obs(t) for _, t in keep])))
    shards = ["Definition cases : list (N * list N * list N * list op * list obs) := %s.\nEval vm_compute in (map verdict cases).\n" % K.coq_list(ch)
              for ch in K.chunked(terms, K.NCPU)]
    try:
        res = K.coq_eval(PROP, "From SV Require Import Model.ChunkCache Tie.C13.\nOpen Scope N_scope.", shards)
    except RuntimeError as ex:
        raise K.TieBroken(str(ex))
    flat = [v for r in res for v in r]
    if len(flat) != len(cases):
        raise K.TieBroken("verdict count mismatch %d vs %d" % (len(flat), len(cases)))
    return flat


def known(case):
    return None


def describe(case):
    d = {"file_len": case["flen"], "zero_bytes_at": case["zs"], "calls": " ".join(" ".join(str(x) for x in it) for it in case["items"][:20])}
    if case.get("mt"):
        d["threads"] = "the last number of every call is its thread; all threads start together on one fresh cache, %d rounds" % case.get("rounds", 100)
        d["observed"] = case.get("_out")
    return d


def distribution(cases):
    d = {"file_lens": {}, "calls": {"A": 0, "U": 0, "I": 0, "X": 0}, "empty_until": 0, "overflowing": 0, "oob": 0}
    for c in cases:
        d["file_lens"][str(c["flen"])] = d["file_lens"].get(str(c["flen"]), 0) + 1
        for it in c["items"]:
            d["calls"][it[0]] += 1
            if c.get("mt") or it[0] == "X":
                continue
            if it[0] == "U" and it[1] == it[2]:
                d["empty_until"] += 1
            if it[0] == "A" and it[1] + it[2] >= 2**64:
                d["overflowing"] += 1
            elif it[0] == "A" and it[1] + it[2] > c["flen"]:
                d["oob"] += 1
    d["multi_threaded"] = _state.get("mt", {})
    d["source_failures"] = _state.get("source_failures", {})
    return d


def run(out, tier, seed, replay):
    K.standard_flow(out, sys.modules[__name__], tier, seed, replay)
