# Shared machinery for ./check: Coq build + audit, harness build, case evaluation inside Coq,
# decision rule, evidence writer.  See DESIGN.md section 2.
import fcntl, hashlib, json, os, re, subprocess, sys, time, shutil
from concurrent.futures import ThreadPoolExecutor

VERIF = os.path.dirname(os.path.dirname(os.path.abspath(__file__)))
REPO = os.environ.get("VERIF_REPO", "/repo")
CACHE = os.path.join(VERIF, ".cache")
COQ = os.path.join(VERIF, "coq")
HARNESS = os.path.join(VERIF, "harness")
TARGET = os.path.join(CACHE, "target")
SCRATCH = os.path.join(CACHE, "scratch")
NCPU = os.cpu_count() or 4

ALLOWED_AXIOMS = {
    # standard-library axioms that may appear (named in the trusted base when they do)
    "FunctionalExtensionality.functional_extensionality_dep",
    "functional_extensionality_dep",
    "Eqdep.Eq_rect_eq.eq_rect_eq",
    "ProofIrrelevance.proof_irrelevance",
    "Classical_Prop.classic",
    "JMeq.JMeq_eq",
}


class SplitMix64:
    def __init__(self, seed):
        self.s = seed & 0xFFFFFFFFFFFFFFFF

    def next(self):
        self.s = (self.s + 0x9E3779B97F4A7C15) & 0xFFFFFFFFFFFFFFFF
        z = self.s
        z = ((z ^ (z >> 30)) * 0xBF58476D1CE4E5B9) & 0xFFFFFFFFFFFFFFFF
        z = ((z ^ (z >> 27)) * 0x94D049BB133111EB) & 0xFFFFFFFFFFFFFFFF
        return z ^ (z >> 31)

    def below(self, n):
        return self.next() % n if n > 0 else 0

    def range(self, lo, hi):  # inclusive
        return lo + self.below(hi - lo + 1)

    def choice(self, xs):
        return xs[self.below(len(xs))]

    def chance(self, num, den):
        return self.below(den) < num

    def fork(self, tag):
        h = int.from_bytes(hashlib.sha256(("%d/%s" % (self.s, tag)).encode()).digest()[:8], "little")
        return SplitMix64(h)


class lock:
    def __init__(self, name):
        os.makedirs(CACHE, exist_ok=True)
        self.path = os.path.join(CACHE, name + ".lock")

    def __enter__(self):
        self.f = open(self.path, "w")
        fcntl.flock(self.f, fcntl.LOCK_EX)

    def __exit__(self, *a):
        fcntl.flock(self.f, fcntl.LOCK_UN)
        self.f.close()


def sh(cmd, cwd=None, timeout=None, env=None, input=None):
    e = dict(os.environ)
    e.setdefault("CARGO_NET_OFFLINE", "true")
    if env:
        e.update(env)
    p = subprocess.run(cmd, cwd=cwd, shell=isinstance(cmd, str), stdout=subprocess.PIPE, stderr=subprocess.STDOUT,
                       timeout=timeout, env=e, input=input, text=True, errors="replace")
    return p.returncode, p.stdout


# --------------------------------------------------------------------------- Coq

def write_if_changed(path, content):
    try:
        if open(path).read() == content:
            return False
    except FileNotFoundError:
        pass
    os.makedirs(os.path.dirname(path), exist_ok=True)
    with open(path, "w") as f:
        f.write(content)
    return True


def regen_consts():
    """Regenerate coq/Generated/Consts.v from /repo.  Returns (ok, message, consts dict)."""
    sys.path.insert(0, os.path.join(VERIF, "tools"))
    import consts
    try:
        text, values = consts.generate(REPO)
    except consts.ConstError as ex:
        return False, str(ex), {}
    write_if_changed(os.path.join(COQ, "Generated", "Consts.v"), text)
    # the second translator: samply/src/shared/context_switch.rs -> Generated/ContextSwitchGen.v (C12).  When the source can no longer be
    # translated the previous file stays in place (so that everything else still builds) and the error is a broken obligation of C12.
    import xlate_cs
    try:
        gen = xlate_cs.generate(open(os.path.join(REPO, "samply", "src", "shared", "context_switch.rs")).read())
        write_if_changed(os.path.join(COQ, "Generated", "ContextSwitchGen.v"), gen)
        values["context_switch_translation"] = "ok (%d lines)" % gen.count("\n")
    except (xlate_cs.XlateError, OSError, IndexError, ValueError) as ex:
        values.setdefault("_errors", {})["context_switch_translation"] = "samply/src/shared/context_switch.rs: %s" % ex
    # the third translator: samply/src/shared/stack_depth_limiting_frame_iter.rs -> Generated/FrameLimitGen.v (C14), same rules
    import xlate_fl
    try:
        gen = xlate_fl.generate(open(os.path.join(REPO, "samply", "src", "shared", "stack_depth_limiting_frame_iter.rs")).read())
        write_if_changed(os.path.join(COQ, "Generated", "FrameLimitGen.v"), gen)
        values["frame_limit_translation"] = "ok (%d lines)" % gen.count("\n")
    except (xlate_fl.XlateError, OSError, IndexError, ValueError, KeyError, TypeError) as ex:
        values.setdefault("_errors", {})["frame_limit_translation"] = "samply/src/shared/stack_depth_limiting_frame_iter.rs: %s" % ex
    # the fourth translator: fxprof-processed-profile/src/lib_mappings.rs -> Generated/LibMappingsGen.v (C11), same rules
    import xlate_lm
    try:
        gen = xlate_lm.generate(open(os.path.join(REPO, "fxprof-processed-profile", "src", "lib_mappings.rs")).read())
        write_if_changed(os.path.join(COQ, "Generated", "LibMappingsGen.v"), gen)
        values["lib_mappings_translation"] = "ok (%d lines)" % gen.count("\n")
    except (xlate_lm.XlateError, OSError, IndexError, ValueError, KeyError, TypeError) as ex:
        values.setdefault("_errors", {})["lib_mappings_translation"] = "fxprof-processed-profile/src/lib_mappings.rs: %s" % ex
    # the fifth translator: samply/src/linux_shared/svma_file_range.rs -> Generated/VmaBiasGen.v (C02), same rules
    import xlate_vb
    try:
        gen = xlate_vb.generate(open(os.path.join(REPO, "samply", "src", "linux_shared", "svma_file_range.rs")).read())
        write_if_changed(os.path.join(COQ, "Generated", "VmaBiasGen.v"), gen)
        values["vma_bias_translation"] = "ok (%d lines)" % gen.count("\n")
    except (xlate_vb.XlateError, OSError, IndexError, ValueError, KeyError, TypeError) as ex:
        values.setdefault("_errors", {})["vma_bias_translation"] = "samply/src/linux_shared/svma_file_range.rs: %s" % ex
    # the sixth translator: samply/src/shared/lib_mappings.rs -> Generated/OpQueueGen.v (C02), same rules
    import xlate_ho
    try:
        gen = xlate_ho.generate(open(os.path.join(REPO, "samply", "src", "shared", "lib_mappings.rs")).read())
        write_if_changed(os.path.join(COQ, "Generated", "OpQueueGen.v"), gen)
        values["op_queue_translation"] = "ok (%d lines)" % gen.count("\n")
    except (xlate_ho.XlateError, OSError, IndexError, ValueError, KeyError, TypeError) as ex:
        values.setdefault("_errors", {})["op_queue_translation"] = "samply/src/shared/lib_mappings.rs: %s" % ex
    # the seventh translator: fxprof-processed-profile/src/sample_table.rs -> Generated/SampleTableGen.v (C04), same rules
    import xlate_st
    try:
        gen = xlate_st.generate(open(os.path.join(REPO, "fxprof-processed-profile", "src", "sample_table.rs")).read())
        write_if_changed(os.path.join(COQ, "Generated", "SampleTableGen.v"), gen)
        values["sample_table_translation"] = "ok (%d lines)" % gen.count("\n")
    except (xlate_st.XlateError, OSError, IndexError, ValueError, KeyError, TypeError) as ex:
        values.setdefault("_errors", {})["sample_table_translation"] = "fxprof-processed-profile/src/sample_table.rs: %s" % ex
    return True, "", values


def coq_build(targets, timeout=1500):
    """make the given .vo targets (cone only).  Returns (ok, log)."""
    with lock("coq"):
        mk = os.path.join(COQ, "Makefile")
        cp = os.path.join(COQ, "_CoqProject")
        if not os.path.exists(mk) or os.path.getmtime(mk) < os.path.getmtime(cp):
            rc, out = sh("coq_makefile -f _CoqProject -o Makefile", cwd=COQ)
            if rc != 0:
                return False, out
        try:
            # -k: a broken proof file must not keep the other targets (the tie in particular) from being built
            rc, out = sh(["make", "-k", "-j%d" % NCPU] + targets, cwd=COQ, timeout=timeout)
        except subprocess.TimeoutExpired:
            return False, "coq build timed out"
        return rc == 0, out


FORBIDDEN = re.compile(r"\b(Admitted|admit|Axiom|Axioms|Parameter|Parameters|Conjecture|Conjectures|Hypothesis|Hypotheses|Variable|Variables|Abort)\b|Unset Guard|bypass_check|type-in-type|impredicative-set|Admit Obligations|Unset Universe|Unset Positivity")


def strip_comments(text):
    out, depth, i = [], 0, 0
    while i < len(text):
        if text.startswith("(*", i):
            depth += 1
            i += 2
        elif text.startswith("*)", i) and depth > 0:
            depth -= 1
            i += 2
        else:
            if depth == 0:
                out.append(text[i])
            i += 1
    return "".join(out)


def grep_gate(files):
    """No Admitted/Axiom/... anywhere; Variable/Hypothesis only inside a Section."""
    problems = []
    for f in files:
        text = strip_comments(open(f).read())
        depth = 0
        for ln, line in enumerate(text.split("\n"), 1):
            if re.match(r"\s*Section\b", line):
                depth += 1
            if re.match(r"\s*End\b", line) and depth > 0:
                depth -= 1
            for m in FORBIDDEN.finditer(line):
                w = m.group(0)
                if w in ("Variable", "Variables", "Hypothesis", "Hypotheses") and depth > 0:
                    continue
                if w == "Abort":
                    continue
                problems.append("%s:%d: %s" % (os.path.relpath(f, VERIF), ln, w))
    return problems


def cone_files(prop_file):
    """The SV .v files the property file depends on (transitively), via coqdep."""
    seen, todo = [], [prop_file]
    while todo:
        f = todo.pop()
        if f in seen:
            continue
        seen.append(f)
        rc, out = sh(["coqdep", "-Q", ".", "SV", f], cwd=COQ)
        for line in out.split("\n"):
            if line.startswith(f + "o") or line.startswith(f[:-2] + ".vo"):
                for dep in line.split(":", 1)[1].split():
                    if dep.endswith(".vo"):
                        v = dep[:-1]
                        if os.path.exists(os.path.join(COQ, v)):
                            todo.append(v)
    return sorted(seen)


def theorems_in(path):
    text = strip_comments(open(path).read())
    return re.findall(r"^\s*(?:Theorem|Lemma|Corollary|Example|Fact|Remark)\s+([A-Za-z_][\w']*)", text, re.M)


def coq_audit(prop_id, prop_module, names):
    """Print Assumptions for every named theorem, in a fresh coqc run against the compiled .vo files."""
    os.makedirs(SCRATCH, exist_ok=True)
    d = os.path.join(SCRATCH, "audit_%s_%d" % (prop_id, os.getpid()))
    os.makedirs(d, exist_ok=True)
    src = "From SV Require Import %s.\n" % prop_module
    for n in names:
        src += 'Print Assumptions %s.\n' % n
    p = os.path.join(d, "Audit.v")
    open(p, "w").write(src)
    rc, out = sh(["coqc", "-noglob", "-Q", COQ, "SV", p], cwd=d, timeout=300)
    shutil.rmtree(d, ignore_errors=True)
    if rc != 0:
        return False, {}, out
    # the Require itself replays the Print Assumptions of the module?  No: only ours are printed.
    blocks = re.split(r"(?=Closed under the global context|Axioms:)", out)
    results = []
    for b in blocks:
        if b.startswith("Closed under"):
            results.append([])
        elif b.startswith("Axioms:"):
            axs = re.findall(r"^([A-Za-z_][\w.']*)\s*:", b[len("Axioms:"):], re.M)
            results.append(axs)
    if len(results) != len(names):
        return False, {}, "audit: expected %d assumption blocks, got %d\n%s" % (len(names), len(results), out)
    return True, dict(zip(names, results)), out


class ProofResult:
    def __init__(self):
        self.ok = False
        self.obligations = 0
        self.discharged = 0
        self.theorems = []
        self.axioms = {}
        self.problems = []
        self.log = ""
        self.cone = []
        self.consts = {}


def prove(prop_id, extra_targets=()):
    """Regenerate constants, build the property's cone, audit it."""
    r = ProofResult()
    ok, msg, values = regen_consts()
    r.consts = values
    if not ok:
        r.problems.append("constants translator: " + msg)
        return r
    prop_file = "Properties/%s.v" % prop_id
    r.cone = cone_files(prop_file)
    files = [os.path.join(COQ, f) for f in r.cone]
    r.problems += grep_gate(files)
    # an extraction error is a broken obligation for every property whose cone (or tie) mentions the constant; Consts.v then
    # carries the last known value so that the model still evaluates and the search for a failing input can run
    errs = values.get("_errors", {})
    if errs:
        import consts as _consts
        texts = ""
        for f in files + [os.path.join(COQ, t.replace(".vo", ".v")) for t in extra_targets]:
            try:
                texts += open(f).read()
            except OSError:
                pass
        for name, msg in sorted(errs.items()):
            if any(re.search(r"\b%s\b" % re.escape(i), texts) for i in _consts.idents_of(name)):
                r.problems.append("translator: %s can no longer be extracted from the source (%s)" % (name, msg))
    # transcription pins: the Rust items the hand-written model was transcribed from must still have the text it was transcribed from
    # (comments and whitespace apart); an edited item is a broken obligation, and the correspondence run then looks for a failing input
    import pins as _pins
    pin_problems = _pins.check(REPO, prop_id)
    r.problems += pin_problems
    r.consts = dict(r.consts)
    r.consts["transcription_pins"] = {"items": len(_pins.SPEC.get(prop_id, [])), "edited": len(pin_problems)}
    names_all = []
    for f in files:
        names_all += theorems_in(f)
    r.obligations = len(names_all)
    ok, log = coq_build([prop_file + "o"] + [t for t in extra_targets])
    r.log = log
    if not ok:
        m = re.search(r'File "([^"]+)", line (\d+)', log)
        where = ("%s:%s" % (m.group(1), m.group(2))) if m else "?"
        r.problems.append("coq build failed at " + where)
        r.discharged = 0
        return r
    r.theorems = theorems_in(os.path.join(COQ, prop_file))
    pinned = [n for n in r.theorems if n.startswith(prop_id + "_")]
    ok, axioms, out = coq_audit(prop_id, "Properties." + prop_id, pinned)
    if not ok:
        r.problems.append("assumption audit failed: " + out[-400:])
        return r
    r.axioms = axioms
    for n, axs in axioms.items():
        for a in axs:
            if a not in ALLOWED_AXIOMS:
                r.problems.append("theorem %s depends on non-allow-listed axiom %s" % (n, a))
    r.theorems = pinned
    r.discharged = r.obligations if not r.problems else 0
    r.ok = not r.problems
    return r


def coq_eval(prop_id, imports, shards, timeout=900):
    """shards: list of Coq source bodies (after the imports) each ending in one or more
    `Eval vm_compute in ...` whose printed value is a list of N.  Returns list (per shard) of lists of ints
    (concatenating all Evals of the shard), or raises RuntimeError with the coqc output."""
    os.makedirs(SCRATCH, exist_ok=True)
    # the compiled files the cases import must be consistent with each other and with the regenerated Generated/*.v of this run
    # (a regenerated constant recompiles Consts.vo; a tie that was not among the build targets would then be stale)
    mods = re.findall(r"\b((?:Lib|Generated|Model|Spec|Proofs|Tie|Properties)\.[A-Za-z0-9_]+)\b", imports)
    if mods:
        ok, log = coq_build(sorted(set(m.replace(".", "/") + ".vo" for m in mods)))
        if not ok:
            raise RuntimeError("the files the cases import do not build:\n" + log[-1500:])
    d = os.path.join(SCRATCH, "eval_%s_%d" % (prop_id, os.getpid()))
    shutil.rmtree(d, ignore_errors=True)
    os.makedirs(d)

    def one(i):
        p = os.path.join(d, "Cases%d.v" % i)
        with open(p, "w") as f:
            f.write(imports + "\n" + shards[i])
        rc, out = sh("ulimit -s unlimited 2>/dev/null || ulimit -s 1000000 2>/dev/null; exec coqc -noglob -Q '%s' SV '%s'" % (COQ, p), cwd=d, timeout=timeout)
        if rc != 0:
            raise RuntimeError("coqc failed on shard %d:\n%s" % (i, out[-2000:]))
        vals = []
        for blk in re.findall(r"=\s*(\[[^:]*?\]|nil)\s*:", out, re.S):
            vals += [int(x) for x in re.findall(r"\d+", blk.replace("%N", ""))]
        return vals

    try:
        with ThreadPoolExecutor(max_workers=NCPU) as ex:
            res = list(ex.map(one, range(len(shards))))
    finally:
        shutil.rmtree(d, ignore_errors=True)
    return res


def case_defs(ty, terms, fn="verdict"):
    """One Definition per case (keeps each term small), then a single Eval over all of them."""
    src = []
    for i, t in enumerate(terms):
        src.append("Definition case_%d : %s := %s." % (i, ty, t))
    src.append("Eval vm_compute in %s." % coq_list(["%s case_%d" % (fn, i) for i in range(len(terms))]))
    return "\n".join(src) + "\n"


def chunked(xs, n):
    k = max(1, (len(xs) + n - 1) // n)
    return [xs[i:i + k] for i in range(0, len(xs), k)]


def coq_list(items):
    return "[" + "; ".join(items) + "]"


# --------------------------------------------------------------------------- cargo

def cargo_build(package, release=False, hooks=True, bins=None, timeout=3000):
    """Build a harness package against /repo's current working tree.  Returns (ok, log, dir with binaries)."""
    with lock("cargo"):
        lockfile = os.path.join(HARNESS, "Cargo.lock")
        src = os.path.join(REPO, "Cargo.lock")
        stamp = os.path.join(CACHE, "lock.stamp")
        h = hashlib.sha256(open(src, "rb").read()).hexdigest()
        if not os.path.exists(lockfile) or not os.path.exists(stamp) or open(stamp).read() != h:
            shutil.copy(src, lockfile)
            os.makedirs(CACHE, exist_ok=True)
            open(stamp, "w").write(h)
        cmd = ["cargo", "build", "--offline", "-p", package]
        if release:
            cmd.append("--release")
        env = {"CARGO_TARGET_DIR": TARGET + ("-hooks" if hooks else "")}
        if hooks:
            env["RUSTFLAGS"] = "--cfg samply_verif"
        try:
            rc, out = sh(cmd, cwd=HARNESS, env=env, timeout=timeout)
        except subprocess.TimeoutExpired:
            return False, "cargo build timed out", None
        return rc == 0, out, os.path.join(env["CARGO_TARGET_DIR"], "release" if release else "debug")


def cargo_build_samply(timeout=3000):
    """Build the samply binary itself from /repo's current working tree (with the hook cfg).  Returns (ok, log, path)."""
    with lock("cargo"):
        env = {"CARGO_TARGET_DIR": os.path.join(CACHE, "target-samply"), "RUSTFLAGS": "--cfg samply_verif"}
        try:
            rc, out = sh(["cargo", "build", "--offline", "-p", "samply"], cwd=REPO, env=env, timeout=timeout)
        except subprocess.TimeoutExpired:
            return False, "cargo build -p samply timed out", None
        return rc == 0, out, os.path.join(env["CARGO_TARGET_DIR"], "debug", "samply")


def run_lines(binpath, args, lines, timeout=600, env=None):
    inp = "\n".join(lines) + "\n"
    e = dict(os.environ)
    if env:
        e.update(env)
    p = subprocess.run([binpath] + args, input=inp, stdout=subprocess.PIPE, stderr=subprocess.PIPE, text=True,
                       timeout=timeout, env=e)
    out = p.stdout.split("\n")
    if out and out[-1] == "":
        out.pop()
    return p.returncode, out, p.stderr


# --------------------------------------------------------------------------- findings, evidence, verdicts

def load_known_findings(prop_id):
    p = os.path.join(VERIF, "known_findings.json")
    if not os.path.exists(p):
        return []
    data = json.load(open(p))
    return [f for f in data.get("findings", []) if f.get("property") == prop_id]


def known_line(prop_id, finding_id):
    """The report text of an OPEN finding listed in the committed known_findings.json, or None (then nothing is suppressed)."""
    for f in load_known_findings(prop_id):
        if f.get("id") == finding_id and f.get("status") == "open":
            return f.get("line") or finding_id
    return None


class Outcome:
    """Accumulates what a check run saw and produces exit code, VIOLATION lines and the evidence file."""

    def __init__(self, prop_id, tier, seed):
        self.prop = prop_id
        self.tier = tier
        self.seed = seed
        self.t0 = time.time()
        self.violations = []      # (replay_path, no_failing_input: bool)
        self.known = []           # strings
        self.cov = {}
        self.assumptions = []
        self.proof = None

    def replay_path(self, tag, payload):
        os.makedirs(os.path.join(VERIF, "replays"), exist_ok=True)
        blob = json.dumps(payload, sort_keys=True)
        h = hashlib.sha256(blob.encode()).hexdigest()[:12]
        rel = "replays/%s-%s-%s.json" % (self.prop, tag, h)
        with open(os.path.join(VERIF, rel), "w") as f:
            json.dump(payload, f, indent=1, sort_keys=True)
        return rel

    def violation(self, payload, no_failing_input=False):
        tag = "nofail" if no_failing_input else "fail"
        payload = dict(payload)
        payload["property"] = self.prop
        payload["no_failing_input_found"] = no_failing_input
        rel = self.replay_path(tag, payload)
        self.violations.append((rel, no_failing_input))

    def known_finding(self, text):
        if text not in self.known:
            self.known.append(text)

    def finish(self, level="proof"):
        pr = self.proof
        cov = dict(self.cov)
        if pr is not None:
            cov.setdefault("obligations", pr.obligations)
            cov.setdefault("discharged", pr.discharged)
            cov.setdefault("checker_cmd", "make -C coq Properties/%s.vo (coqc 8.16.1, full .vo build) + coqc Print Assumptions audit + grep gate" % self.prop)
            cov.setdefault("theorems", pr.theorems)
            cov.setdefault("axioms_per_theorem", pr.axioms)
            cov.setdefault("cone", pr.cone)
            cov.setdefault("proof_problems", pr.problems)
            cov.setdefault("constants_from_source", pr.consts)
        cov.setdefault("trusted_base", [])
        cov.setdefault("samples", [])
        ev = {
            "property_id": self.prop,
            "tier": self.tier,
            "seed": self.seed,
            "level": level,
            "coverage": cov,
            "assumptions": self.assumptions,
            "wall_s": round(time.time() - self.t0, 2),
            "violations": len(self.violations),
            "known_findings_reported": self.known,
        }
        os.makedirs(os.path.join(VERIF, "evidence"), exist_ok=True)
        with open(os.path.join(VERIF, "evidence", "%s.json" % self.prop), "w") as f:
            json.dump(ev, f, indent=1, sort_keys=True)
        for k in self.known:
            print("KNOWN-FINDING: property=%s %s" % (self.prop, k))
        for rel, nofail in self.violations:
            print("VIOLATION property=%s replay=%s%s" % (self.prop, rel, " no-failing-input-found" if nofail else ""))
        sys.stdout.flush()
        return 1 if self.violations else 0


BASE_TRUST = [
    "Coq 8.16.1 kernel (coqc; vm_compute used for closed computations and for evaluating the model on cases; no native_compute)",
    "Print Assumptions audit: every pinned theorem must be 'Closed under the global context' (or use only allow-listed stdlib axioms, listed in axioms_per_theorem)",
    "the hand-written Gallina model is tied to /repo by the correspondence run below (differential testing, not proof)",
    "Rust harness crates under /verif/harness (path dependencies into /repo's working tree), Python case generators, tools/consts.py",
]


# --------------------------------------------------------------------------- the standard decision flow

class TieBroken(Exception):
    """The correspondence machinery could not run against the current tree (harness does not build, ...)."""


def ddmin(items, fails, max_rounds=12):
    """Delta-debug a list of items.  fails(list_of_candidate_item_lists) -> list of bool."""
    n = 2
    rounds = 0
    while len(items) >= 2 and rounds < max_rounds:
        rounds += 1
        size = max(1, len(items) // n)
        cands = []
        for i in range(0, len(items), size):
            cands.append(items[:i] + items[i + size:])
        cands = [c for c in cands if len(c) < len(items)]
        if not cands:
            break
        res = fails(cands)
        hit = next((c for c, r in zip(cands, res) if r), None)
        if hit is not None:
            items = hit
            n = max(n - 1, 2)
        else:
            if size == 1:
                break
            n = min(len(items), n * 2)
    return items


def standard_flow(out, spec, tier, seed, replay):
    """spec: object with
         PROP, prove() -> ProofResult, gen(tier, rng, scale) -> list of cases (JSON-able dicts with 'items'),
         evaluate(cases) -> list of verdict ints (v%10: 0 ok, 1 differs from model only, 2 property fails, 3 outside hypotheses;
                                                  v//10: 1 = non-trivial), may raise TieBroken
         known(case) -> text of a matching known finding or None
         describe(case) -> short JSON-able rendering, rule (str), trusted (list), assumptions (list)"""
    prop = spec.PROP
    pr = spec.prove()
    out.proof = pr
    rng = SplitMix64(seed)
    corpus = []
    rdir = os.path.join(VERIF, "replays")
    if replay:
        payload = json.load(open(replay))
        corpus = [payload["case"]] if "case" in payload else []
        gen_cases = []
    else:
        cdir = os.path.join(VERIF, "corpus", prop)
        if os.path.isdir(cdir):
            for fn in sorted(os.listdir(cdir)):
                if fn.endswith(".json"):
                    payload = json.load(open(os.path.join(cdir, fn)))
                    if "case" in payload:
                        corpus.append(payload["case"])
        gen_cases = spec.gen(tier, rng.fork("gen"), 1)
    cases = corpus + gen_cases
    tie_error = None
    verdicts = []
    try:
        verdicts = spec.evaluate(cases)
    except TieBroken as ex:
        tie_error = str(ex)
    failing = [c for c, v in zip(cases, verdicts) if v % 10 == 2]
    differing = [c for c, v in zip(cases, verdicts) if v % 10 == 1]
    outside = sum(1 for v in verdicts if v % 10 == 3)
    l1_only = sum(1 for v in verdicts if v % 10 == 4)
    nontrivial = set()
    distinct = set()
    for c, v in zip(cases, verdicts):
        key = json.dumps(c, sort_keys=True)
        distinct.add(key)
        if v // 10 >= 1 and v % 10 != 3:
            nontrivial.add(key)

    def eval_fail(cands_cases):
        return [v % 10 == 2 for v in spec.evaluate(cands_cases)]

    def shrink(case):
        if not hasattr(spec, "with_items"):
            return case
        try:
            items = ddmin(list(case["items"]), lambda cs: eval_fail([spec.with_items(case, c) for c in cs]))
            return spec.with_items(case, items)
        except Exception:
            return case

    searched = 0
    if (differing or tie_error or not pr.ok) and not failing and not replay and tie_error is None:
        # proof or correspondence broken, no failing input yet: search a 10x enlarged stream
        extra = spec.gen(tier, rng.fork("search"), 10)
        searched = len(extra)
        try:
            ev = spec.evaluate(extra)
            failing = [c for c, v in zip(extra, ev) if v % 10 == 2]
            if not differing:
                differing = [c for c, v in zip(extra, ev) if v % 10 == 1]
        except TieBroken as ex:
            tie_error = str(ex)

    reported_unknown = 0
    seen_known = set()
    for c in failing:
        k = spec.known(c)
        if k:
            out.known_finding(k)
            seen_known.add(k)
            continue
        if reported_unknown >= 3:
            continue
        small = shrink(c)
        k = spec.known(small)
        if k:
            out.known_finding(k)
            continue
        reported_unknown += 1
        out.violation({"case": small, "original_case": c, "what": "the implementation's output on this input contradicts the property (verified checker / specification evaluated in Coq)",
                       "replay_cmd": "./check %s --replay <this file>" % prop})
    if reported_unknown == 0:
        if not pr.ok:
            payload = {"what": "proof obligations no longer check", "problems": pr.problems,
                       "theorems": pr.theorems, "log_tail": pr.log[-1500:], "searched_cases": searched + len(cases)}
            if differing:
                # no input on which the property fails, but one on which the implementation no longer does what the model does
                payload["implementation_differs_from_model_on"] = shrink_diff(spec, differing[0])
                payload["correspondence"] = "Tie/%s.v verdict" % prop
            out.violation(payload, no_failing_input=True)
        elif tie_error is not None:
            out.violation({"what": "the correspondence check could not be run against the current tree", "error": tie_error[-2000:]},
                          no_failing_input=True)
        elif differing:
            out.violation({"what": "the implementation no longer behaves as the Coq model predicts, although every explored output still satisfies the specification; the theorems therefore no longer speak about this code",
                           "correspondence": "Tie/%s.v verdict" % prop, "case": shrink_diff(spec, differing[0]),
                           "searched_cases": searched + len(cases)}, no_failing_input=True)

    out.cov.update({
        "evaluations": len(cases) + searched,
        "distinct_nontrivial": len(nontrivial),
        "distinct_cases": len(distinct),
        "outside_hypotheses": outside,
        "traces_validated_against_impl": sum(1 for v in verdicts if v % 10 in (0, 4)),
        "l1_only_differences": l1_only,
        "disagreements_model_only": len(differing),
        "property_failures": len(failing),
        "rule": spec.RULE,
        "samples": [spec.describe(c) for c in (gen_cases[:3] if gen_cases else cases[:3])],
        "trusted_base": BASE_TRUST + list(getattr(spec, "TRUSTED", [])),
        "corpus_cases": len(corpus),
    })
    if hasattr(spec, "distribution"):
        out.cov["input_distribution"] = spec.distribution(cases)
    out.assumptions += list(getattr(spec, "ASSUMPTIONS", []))


def shrink_diff(spec, case):
    if not hasattr(spec, "with_items"):
        return case
    try:
        items = ddmin(list(case["items"]),
                      lambda cs: [v % 10 in (1, 2) for v in spec.evaluate([spec.with_items(case, c) for c in cs])])
        return spec.with_items(case, items)
    except Exception:
        return case
