# Shared end-to-end machinery for C01 / C17: abstract record histories -> perf.data (vlib/perfdata.py) -> `samply import --save-only`
# -> per-thread-entry view of out.json; and the rendering of both as Coq terms for Tie/C01.v.
import json, os, re, shutil, subprocess
from concurrent.futures import ThreadPoolExecutor
from . import common as K
from . import perfdata as P

ORIGIN = 10 ** 9
MAPFILE = os.path.join(K.REPO, "fixtures", "other", "example-linux")


def gen_history(rng, grammar, switches=False):
    """grammar=True: the kernel's record grammar (a FORK, when present, precedes every other record of the new thread; EXIT is its last record until the id is reused).
    Returns a list of abstract records [kind, ...] with strictly increasing timestamps (duplicate sample timestamps excepted)."""
    t = ORIGIN + rng.range(1, 50)
    recs = []
    live = {}            # pid -> set of live tids (announced or seen)
    dead_pids = []
    names = 0
    next_pid = 100

    def tick():
        nonlocal t
        t += rng.range(1, 2000)
        return t

    def new_name():
        nonlocal names
        names += 1
        if rng.chance(1, 12):
            return 0                  # the empty comm (prctl(PR_SET_NAME, "")): a legal name like any other
        return rng.range(1, 6) if rng.chance(1, 3) else 10 + names

    nrec = rng.range(8, 90)
    last_sample = {}
    while len(recs) < nrec:
        r = rng.below(100)
        pids = sorted(live)
        if not pids or (r < 8 and len(pids) < 6):
            # a new process: forked from a live one, or first seen through a sample / comm / mmap
            if rng.chance(1, 4) and dead_pids and not grammar or (rng.chance(1, 5) and dead_pids):
                pid = rng.choice(dead_pids)          # pid reuse after exit
                dead_pids.remove(pid)
            else:
                pid = next_pid
                next_pid += rng.range(1, 7)
            how = rng.below(4) if pids else rng.range(1, 3)
            if how == 0:
                pp = rng.choice(pids)
                pt = rng.choice(sorted(live[pp]))
                recs.append(["fork", pid, pp, pid, pt, tick()])
            elif how == 1:
                recs.append(["comm", pid, pid, new_name(), rng.chance(1, 2), tick()])
            elif how == 2:
                recs.append(["sample", pid, pid, tick()])
            else:
                recs.append(["mmap", pid, pid, tick()])
            live[pid] = {pid}
            continue
        pid = rng.choice(pids)
        tids = sorted(live[pid])
        tid = rng.choice(tids)
        if switches and rng.chance(1, 5):
            # CONTEXT_SWITCH records: of live threads, of the idle thread, and of threads / processes not seen before
            w = rng.below(10)
            if w == 0:
                recs.append(["switch", pid, 0, tick(), rng.chance(1, 2)])
            elif w == 1:
                nt = max(max(x for s_ in live.values() for x in s_), next_pid) + rng.range(1, 5)
                recs.append(["switch", pid, nt, tick(), rng.chance(1, 2)])
                live[pid].add(nt)
            else:
                recs.append(["switch", pid, tid, tick(), rng.chance(1, 2)])
            continue
        if r < 45:
            ts = tick()
            if rng.chance(1, 10) and (pid, tid) in last_sample:
                ts = last_sample[(pid, tid)]          # exact repeat
                t_keep = True
            recs.append(["sample", pid, tid, ts])
            last_sample[(pid, tid)] = ts
        elif r < 50:
            if not grammar and rng.chance(1, 3):
                # a task sampled on its exit path after it was unhashed: the kernel reports pid = tid = -1 (perf script shows ":-1 -1"); not the idle thread
                recs.append(["sample", 0xFFFFFFFF, 0xFFFFFFFF, tick()])
            else:
                recs.append(["sample", pid, 0, tick()])   # idle thread
        elif r < 62:
            # new thread: FORK, or first seen through a sample / comm
            nt = max(max(x for s in live.values() for x in s), next_pid) + rng.range(1, 5)
            if rng.chance(1, 6):
                # tid reuse of an exited thread id is covered by taking a small id again
                nt = rng.choice([pid + 1, pid + 2, pid + 3])
                if any(nt in s for s in live.values()) or nt in live:
                    continue
            how = rng.below(3)
            if how == 0:
                recs.append(["fork", pid, pid, nt, tid, tick()])
            elif how == 1 :
                recs.append(["sample", pid, nt, tick()])
            else:
                recs.append(["comm", pid, nt, new_name(), False, tick()])
            live[pid].add(nt)
        elif r < 76:
            recs.append(["comm", pid, tid, new_name(), False, tick()])
        elif r < 81:
            # exec: of the main thread (the process entry is replaced)
            recs.append(["comm", pid, pid, new_name(), True, tick()])
            if grammar:
                live[pid] = {pid}                      # the other threads are gone after an exec
            last_sample = {k: v for k, v in last_sample.items() if k[0] != pid}
        elif r < 92:
            if tid == pid:
                if len(tids) > 1 and (grammar and not rng.chance(1, 6)):
                    continue                            # usually the other threads exit first
                recs.append(["exit", pid, pid, tick()])
                rest = live.pop(pid)
                rest.discard(pid)
                dead_pids.append(pid)
                last_sample = {k: v for k, v in last_sample.items() if k[0] != pid}
                if rest and rng.chance(2, 3):
                    # the group leader exited first: its other threads go on (legal for the kernel)
                    for ot in sorted(rest):
                        if rng.chance(1, 2):
                            recs.append(["sample", pid, ot, tick()])
                        recs.append(["exit", pid, ot, tick()])
            else:
                recs.append(["exit", pid, tid, tick()])
                live[pid].discard(tid)
                last_sample.pop((pid, tid), None)
        else:
            recs.append(["mmap", pid, tid, tick()])
    return recs


def history_shape_leader_first(recs):
    """F-C17: some non-main thread has a record after the EXIT of its process's main thread (before that pid is announced again)"""
    gone = set()
    for r in recs:
        k = r[0]
        pid, tid = r[1], (r[3] if k == "fork" else r[2])
        if k == "exit" and tid == pid:
            gone.add(pid)
        elif pid in gone:
            if tid != pid:
                return True
            gone.discard(pid)
    return False


def to_perf(recs, shuffle_rng=None, layout=None, origin=ORIGIN):
    """layout = (cpu, period[, ip, callchain, chains]): which optional sample fields the main event records, and with chains = "mixed" the
    call chains vary per sample (the usual [USER, ip], empty, context markers only); origin = 0: no SAMPLE_TIME feature (times stay absolute)"""
    lay = list(layout or (True, True))
    P.set_layout(*lay[:4])
    # a sixth element: the file has two events (cpu-clock and a dummy tracking event) and the task records belong to event 0 or 1
    P.set_task_event(lay[5] if len(lay) > 5 else None)
    # a seventh element: True = the attribute lacks sample_id_all (COMM / MMAP2 records then carry no time at all)
    P.set_id_all(not (len(lay) > 6 and lay[6]))
    # an eighth element: the main event ("cycles" = a hardware event with a fixed period; the default is the cpu-clock software event)
    P.set_event(lay[7] if len(lay) > 7 else "cpu-clock")
    # a ninth element (two-event files only): the second event has samples of its own - "instructions" / "cycles" (hardware) / "page-faults" (software);
    # the history's "switch" records are then written as SAMPLE records of that event (the converter makes markers of them, after looking the
    # process and the thread up - the same effect on the entries as a context-switch record, which is how the model reads them) and the attribute
    # does not ask for context-switch records
    if len(lay) > 8 and lay[8] and P._layout["task_event"] is not None:
        P.set_second_event(lay[8])
    try:
        return _to_perf(recs, shuffle_rng, origin, lay[4] if len(lay) > 4 else "std")
    finally:
        P.set_layout(True, True)


def record_time(r):
    """the time a history record carries"""
    return r[{"fork": 5, "exit": 3, "comm": 5, "sample": 3, "mmap": 3, "switch": 3}[r[0]]]


def _chain(mode, time):
    if mode != "mixed":
        return None
    k = (time // 1000 + time) % 4
    return [None, [], [P.PERF_CONTEXT_USER], [P.PERF_CONTEXT_KERNEL, P.PERF_CONTEXT_USER]][k]


def _cpumode(mode, time):
    """with "mixed" chains the samples also vary in the cpumode bits of their record header: mostly user, but also kernel, hypervisor, guest kernel /
    guest user (a vcpu thread sampled while its guest runs, `perf kvm --host --guest record`) and unknown - a sample is a sample of its thread in every mode"""
    if mode != "mixed":
        return None
    return [2, 2, 2, 1, 4, 5, 3, 0][(time // 7 + time // 1000) % 8]


def _to_perf(recs, shuffle_rng=None, origin=ORIGIN, chains="std"):
    out = []
    for r in recs:
        k = r[0]
        if k == "fork":
            out.append((r[5], P.fork(r[1], r[2], r[3], r[4], r[5])))
        elif k == "exit":
            out.append((r[3], P.exit_(r[1], r[1], r[2], r[2], r[3])))
        elif k == "comm":
            out.append((r[5], P.comm(r[1], r[2], name_str(r[3]), r[5], r[4])))
        elif k == "sample":
            out.append((r[3], P.sample(r[1], r[2], r[3], 0x401160, _chain(chains, r[3]), cpumode=_cpumode(chains, r[3]))))
        elif k == "mmap":
            out.append((r[3], P.mmap2(r[1], r[2], 0x401000, 0x1000, 0x1000, MAPFILE, r[3])))
        elif k == "switch":
            if P._layout["second"] != "dummy":
                # (a switch record of the idle thread, tid 0, is ignored by the converter - and by the model -, a sample of tid 0 is not: no record is written for it)
                if r[2] != 0:
                    out.append((r[3], P.sample(r[1], r[2], r[3], 0x401170, None, second=True)))
            else:
                out.append((r[3], P.switch(r[1], r[2], r[3], 0, r[4])))
    has_switch = any(r[0] == "switch" for r in recs) and P._layout["second"] == "dummy"
    rounds = []
    if shuffle_rng is not None:
        # physical order shuffled inside rounds; the reader sorts each round by timestamp.  Equal timestamps (deliberate sample repeats) stay adjacent in file order.
        i = 0
        while i < len(out):
            n = shuffle_rng.range(1, 12)
            chunk = out[i:i + n]
            idx = list(range(len(chunk)))
            for a in range(len(idx) - 1, 0, -1):
                b = shuffle_rng.below(a + 1)
                idx[a], idx[b] = idx[b], idx[a]
            sh = [chunk[j] for j in idx]
            # keep the relative file order of equal timestamps
            sh.sort(key=lambda x: 0)  # no-op, documents intent
            ts_groups = {}
            for ts, b in chunk:
                ts_groups.setdefault(ts, []).append(b)
            used = {}
            fixed = []
            for ts, b in sh:
                k = used.get(ts, 0)
                fixed.append(ts_groups[ts][k])
                used[ts] = k + 1
            rounds.append(b"".join(fixed) + P.finished_round())
            i += n
        data = rounds
    elif not P._layout["id_all"]:
        # without sample_id_all the COMM / MMAP2 records have no time; the reader sorts every round by time with such records first (key 0, unstable
        # among themselves), so each record gets a round of its own and the file order is the processing order
        # (two round ends: the reader hands a round's records out only at the end of the FOLLOWING round, sorted together with that round's)
        data = [b + P.finished_round() + P.finished_round() for _, b in out]
    else:
        data = [b for _, b in out] + [P.finished_round()]
    last = max([ts for ts, _ in out] + [ORIGIN])
    return P.build(data, first_time=(origin if origin else None), last_time=last, context_switch=has_switch)


def parse_id(v):
    s = str(v)
    if "." in s:
        a, b = s.split(".", 1)
        return int(a), int(b)
    return int(s), 0


def ns(ms):
    return None if ms is None else int(round(ms * 1e6))


def view(profile):
    """per thread entry: dict with the fields Tie/C01.v compares"""
    out = []
    for th in profile["threads"]:
        st = th["samples"]
        if "time" in st:
            times = [ns(x) for x in st["time"]]
        else:
            acc, times = 0.0, []
            for d in st["timeDeltas"]:
                acc += d
                times.append(ns(acc))
        w = st.get("weight")
        weights_ok = (w is None) or all(x == 1 for x in w)
        out.append({"weights": (list(w) if w is not None else None), "pid": parse_id(th["pid"]), "tid": parse_id(th["tid"]), "pname": th["processName"], "tname": th["name"], "main": bool(th["isMainThread"]),
                    "pstart": ns(th["processStartupTime"]), "pend": ns(th["processShutdownTime"]), "tstart": ns(th["registerTime"]), "tend": ns(th["unregisterTime"]),
                    "samples": times, "weights_ok": weights_ok})
    return out


_perf_lock = __import__("threading").Lock()


def run_import(samply, recs, d, shuffle_seed=None, extra_args=(), layout=None, origin=ORIGIN):
    pd = os.path.join(d, "rec.perf.data")
    with _perf_lock:          # the writer's layout is module state
        data = to_perf(recs, K.SplitMix64(shuffle_seed) if shuffle_seed is not None else None, layout, origin)
    open(pd, "wb").write(data)
    outp = os.path.join(d, "out.json")
    r = subprocess.run([samply, "import", pd, "--save-only", "-o", outp] + list(extra_args), capture_output=True, text=True, timeout=120)
    if r.returncode != 0 or not os.path.exists(outp):
        return {"error": (r.stderr or r.stdout)[-400:]}
    return {"view": view(json.load(open(outp)))}


# ---------- Coq rendering ----------
def name_str(k):
    """the comm string of name number k: most are ASCII, some carry two- and three-byte UTF-8 sequences (a comm is a byte string; names in other
    scripts are legal and common)"""
    if not k:
        return ""
    # the spelling depends on the first digit, so that one name being a proper prefix of another (3 / 31, 1 / 10) survives in every spelling
    d = str(k)[0]
    return ("nm\u00f6%d" if d == "3" else "\u30b5\u30fc\u30d0%d" if d == "5" else "nm%d") % k


def name_num(s):
    m = re.fullmatch(r"(nm|nm\u00f6|\u30b5\u30fc\u30d0)(\d+)", s)
    if m and name_str(int(m.group(2))) == s:
        return int(m.group(2))
    return None


def coq_records(recs, comm_times=True):
    """comm_times = False: the file was written without sample_id_all, its COMM records carry no time (0 in the model's record)"""
    out = []
    for r in recs:
        k = r[0]
        if k == "fork":
            out.append("(RFork %d %d %d %d %d)" % (r[1], r[2], r[3], r[4], r[5]))
        elif k == "exit":
            out.append("(RExit %d %d %d)" % (r[1], r[2], r[3]))
        elif k == "comm":
            out.append("(RComm %d %d %d %s %d)" % (r[1], r[2], r[3], "true" if r[4] else "false", r[5] if comm_times else 0))
        elif k == "sample":
            out.append("(RSample %d %d %d)" % (r[1], r[2], r[3]))
        elif k == "switch":
            out.append("(RSwitch %d %d)" % (r[1], r[2]))
        else:
            out.append("(RMmap %d %d)" % (r[1], r[2]))
    return K.coq_list(out)


def _pname(s):
    if s == "":
        return "(NGiven 0)"
    if name_num(s) is not None:
        return "(NGiven %d)" % name_num(s)
    m = re.fullmatch(r"<(-?\d+)>", s)
    if m:
        return "(NPid %d)" % (int(m.group(1)) % 2**32)          # pids are i32 in the converter and u32 in the profile: "<-1>" is pid 4294967295
    return "(NGiven 999999)"


def _tname(e):
    if e["main"]:
        return "(TNProc %s)" % _pname(e["tname"])
    if e["tname"] == "":
        return "(TNGiven 0)"
    if name_num(e["tname"]) is not None:
        return "(TNGiven %d)" % name_num(e["tname"])
    m = re.fullmatch(r"Thread <(-?\d+)(?:\.(\d+))?>", e["tname"])
    if m:
        return "(TNFallback %d %s)" % (int(m.group(1)) % 2**32, m.group(2) or "0")
    return "(TNGiven 999999)"


def _on(v):
    return "None" if v is None else "(Some %d)" % max(v, 0)


def coq_view(v):
    out = []
    for e in v:
        out.append("((%d, %d), (%d, %d), %s, %s, %d, %s, %d, %s, %s, %s, %s)" % (
            e["pid"][0], e["pid"][1], e["tid"][0], e["tid"][1], _pname(e["pname"]), _tname(e), max(e["pstart"], 0), _on(e["pend"]), max(e["tstart"], 0), _on(e["tend"]),
            "true" if e["main"] else "false", K.coq_list([str(max(x, 0)) for x in e["samples"]]), "true" if e["weights_ok"] else "false"))
    return K.coq_list(out)


def coq_case(recs, v, origin=ORIGIN, comm_times=True):
    return "(%d, %s, %s)" % (origin, coq_records(recs, comm_times), coq_view(v))


def evaluate(prop, verdict_fn, cases, stats, extra_args_of=lambda c: (), wrap=None, case_type="(N * list record * list oentry)"):
    ok, log, samply = K.cargo_build_samply()
    if not ok:
        raise K.TieBroken("samply does not build:\n" + log[-1500:])
    base = os.path.join(K.SCRATCH, "%s_%d" % (prop.lower(), os.getpid()))
    shutil.rmtree(base, ignore_errors=True)
    os.makedirs(base)

    def one(i):
        c = cases[i]
        d = os.path.join(base, "h%d" % i)
        os.makedirs(d)
        try:
            return run_import(samply, c["items"], d, c.get("shuffle"), extra_args_of(c), c.get("layout"), c.get("origin", ORIGIN))
        finally:
            shutil.rmtree(d, ignore_errors=True)

    try:
        with ThreadPoolExecutor(max_workers=K.NCPU) as ex:
            results = list(ex.map(one, range(len(cases))))
    finally:
        shutil.rmtree(base, ignore_errors=True)
    verdicts = [None] * len(cases)
    terms, idx = [], []
    for i, (c, r) in enumerate(zip(cases, results)):
        if "error" in r:
            c["_out"] = r["error"]
            verdicts[i] = 1
            continue
        if any(rec[0] == "switch" for rec in c["items"]):
            # recordings with context-switch records may contain further (off-CPU) samples: weight 1 is only demanded of the recorded samples
            want = {}
            for rec in c["items"]:
                if rec[0] == "sample":
                    want.setdefault((rec[1], rec[2]), set()).add(rec[3] - c.get("origin", ORIGIN))
            for e in r["view"]:
                if e.get("weights") is not None:
                    tt = want.get((e["pid"][0], e["tid"][0]), set())
                    e["weights_ok"] = all(wv == 1 for tm, wv in zip(e["samples"], e["weights"]) if tm in tt)
        for e in r["view"]:
            e.pop("weights", None)
        c["_view"] = r["view"]
        stats["histories"] = stats.get("histories", 0) + 1
        stats["records"] = stats.get("records", 0) + len(c["items"])
        stats["entries"] = stats.get("entries", 0) + len(r["view"])
        stats["output_samples"] = stats.get("output_samples", 0) + sum(len(e["samples"]) for e in r["view"])
        for rec in c["items"]:
            stats.setdefault("kinds", {})
            kk = rec[0] + ("-exec" if rec[0] == "comm" and rec[4] else "")
            stats["kinds"][kk] = stats["kinds"].get(kk, 0) + 1
        lay = c.get("layout") or []
        t = coq_case(c["items"], r["view"], c.get("origin", ORIGIN), comm_times=not (len(lay) > 6 and lay[6]))
        terms.append(wrap(c, t) if wrap else t)
        idx.append(i)
    shards = [K.case_defs(case_type, ch, fn=verdict_fn) for ch in K.chunked(terms, K.NCPU)]
    try:
        res = K.coq_eval(prop, "From SV Require Import Model.Converter Tie.C01.\nOpen Scope N_scope.", shards)
    except RuntimeError as ex:
        raise K.TieBroken(str(ex))
    flat = [v for r in res for v in r]
    if len(flat) != len(terms):
        raise K.TieBroken("verdict count mismatch %d vs %d" % (len(flat), len(terms)))
    for i, v in zip(idx, flat):
        verdicts[i] = v
    return verdicts
