# C05 — symbol lookups.  Model: coq/Model/SymbolList.v; tie: harness/h_symbols sl-dump / sl-look
# (SymbolManager::load_symbol_map_from_location on fixture binaries, generated ELF objects, generated Breakpad and jitdump files;
# the object symbol map's entry list comes from the cfg(samply_verif) hook).
import bisect, json, os, shutil, struct, subprocess, sys
from . import common as K

PROP = "C05"
RULE = ("cases = (symbol source, ~40 lookups): every non-emptied ELF / Mach-O / PE fixture (thin files; the debug-link companions are served from the same directory), ELF objects generated with gcc/ld from assembly (executables, and shared objects stripped down to .dynsym) with "
        "arbitrary symbol layouts and names (plain, Itanium C++, Rust legacy / v0 and OCaml manglings, with and without a leading underscore; sized, unsized, overlapping, NOTYPE-with-size, functions with FDEs in .eh_frame with and without a symbol, several text sections, non-zero base, with/without build id), generated Breakpad .sym files and generated jitdump files. "
        "Lookups at entry addresses, address+size-1, address+size, in gaps, below the first and above the last symbol, random 32-bit values - in all three address forms where the source supports them "
        "(relative, stated virtual address = base + relative, file offset via the segment ranges); each batch is repeated from 8 threads in different orders on one shared symbol map. "
        "non-trivial = a lookup lands in dead space after an end marker, or a file-offset lookup succeeds")
TRUSTED = ["the hook SymbolMap::verif_dump exposes the sorted entry list, image base and file ranges of object symbol maps (the end-address entries are not observable otherwise)",
           "demangle_any is used as an oracle by the harness when it checks that the returned name is the demangled entry name",
           "the filtering of `object` symbols into the entry list (symbol kinds, executable sections) is not modelled; PDB symbolication cannot be run (fixtures emptied)"]
ASSUMPTIONS = ["thread-safety is exercised by the 8-thread repetition, not proved", "fat Mach-O fixtures are skipped (they need a disambiguator)"]

FIXTURES = ["other/example-linux", "other/example-linux-fallback", "other/ls-linux/ls", "linux64-ci/firefox", "macos-ci/libmozglue.dylib", "macos-ci/libsoftokn3.dylib",
            "macos-local/libmozglue.dylib", "win64-ci/softokn3.dll", "win64-ci/WriteArgument.exe", "win64-ci/mozglue.dll", "win64-local/firefox.exe", "android32-local/libsoftokn3.so",
            "other/simple-example/out/regular-debuglink/main", "other/simple-example/out/with-dwp/main", "other/simple-example/out/mac-dsym/main"]

_state = {}


def prove():
    return K.prove(PROP, extra_targets=["Tie/C05.vo"])


def _gen_elf(rng, d, k):
    """assemble + link a small ELF with an arbitrary symbol layout; returns path or None"""
    asm = [".text", ".globl _start", "_start:", "  nop"]
    nf = rng.range(2, 9)
    used_names = set()
    for i in range(nf):
        kind = rng.choice(["sized", "sized", "unsized", "overlap", "notype", "local"])
        # plain names and names in the mangling schemes demangle_any knows, with and without the usual leading underscore
        name = rng.choice(["fn_%d_%d" % (k, i)] * 3 + [
            "_ZN3foo4bar%dEv" % (i % 10), "_ZN4core3fmt5Write9write_fmt17h%016xE" % (0x1234500 + i), "ZN4core3fmt5Write9write_fmt17h%016xE" % (0x7654300 + i),
            "_RNvCs%d_5hello4main" % (1000 + i), "RNvCs%d_5hello4main" % (2000 + i), "camlStdlib__List__map_%d" % (100 + i), "camlFoo__bar_%d" % (200 + i),
            "_ZN3foo3barC%dEv" % (1 + i % 2), "__ZN3foo4baz%dEv" % (i % 10)])
        if name in used_names:
            name = "fn_%d_%d" % (k, i)
        used_names.add(name)
        if kind != "local":
            asm.append(".globl %s" % name)
        if kind != "notype":
            asm.append(".type %s, @function" % name)
        asm.append("%s:" % name)
        n = rng.range(1, 40)
        cfi = rng.chance(1, 3)        # an FDE in .eh_frame: a synthesized function start and an end address besides (or instead of) the symbol
        if cfi:
            asm.append("  .cfi_startproc")
        asm.append("  .fill %d, 1, 0x90" % n)
        if cfi and kind != "overlap":
            asm.append("  .cfi_endproc")
        if kind == "overlap":
            asm.append(".globl %s_inner" % name)
            asm.append(".type %s_inner, @function" % name)
            asm.append("%s_inner:" % name)
            asm.append("  .fill %d, 1, 0x90" % rng.range(1, 10))
        if cfi and kind == "overlap":
            asm.append("  .cfi_endproc")
        if kind in ("sized", "overlap", "notype"):
            asm.append(".size %s, .-%s" % (name, name))
        if rng.chance(1, 6):
            # a function without any symbol, known through its FDE only
            asm += ["  .cfi_startproc", "  .fill %d, 1, 0x90" % rng.range(1, 20), "  .cfi_endproc"]
        if rng.chance(1, 4):
            asm.append("  .fill %d, 1, 0xcc" % rng.range(1, 30))      # a gap that belongs to no sized symbol
    if rng.chance(1, 2):
        asm += ['.section .text.second,"ax",@progbits', ".globl second_fn", ".type second_fn, @function", "second_fn:", "  .fill 24, 1, 0x90", ".size second_fn, .-second_fn"]
    asm += [".data", "data_obj:", "  .long 1", ".size data_obj, 4"]
    s = os.path.join(d, "g%d.s" % k)
    o = os.path.join(d, "g%d.o" % k)
    exe = os.path.join(d, "g%d.elf" % k)
    open(s, "w").write("\n".join(asm) + "\n")
    if subprocess.run(["gcc", "-c", s, "-o", o], capture_output=True).returncode != 0:
        return None
    if rng.chance(1, 4):
        # a shared object, usually stripped: its functions are then known through .dynsym only (sized symbols without the end entries
        # that .symtab symbols get), so the bytes between a symbol's stated end and the next entry still belong to it
        so = os.path.join(d, "g%d.so" % k)
        linker = rng.choice(["ld", "ld", "ld.lld"])
        if subprocess.run([linker, "-shared", o, "-o", so] + rng.choice([[], ["--build-id"]]), capture_output=True).returncode != 0:
            return None
        if rng.chance(3, 4):
            if subprocess.run(["strip", so, "-o", exe], capture_output=True).returncode != 0:
                return None
            os.remove(so)
        else:
            os.rename(so, exe)
        for f in (s, o):
            os.remove(f)
        return exe
    if rng.chance(1, 3):
        # lld lays segments out back to back in the file while their addresses move to the next page: abutting file ranges with different deltas
        args = ["ld.lld", o, "-o", exe, "-e", "_start"] + rng.choice([[], ["--build-id"], ["-pie"], ["-z", "separate-code"]])
    else:
        args = ["ld", o, "-o", exe, "-e", "_start"]
        args += rng.choice([[], ["--build-id"], ["-Ttext=0x401000"], ["-pie"], ["--build-id", "-Ttext-segment=0x10000"]])
    if subprocess.run(args, capture_output=True).returncode != 0:
        return None
    for f in (s, o):
        os.remove(f)
    return exe


def _move_segment(path, rng):
    """Give one PT_LOAD segment of an ELF64 little-endian file a new place at the end of the file (the bytes are copied, p_offset and the sh_offset of the
    sections inside follow): program headers stay sorted by address, as ELF requires, while their file offsets are no longer ascending - legal, and what
    post-link tools that append or rewrite segments produce."""
    b = bytearray(open(path, "rb").read())
    if b[:6] != b"\x7fELF\x02\x01":
        return False
    phoff, shoff = struct.unpack_from("<QQ", b, 0x20)
    phentsize, phnum, shentsize, shnum = struct.unpack_from("<HHHH", b, 0x36)
    loads = []
    for i in range(phnum):
        o = phoff + i * phentsize
        ptype, _fl, poff, vaddr, _pa, filesz, _ms, align = struct.unpack_from("<IIQQQQQQ", b, o)
        if ptype == 1 and filesz > 0:
            loads.append((o, poff, vaddr, filesz, align))
    if len(loads) < 2:
        return False
    o, poff, vaddr, filesz, align = loads[rng.below(len(loads) - 1)]           # not the last one: a later segment then lies earlier in the file
    align = max(align, 1)
    new = len(b)
    new += (vaddr - new) % align if align > 1 else 0
    data = bytes(b[poff:poff + filesz])
    b += b"\0" * (new - len(b)) + data
    struct.pack_into("<Q", b, o + 8, new)
    for i in range(shnum):
        so = shoff + i * shentsize
        if so + 0x28 > len(b):
            break
        shtype, = struct.unpack_from("<I", b, so + 4)
        sh_off, sh_size = struct.unpack_from("<QQ", b, so + 0x18)
        if shtype not in (0, 8) and poff <= sh_off and sh_off + sh_size <= poff + filesz:
            struct.pack_into("<Q", b, so + 0x18, sh_off - poff + new)
    open(path, "wb").write(bytes(b))
    return True


def _gen_jitdump(rng, path):
    out = struct.pack("<IIIIIIQQ", 0x4A695444, 1, 40, 62, 0, 1234, 1000, 0)
    entries = []
    vma = 0x7F0000001000
    rel = 0
    for i in range(rng.range(1, 8)):
        name = ("jit_fn_%d" % i).encode() + b"\0"
        clen = rng.range(1, 64)
        rec = struct.pack("<IIQ", 0, 16 + 40 + len(name) + clen, 2000 + i) + struct.pack("<IIQQQQ", 1234, 1234, vma, vma, clen, i) + name
        cbo = len(out) + len(rec)
        out += rec + bytes([0x90]) * clen
        entries.append((rel, cbo, clen))
        rel += clen
        vma += clen + 0x100
        if rng.chance(1, 4):
            out += struct.pack("<IIQ", 7, 16 + 8, 3000) + b"\0" * 8        # an unknown record type in between
    open(path, "wb").write(out)
    return entries


def gen(tier, rng, scale):
    quick = tier == "quick"
    cases = []
    n_fix = (3 if quick else 20) * scale
    for f in FIXTURES:
        for r in range(n_fix):
            cases.append({"items": [["fixture", f, rng.next()]]})
    for k in range((40 if quick else 600) * scale):
        cases.append({"items": [["genelf", k, rng.next()]]})
    for k in range((30 if quick else 400) * scale):
        cases.append({"items": [["jitdump", k, rng.next()]]})
    for k in range((15 if quick else 200) * scale):
        cases.append({"items": [["breakpad", k, rng.next()]]})
    return cases


def _pick_lookups(rng, dump, n=40):
    ents = dump["entries"]
    base = dump["base"]
    ranges = dump["ranges"]
    if not ents:
        return [], []
    i0 = rng.below(len(ents))
    lo = max(0, i0 - 3)
    hi = min(len(ents), i0 + rng.range(3, 12))
    addrs = set()
    for a, k in ents[lo:hi]:
        addrs |= {a, a + 1, max(0, a - 1)}
    for j in range(lo, hi - 1):
        addrs.add((ents[j][0] + ents[j + 1][0]) // 2)
    addrs |= {0, ents[0][0], max(0, ents[0][0] - 1), ents[-1][0], ents[-1][0] + 1, ents[-1][0] + 1000, rng.below(2**32), rng.below(2**32), 2**32 - 1}
    addrs = sorted(a for a in addrs if 0 <= a < 2**32)
    rng2 = rng
    if len(addrs) > n:
        keep = set(rng2.below(len(addrs)) for _ in range(n))
        addrs = [a for i, a in enumerate(addrs) if i in keep]
    lookups = []
    for a in addrs:
        lookups.append(("r", a))
        if dump["object"]:
            if rng.chance(1, 2):
                lookups.append(("s", base + a))
            svma = base + a
            for (sv, fo, sz) in ranges:
                if sv <= svma < sv + sz:
                    if rng.chance(1, 2):
                        lookups.append(("o", fo + (svma - sv)))
                    break
    if dump["object"]:
        lookups += [("s", rng.below(2**40)), ("s", max(0, base - 1)), ("o", rng.below(1 << 22)), ("o", 2**63)]
        # stated virtual addresses outside [base, base + 2^32): below the image base (images based at or above 4 GiB - Mach-O executables,
        # PE32+ - have 32-bit values there that equal relative addresses of real functions modulo 2^32) and 4 GiB or more above it
        for a in addrs[::max(1, len(addrs) // 6)][:8]:
            lo = (a + base) % 2**32
            if lo < base:
                lookups.append(("s", lo))
            lookups.append(("s", base + 2**32 + a))
        # every boundary of the file ranges: first and last byte of a range, one before, one past (abutting ranges with different deltas)
        for (sv, fo, sz) in ranges[:6]:
            for off in (fo, max(fo - 1, 0), fo + max(sz, 1) - 1, fo + sz):
                lookups.append(("o", off))
                if fo <= off < fo + sz and 0 <= sv + (off - fo) - base < 2**32:
                    lookups.append(("r", sv + (off - fo) - base))          # the same byte by its relative address: the two forms must be answered alike
    # window of entries: every entry within [min-?, max+?] plus two neighbours on each side
    rel = [a for f, a in [(f, (v if f == "r" else None)) for f, v in lookups] if a is not None]
    return lookups, ents


def evaluate(cases):
    if not cases:
        return []
    ok, log, bindir = K.cargo_build("h_symbols")
    if not ok:
        raise K.TieBroken("harness h_symbols does not build against the current tree (hook missing?):\n" + log[-1500:])
    binp = os.path.join(bindir, "h_symbols")
    d = os.path.join(K.SCRATCH, "c05_%d" % os.getpid())
    shutil.rmtree(d, ignore_errors=True)
    os.makedirs(d)
    try:
        from . import c10
        paths = []
        truths = []
        for i, c in enumerate(cases):
            kind, arg, seed = c["items"][0]
            rng = K.SplitMix64(seed)
            if kind == "fixture":
                paths.append(os.path.join(K.REPO, "fixtures", arg))
                truths.append(None)
            elif kind == "genelf":
                sub = os.path.join(d, "e%d" % i)
                os.makedirs(sub)
                p = _gen_elf(rng, sub, i)
                if p and rng.chance(1, 3):
                    _move_segment(p, rng)
                paths.append(p)
                truths.append(None)
            elif kind == "jitdump":
                p = os.path.join(d, "j%d.jitdump" % i)
                truths.append(_gen_jitdump(rng, p))
                paths.append(p)
            else:
                sub = os.path.join(d, "b%d" % i)
                os.makedirs(sub)
                text, _ = c10._gen_file(rng, True, zero_sizes=True)
                p = os.path.join(sub, "f.sym")
                open(p, "wb").write(text.encode("latin-1"))
                paths.append(p)
                truths.append(None)
        idx = [i for i, p in enumerate(paths) if p]
        rc, outl, err = K.run_lines(binp, ["sl-dump"], [paths[i] for i in idx], timeout=1800)
        if rc != 0 or len(outl) != len(idx):
            raise K.TieBroken("h_symbols sl-dump failed (rc=%s, %d/%d): %s" % (rc, len(outl), len(idx), err[-400:]))
        dumps = {i: json.loads(l) for i, l in zip(idx, outl)}
        look_lines = []
        look_idx = []
        plans = {}
        for i in idx:
            dump = dumps[i]
            if not dump.get("ok"):
                continue
            rng = K.SplitMix64(cases[i]["items"][0][2] ^ 0x5A5A)
            if truths[i] is not None:
                ents = truths[i]
                lk = []
                for rel, cbo, clen in ents:
                    lk += [("r", rel), ("r", rel + clen - 1), ("r", rel + clen), ("o", cbo), ("o", cbo + clen - 1), ("o", cbo + clen), ("o", max(0, cbo - 1))]
                lk += [("r", rng.below(4096)), ("o", rng.below(4096)), ("o", 0), ("r", 2**32 - 1)]
                plans[i] = (lk, None)
            else:
                lk, ents = _pick_lookups(rng, dump)
                plans[i] = (lk, ents)
            if plans[i][0]:
                look_idx.append(i)
                look_lines.append(paths[i] + " " + " ".join("%s%d" % (f, v) for f, v in plans[i][0]))
        rc, outl2, err = K.run_lines(binp, ["sl-look"], look_lines, timeout=1800)
        if rc != 0 or len(outl2) != len(look_idx):
            raise K.TieBroken("h_symbols sl-look failed (rc=%s, %d/%d): %s" % (rc, len(outl2), len(look_idx), err[-400:]))
    finally:
        shutil.rmtree(d, ignore_errors=True)
    results = dict(zip(look_idx, outl2))
    verdicts = [None] * len(cases)
    obj_terms, jit_terms = [], []
    stats = _state.setdefault("stats", {"loaded": 0, "not_loaded": 0, "lookups": 0, "by_kind": {}})
    kn = ["KSym", "KExport", "KSynth", "KEntryPoint", "KEnd"]
    for i, c in enumerate(cases):
        kind = c["items"][0][0]
        if i not in results or results[i].strip() == "LOADERR":
            verdicts[i] = 3            # the file could not be produced or loaded (unsupported fixture, ld failure): not judged
            stats["not_loaded"] += 1
            continue
        stats["loaded"] += 1
        stats["by_kind"][kind] = stats["by_kind"].get(kind, 0) + 1
        body, _, tflag = results[i].rpartition(" | T=")
        toks = body.split()
        lk, ents = plans[i]
        stats["lookups"] += len(lk)
        c["_n"] = len(lk)
        if len(toks) != len(lk):
            verdicts[i] = 2
            continue
        threads = "true" if tflag.strip() == "1" else "false"
        if kind == "jitdump":
            obs = []
            for (f, v), t in zip(lk, toks):
                a = ("JRel %d" if f == "r" else "JOff %d") % v
                if t == "N":
                    obs.append("(%s, None)" % a)
                else:
                    st, sz, nok, en = t.split(":")
                    obs.append("(%s, Some (%s, %s))" % (a, st, sz if sz != "-" else "0"))
            jit_terms.append((i, "(%s, %s, %s)" % (K.coq_list(["(mkJe %d %d %d)" % e for e in truths[i]]), K.coq_list(obs), threads)))
            continue
        dump = dumps[i]
        base, ranges = dump["base"], dump["ranges"]
        rel_needed = []
        for (f, v) in lk:
            if f == "r":
                rel_needed.append(v)
            elif f == "s" and v >= base:
                rel_needed.append(v - base)
            elif f == "o":
                for (sv, fo, sz) in ranges:
                    if fo <= v < fo + sz:
                        if sv + (v - fo) >= base:
                            rel_needed.append(sv + (v - fo) - base)
                        break
        ents_all = dump["entries"]
        keys = [e[0] for e in ents_all]
        keep = set()
        for r in rel_needed:
            j = bisect.bisect_right(keys, r)
            for t in range(max(0, j - 3), min(len(keys), j + 3)):
                keep.add(t)
        window = [ents_all[t] for t in sorted(keep)]
        obs = []
        for (f, v), t in zip(lk, toks):
            a = {"r": "ARel %d", "s": "ASvma %d", "o": "AOff %d"}[f] % v
            if t == "N":
                obs.append("(%s, None)" % a)
            else:
                st, sz, nok, en = t.split(":")
                obs.append("(%s, Some (%s, %s, %s, %s))" % (a, st, "None" if sz == "-" else "(Some %s)" % sz, "true" if nok == "1" else "false", "true" if en == "1" else "false"))
        obj_terms.append((i, "(%s, %d, %s, %s, %s, %s)" % ("true" if dump["object"] else "false", base,
                                                           K.coq_list(["(%d, %d, %d)" % tuple(r) for r in ranges]),
                                                           K.coq_list(["(%d, %s)" % (a, kn[k]) for a, k in window]), K.coq_list(obs), threads)))
    imports = "From SV Require Import Model.SymbolList Tie.C05.\nOpen Scope N_scope."
    for terms, ty, fn in ((obj_terms, "(bool * N * list (N * N * N) * list entry * list (addr * obs) * bool)", "verdict_obj"),
                          (jit_terms, "(list jentry * list (jaddr * option (N * N)) * bool)", "verdict_jit")):
        if not terms:
            continue
        shards = [K.case_defs(ty, [t for _, t in ch], fn=fn) for ch in K.chunked(terms, K.NCPU)]
        try:
            res = K.coq_eval(PROP, imports, shards)
        except RuntimeError as ex:
            raise K.TieBroken(str(ex))
        flat = [v for r in res for v in r]
        if len(flat) != len(terms):
            raise K.TieBroken("verdict count mismatch")
        for (i, _), v in zip(terms, flat):
            verdicts[i] = v
    return verdicts


def known(case):
    return None


def describe(case):
    it = case["items"][0]
    return {"source": it[0], "which": it[1], "lookups": case.get("_n")}


def distribution(cases):
    return _state.get("stats", {})


def run(out, tier, seed, replay):
    K.standard_flow(out, sys.modules[__name__], tier, seed, replay)
