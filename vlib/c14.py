# C14 — stack depth limiting.  Model: coq/Model/FrameLimit.v; tie: harness/h_samply psd mode
# (ProcessSampleData::flush_samples_to_profile driven directly; samply/src/shared/*.rs compiled in by #[path]).
import struct, json, os, re, shutil, subprocess, sys
from concurrent.futures import ThreadPoolExecutor
from . import common as K
from . import perfdata as P

PROP = "C14"
RULE = ("cases = 1..6 samples flushed together through ProcessSampleData::flush_samples_to_profile, each a call chain of distinct unmapped "
        "addresses (so the serialized function name identifies the frame) with depth drawn from: every depth 0..1200 (sampled), m*200+r for m<=25 and "
        "r in {-2..2, 99..101, 199}, with/without the extra per-CPU label frame, with 0..2 truncated-stack markers at arbitrary positions; "
        "several deep samples of different depths share one flush and one thread. Observed: each sample's stack walked in the serialized JSON "
        "(stackTable -> frameTable -> funcTable.name), placeholder count parsed from its label. non-trivial = at least one sample of the case has >= 500 real frames")
TRUSTED = ["harness h_samply (module tree of samply/src/shared compiled in by #[path]); serde_json read-back and run-length encoding of the frame lists",
           "the constant 200 is regenerated from stack_depth_limiting_frame_iter.rs (tools/consts.py) and C14_limit_constant re-proved on every run"]
ASSUMPTIONS = ["JS/ART label-frame insertion (passes 3-4 of stack_converter.rs) is not exercised: it adds frames beyond the hint and is outside the property's quantifier",
               "at exactly 500 frames both outcomes are accepted by the checker (with the extra label frame the hint is 499)"]


def prove():
    return K.prove(PROP, extra_targets=["Tie/C14.vo"])


def _depth(rng, quick):
    r = rng.below(100)
    if r < 35:
        return rng.below(1201)
    if r < 85:
        m = rng.range(2, 25 if not quick else 12)
        return max(0, m * 200 + rng.choice([-2, -1, 0, 1, 2, 99, 100, 101, 199]))
    if r < 95:
        return rng.choice([0, 1, 2, 199, 200, 201, 498, 499, 500, 501, 502, 699, 700, 701])
    return rng.range(1200, 5200 if not quick else 2600)


def gen(tier, rng, scale):
    quick = tier == "quick"
    cases = []
    for ci in range((260 if quick else 4000) * scale):
        ns = rng.range(1, 6)
        items = []
        base = 100000
        for si in range(ns):
            d = _depth(rng, quick)
            extra = rng.chance(1, 3)
            nm = rng.choice([0, 0, 0, 1, 1, 2])
            step = rng.choice([8, 16, 24])
            if si > 0 and rng.chance(1, 4):
                pass                       # reuse the same base: shared prefix with the previous sample
            else:
                base += 1000000
            # segments: split the d frames at nm marker positions
            cuts = sorted(rng.below(d + 1) for _ in range(nm))
            segs = []
            prev = 0
            for c in cuts:
                if c > prev:
                    segs.append(["g", c - prev, base + prev * step, step])
                segs.append(["t"])
                prev = c
            if d > prev:
                segs.append(["g", d - prev, base + prev * step, step])
            if rng.chance(1, 4):
                segs, d = _with_zeros(rng, segs, d)
            items.append({"extra": extra, "segs": segs, "depth": d})
        cases.append({"items": items})
    # end-to-end stream: the same depths as call chains of a perf.data recording converted by `samply import`
    erng = rng.fork("e2e")
    for _ in range((24 if quick else 300) * scale):
        items = []
        base = 0x10000000
        for si in range(erng.range(1, 4)):
            d = max(1, _depth(erng, True))
            base += 0x1000000
            st = erng.choice([8, 16, 24])
            segs = [["g", d, base, st]]
            if erng.chance(1, 3) and d >= 2:
                # direct recursion: a run of equal return addresses - at the root of the stack (what --fold-recursive-prefix would fold; without
                # that option every one of them is a frame), in the middle, or at the leaf
                k = min(d, erng.choice([2, 2, 5, 30, 40, 350, d]))
                at = erng.choice([0, 0, 0, erng.below(d - k + 1), d - k])
                segs = [sg for sg in [["g", at, base, st], ["g", k, base + at * st, 0], ["g", d - at - k, base + (at + 1) * st, st]] if sg[1] > 0]
            if erng.chance(1, 3) and d > 2:
                segs, d = _with_zeros(erng, segs, d, keep_leaf=True)
            items.append({"extra": False, "segs": segs, "depth": d})
            if erng.chance(1, 4):
                items[-1]["ctx"] = [[erng.below(5000), erng.choice([32, 640, 4095, 1, 100, 3000])] for _ in range(erng.range(1, 2))]
            elif erng.chance(1, 3) and all(sg[0] == "g" for sg in segs) and d <= 3900:
                # `perf record --call-graph dwarf,<size>`: the sample carries registers and a copy of the user stack instead of a call chain; the
                # converter unwinds it (here: a frame-pointer chain), and the stack that comes out is subject to the same depth limiting
                items[-1]["unwind"] = True
        if any(it.get("unwind") for it in items):
            pass
        elif erng.chance(1, 3):
            # a second recorded event (a tracepoint): its samples become markers, whose call chains are stacks of the profile too
            for it in items:
                it["marker"] = erng.chance(1, 2)
            if not any(it["marker"] for it in items):
                items[0]["marker"] = True
        cases.append({"kind": "e2e", "items": items})
    return cases


def _with_zeros(rng, segs, d, keep_leaf=False):
    """cut 1..3 null return addresses (["z"]: StackFrame::ReturnAddress(0), looked up at address 0) into the frame runs - a frame-pointer walk through
    garbage produces them; each is a frame of its own and counts towards the depth.  Some runs become return addresses (["r", ...]) instead of
    already adjusted ones"""
    for _ in range(rng.range(1, 3)):
        runs = [i for i, sg in enumerate(segs) if sg[0] in "gr" and sg[1] >= 2]
        if not runs:
            break
        i = rng.choice(runs)
        k, n, start, step = segs[i]
        cut = rng.choice([1, 1, n - 1, rng.range(1, n - 1)])
        segs = segs[:i] + [[k, cut, start, step], ["z"], [k, n - cut, start + cut * step, step]] + segs[i + 1:]
        d += 1
    if rng.chance(1, 2):
        segs = [["r"] + sg[1:] if sg[0] == "g" and sg[1] <= 400 and rng.chance(1, 2) else sg for sg in segs]
    return segs, d


def _coq_seg(sg):
    return "Mark" if sg[0] == "t" else "Seg 1 0 1" if sg[0] == "z" else "Seg %d %d %d" % (sg[1], sg[2], sg[3])


def _lookups(segs):
    """(lookup address, is a null return address) per frame, root first"""
    out = []
    for sg in segs:
        if sg[0] == "z":
            out.append((0, True))
        elif sg[0] in "gr":
            out += [(sg[2] + i * sg[3], False) for i in range(sg[1])]
    return out


def with_items(case, items):
    c = {"items": items}
    if case.get("kind"):
        c["kind"] = case["kind"]
    return c


ORIGIN = 10 ** 9


def _rle(addrs_or_marks):
    """run-length encode a frame list (ints = raw addresses, ("E", k) = placeholder, "X" = anything else) as oseg terms"""
    out = []
    i = 0
    while i < len(addrs_or_marks):
        x = addrs_or_marks[i]
        if isinstance(x, tuple):
            out.append("OE %d" % x[1])
            i += 1
        elif x == "X":
            out.append("OBad")
            i += 1
        else:
            j = i + 1
            step = None
            while j < len(addrs_or_marks) and isinstance(addrs_or_marks[j], int):
                st = addrs_or_marks[j] - addrs_or_marks[j - 1]
                if step is None:
                    step = st
                if st != step or st < 0:
                    break
                j += 1
            if j - i == 1:
                out.append("ORun %d 1 0" % x)
            else:
                out.append("ORun %d %d %d" % (x, j - i, step))
            i = j
    return out


def _two_event_file(items, last_time):
    """perf.data with two events recorded together (cpu-clock and a tracepoint), samples tagged by PERF_SAMPLE_IDENTIFIER; no sample_id_all.
    items: (event id 1|2, time, callchain) in time order"""
    S_IDENTIFIER = 1 << 16
    st = S_IDENTIFIER | P.S_IP | P.S_TID | P.S_TIME | P.S_CPU | P.S_CALLCHAIN
    asz = 128

    def attr(ty, config, period):
        a = struct.pack("<IIQQQQQIIQ", ty, asz, config, period, st, 0, 0, 0, 0, 0)
        return a + bytes(asz - len(a))

    def hstr(x):
        b = x.encode() + b"\0"
        b += bytes(-len(b) % 8)
        return struct.pack("<I", len(b)) + b
    events = [(attr(1, 0, 1000000), "cpu-clock", [1]), (attr(2, 700, 1), "syscalls:sys_enter_write", [2])]
    data = struct.pack("<IHH", P.PERF_RECORD_COMM, 0, 8 + 16) + struct.pack("<II", 100, 100) + b"deep\0\0\0\0"
    for ev, t, chain in items:
        body = struct.pack("<QQiiQII", ev, chain[1] if len(chain) > 1 else 0, 100, 100, t, 0, 0) + struct.pack("<Q", len(chain)) + b"".join(struct.pack("<Q", x) for x in chain)
        assert 8 + len(body) < 65536
        data += struct.pack("<IHH", P.PERF_RECORD_SAMPLE, P.MISC_USER, 8 + len(body)) + body
    hs = 104
    ids = b"".join(struct.pack("<%dQ" % len(i), *i) for _, _, i in events)
    attr_off = hs + len(ids)
    ab, off = b"", hs
    for a, _, i in events:
        ab += a + struct.pack("<QQ", off, 8 * len(i))
        off += 8 * len(i)
    data_off = attr_off + len(ab)
    desc = struct.pack("<II", len(events), asz)
    for a, name, i in events:
        desc += a + struct.pack("<I", len(i)) + hstr(name) + struct.pack("<%dQ" % len(i), *i)
    feats = [(P.HEADER_ARCH, hstr("x86_64")), (12, desc), (P.HEADER_SAMPLE_TIME, struct.pack("<QQ", ORIGIN, last_time))]
    toff = data_off + len(data)
    poff = toff + 16 * len(feats)
    table, payload, flags = b"", b"", 0
    for bit, blob in feats:
        table += struct.pack("<QQ", poff + len(payload), len(blob))
        payload += blob
        flags |= 1 << bit
    hdr = b"PERFILE2" + struct.pack("<QQQQQQQQQQQQ", hs, asz + 16, attr_off, len(ab), data_off, len(data), 0, 0, flags, 0, 0, 0)
    return hdr + ids + ab + data + table + payload


def _walk(th, i):
    st, ft, fu, sa = th["stackTable"], th["frameTable"], th["funcTable"], th["stringArray"]
    fr = []
    while i is not None:
        name = sa[fu["name"][ft["func"][st["frame"][i]]]]
        m = re.fullmatch(r"\((\d+) frames elided\)", name)
        fr.append(("E", int(m.group(1))) if m else (int(name, 16) if name.startswith("0x") else "X"))
        i = st["prefix"][i]
    return fr[::-1]


def _e2e_markers(samply, case, d):
    """the two-event variant: items with marker=True are samples of the tracepoint event and come out as marker stacks"""
    t = ORIGIN + 10
    recs = []
    for s in case["items"]:
        lookups = _lookups(s["segs"])
        chain = [lookups[-1][0]] + [0 if z else a + 1 for a, z in reversed(lookups[:-1])]
        t += 1000
        s["_t"] = t
        if 8 * (len(chain) + 8) + 64 >= 65536:
            return None
        recs.append((2 if s.get("marker") else 1, t, [P.PERF_CONTEXT_USER] + chain))
    pd = os.path.join(d, "rec.perf.data")
    open(pd, "wb").write(_two_event_file(recs, t))
    outp = os.path.join(d, "out.json")
    r = subprocess.run([samply, "import", pd, "--save-only", "-o", outp], capture_output=True, text=True, timeout=300)
    if r.returncode != 0 or not os.path.exists(outp):
        return None
    prof = json.load(open(outp))
    th = next(x for x in prof["threads"] if str(x["tid"]).split(".")[0] == "100")
    sm = th["samples"]
    times = sm.get("time")
    if times is None:
        acc, times = 0.0, []
        for dlt in sm["timeDeltas"]:
            acc += dlt
            times.append(acc)
    by_time = {ORIGIN + int(round(x * 1e6)): sm["stack"][k] for k, x in enumerate(times)}
    mk = th["markers"]
    m_by_time = {}
    for k in range(mk["length"]):
        dta = mk["data"][k]
        if isinstance(dta, dict) and isinstance(dta.get("cause"), dict) and mk["startTime"][k] is not None:
            m_by_time[ORIGIN + int(round(mk["startTime"][k] * 1e6))] = dta["cause"].get("stack")
    obs = []
    for s in case["items"]:
        src = m_by_time if s.get("marker") else by_time
        if s["_t"] not in src:
            obs.append(["OBad"])          # the stack did not reach the profile at all
        else:
            obs.append(_rle(_walk(th, src[s["_t"]])))
    return obs


_plock = __import__("threading").Lock()


def _e2e_one(samply, case, d):
    if any(s.get("marker") for s in case["items"]):
        return _e2e_markers(samply, case, d)
    _plock.acquire()          # the writer's layout is module state
    P.set_layout(True, True)
    P.set_user_stack(any(s.get("unwind") for s in case["items"]))
    try:
        recs = [P.comm(100, 100, "deep", ORIGIN + 1, True)]
        t = ORIGIN + 10
        for s in case["items"]:
            lookups = _lookups(s["segs"])            # root first
            chain = [lookups[-1][0]] + [0 if z else a + 1 for a, z in reversed(lookups[:-1])]     # leaf ip, then return addresses towards the root
            t += 1000
            s["_t"] = t
            if s.get("unwind"):
                recs.append(P.sample(100, 100, t, chain[0], [], unwind=chain[1:]))
            else:
                cc = [P.PERF_CONTEXT_USER] + chain
                # further entries from the reserved context range (>= PERF_CONTEXT_MAX = -4095): PERF_CONTEXT_HV, PERF_CONTEXT_USER_DEFERRED and values no
                # kernel defines yet - markers, never frames
                for pos, val in s.get("ctx", []):
                    cc.insert(1 + pos % len(cc), (1 << 64) - val)
                recs.append(P.sample(100, 100, t, chain[0], cc))
        recs.append(P.finished_round())
        pd = os.path.join(d, "rec.perf.data")
        open(pd, "wb").write(P.build(recs, first_time=ORIGIN, last_time=t))
    finally:
        P.set_user_stack(False)
        _plock.release()
    outp = os.path.join(d, "out.json")
    r = subprocess.run([samply, "import", pd, "--save-only", "-o", outp], capture_output=True, text=True, timeout=300)
    if r.returncode != 0 or not os.path.exists(outp):
        return None
    prof = json.load(open(outp))
    th = next(x for x in prof["threads"] if str(x["tid"]).split(".")[0] == "100")
    st, ft, fu, sa = th["stackTable"], th["frameTable"], th["funcTable"], th["stringArray"]
    sm = th["samples"]
    times = sm.get("time")
    if times is None:
        acc, times = 0.0, []
        for dlt in sm["timeDeltas"]:
            acc += dlt
            times.append(acc)
    by_time = {ORIGIN + int(round(x * 1e6)): sm["stack"][k] for k, x in enumerate(times)}
    obs = []
    for s in case["items"]:
        i = by_time.get(s["_t"])
        fr = []
        while i is not None:
            name = sa[fu["name"][ft["func"][st["frame"][i]]]]
            m = re.fullmatch(r"\((\d+) frames elided\)", name)
            fr.append(("E", int(m.group(1))) if m else (int(name, 16) if name.startswith("0x") else "X"))
            i = st["prefix"][i]
        obs.append(_rle(fr[::-1]))
    return obs


def _evaluate_e2e(cases):
    ok, log, samply = K.cargo_build_samply()
    if not ok:
        raise K.TieBroken("samply does not build:\n" + log[-1500:])
    base = os.path.join(K.SCRATCH, "c14e_%d" % os.getpid())
    shutil.rmtree(base, ignore_errors=True)
    os.makedirs(base)

    def one(i):
        d = os.path.join(base, "h%d" % i)
        os.makedirs(d)
        try:
            return _e2e_one(samply, cases[i], d)
        finally:
            shutil.rmtree(d, ignore_errors=True)
    try:
        with ThreadPoolExecutor(max_workers=K.NCPU) as ex:
            results = list(ex.map(one, range(len(cases))))
    finally:
        shutil.rmtree(base, ignore_errors=True)
    terms = []
    for c, obs in zip(cases, results):
        ss = []
        for k, s in enumerate(c["items"]):
            segs = K.coq_list([_coq_seg(sg) for sg in s["segs"]])
            o = K.coq_list(obs[k]) if obs is not None else "[OBad]"
            ss.append("(false, %s, %s)" % (segs, o))
        terms.append(K.coq_list(ss))
    shards = ["Definition cases : list (list sample) := %s.\nEval vm_compute in (map verdict cases).\n" % K.coq_list(ch) for ch in K.chunked(terms, K.NCPU)]
    try:
        res = K.coq_eval(PROP, "From SV Require Import Model.FrameLimit Tie.C14.\nFrom Coq Require Import NArith.\nOpen Scope N_scope.", shards)
    except RuntimeError as ex:
        raise K.TieBroken(str(ex))
    return [v for r in res for v in r]


def _line(c):
    toks = []
    for k, s in enumerate(c["items"]):
        toks += ["S", str(k + 1), "1" if s["extra"] else "0"]
        for sg in s["segs"]:
            if sg[0] == "z":
                toks.append("r0")
            elif sg[0] == "r":
                toks += ["r%d" % (sg[2] + i * sg[3] + 1) for i in range(sg[1])]
            else:
                toks.append("t" if sg[0] == "t" else "g%d:%d:%d" % (sg[1], sg[2], sg[3]))
        toks.append(";")
    return " ".join(toks)


def _oseg(tok):
    if tok.startswith("U"):
        body = tok[1:]
        if "*" in body:
            a, rest = body.split("*")
            c, st = rest.split(":")
            return "ORun %s %s %s" % (a, c, st)
        return "ORun %s 1 0" % body
    if tok.startswith("E") and tok[1:].isdigit():
        return "OE %s" % tok[1:]
    if tok == "X":
        return "OX"
    return "OBad"


def evaluate(cases):
    if not cases:
        return []
    e2e = [(i, c) for i, c in enumerate(cases) if c.get("kind") == "e2e"]
    if e2e:
        rest = [(i, c) for i, c in enumerate(cases) if c.get("kind") != "e2e"]
        out = [None] * len(cases)
        for (i, _), v in zip(e2e, _evaluate_e2e([c for _, c in e2e])):
            out[i] = v
        for (i, _), v in zip(rest, evaluate([c for _, c in rest])):
            out[i] = v
        return out
    ok, log, bindir = K.cargo_build("h_samply")
    if not ok:
        raise K.TieBroken("harness h_samply does not build against the current tree:\n" + log[-1500:])
    rc, outl, err = K.run_lines(os.path.join(bindir, "h_samply"), ["psd"], [_line(c) for c in cases])
    if rc != 0 or len(outl) != len(cases):
        raise K.TieBroken("h_samply psd failed (rc=%s, %d/%d lines): %s" % (rc, len(outl), len(cases), err[-500:]))
    terms = []
    for c, l in zip(cases, outl):
        if l.strip() == "P":
            per = [["P"]] * len(c["items"])
        else:
            per = [p.split() for p in l.split("|")]
            if len(per) != len(c["items"]):
                per = [["P"]] * len(c["items"])
        ss = []
        for s, toks in zip(c["items"], per):
            segs = K.coq_list([_coq_seg(sg) for sg in s["segs"]])
            obs = K.coq_list([_oseg(t) for t in toks])
            ss.append("(%s, %s, %s)" % ("true" if s["extra"] else "false", segs, obs))
        terms.append(K.coq_list(ss))
    shards = ["Definition cases : list (list sample) := %s.\nEval vm_compute in (map verdict cases).\n" % K.coq_list(ch)
              for ch in K.chunked(terms, K.NCPU)]
    try:
        res = K.coq_eval(PROP, "From SV Require Import Model.FrameLimit Tie.C14.\nFrom Coq Require Import NArith.\nOpen Scope N_scope.", shards)
    except RuntimeError as ex:
        raise K.TieBroken(str(ex))
    flat = [v for r in res for v in r]
    if len(flat) != len(cases):
        raise K.TieBroken("verdict count mismatch %d vs %d" % (len(flat), len(cases)))
    return flat


def known(case):
    return None


def describe(case):
    return {"via": "samply import (perf.data)" if case.get("kind") == "e2e" else "flush_samples_to_profile",
            "samples": [{"extra": s["extra"], "depth": s["depth"], "markers": sum(1 for sg in s["segs"] if sg[0] == "t")} for s in case["items"]]}


def distribution(cases):
    d = {"samples": 0, "with_extra": 0, "with_marker": 0, "depth_hist": {}}
    for c in cases:
        for s in c["items"]:
            d["samples"] += 1
            d["with_extra"] += 1 if s["extra"] else 0
            d["with_marker"] += 1 if any(sg[0] == "t" for sg in s["segs"]) else 0
            b = "%d" % (min(s["depth"], 5200) // 200 * 200)
            d["depth_hist"][b] = d["depth_hist"].get(b, 0) + 1
    return d


def run(out, tier, seed, replay):
    K.standard_flow(out, sys.modules[__name__], tier, seed, replay)
