# C14 — stack depth limiting.  Model: coq/Model/FrameLimit.v; tie: harness/h_samply psd mode
# (ProcessSampleData::flush_samples_to_profile driven directly; samply/src/shared/*.rs compiled in by #[path]).
import os, sys
from . import common as K

PROP = "C14"
RULE = ("cases = 1..6 samples flushed together through ProcessSampleData::flush_samples_to_profile, each a call chain of distinct unmapped "
        "addresses (so the serialized function name identifies the frame) with depth drawn from: every depth 0..1200 (sampled), m*200+r for m<=25 and "
        "r in {-2..2, 99..101, 199}, with/without the extra per-CPU label frame, with 0..2 truncated-stack markers at arbitrary positions; "
        "several deep samples of different depths share one flush and one thread. Observed: each sample's stack walked in the serialized JSON "
        "(stackTable -> frameTable -> funcTable.name), placeholder count parsed from its label. non-trivial = at least one sample of the case has >= 500 real frames")
TRUSTED = ["harness h_samply (module tree of samply/src/shared compiled in by #[path]); serde_json read-back and run-length encoding of the frame lists",
           "the constant 200 is regenerated from stack_depth_limiting_frame_iter.rs (tools/consts.py) and C14_limit_constant re-proved on every run"]
ASSUMPTIONS = ["JS/ART label-frame insertion (passes 3-4 of stack_converter.rs) is not exercised: it adds frames beyond the hint and is outside the property's quantifier",
               "at exactly 500 frames both outcomes are accepted by the checker (with the extra label frame the hint is 499)"]


def prove():
    return K.prove(PROP, extra_targets=["Tie/C14.vo"])


def _depth(rng, quick):
    r = rng.below(100)
    if r < 35:
        return rng.below(1201)
    if r < 85:
        m = rng.range(2, 25 if not quick else 12)
        return max(0, m * 200 + rng.choice([-2, -1, 0, 1, 2, 99, 100, 101, 199]))
    if r < 95:
        return rng.choice([0, 1, 2, 199, 200, 201, 498, 499, 500, 501, 502, 699, 700, 701])
    return rng.range(1200, 5200 if not quick else 2600)


def gen(tier, rng, scale):
    quick = tier == "quick"
    cases = []
    for ci in range((260 if quick else 4000) * scale):
        ns = rng.range(1, 6)
        items = []
        base = 100000
        for si in range(ns):
            d = _depth(rng, quick)
            extra = rng.chance(1, 3)
            nm = rng.choice([0, 0, 0, 1, 1, 2])
            step = rng.choice([8, 16, 24])
            if si > 0 and rng.chance(1, 4):
                pass                       # reuse the same base: shared prefix with the previous sample
            else:
                base += 1000000
            # segments: split the d frames at nm marker positions
            cuts = sorted(rng.below(d + 1) for _ in range(nm))
            segs = []
            prev = 0
            for c in cuts:
                if c > prev:
                    segs.append(["g", c - prev, base + prev * step, step])
                segs.append(["t"])
                prev = c
            if d > prev:
                segs.append(["g", d - prev, base + prev * step, step])
            items.append({"extra": extra, "segs": segs, "depth": d})
        cases.append({"items": items})
    return cases


def with_items(case, items):
    return {"items": items}


def _line(c):
    toks = []
    for k, s in enumerate(c["items"]):
        toks += ["S", str(k + 1), "1" if s["extra"] else "0"]
        for sg in s["segs"]:
            toks.append("t" if sg[0] == "t" else "g%d:%d:%d" % (sg[1], sg[2], sg[3]))
        toks.append(";")
    return " ".join(toks)


def _oseg(tok):
    if tok.startswith("U"):
        body = tok[1:]
        if "*" in body:
            a, rest = body.split("*")
            c, st = rest.split(":")
            return "ORun %s %s %s" % (a, c, st)
        return "ORun %s 1 0" % body
    if tok.startswith("E") and tok[1:].isdigit():
        return "OE %s" % tok[1:]
    if tok == "X":
        return "OX"
    return "OBad"


def evaluate(cases):
    if not cases:
        return []
    ok, log, bindir = K.cargo_build("h_samply")
    if not ok:
        raise K.TieBroken("harness h_samply does not build against the current tree:\n" + log[-1500:])
    rc, outl, err = K.run_lines(os.path.join(bindir, "h_samply"), ["psd"], [_line(c) for c in cases])
    if rc != 0 or len(outl) != len(cases):
        raise K.TieBroken("h_samply psd failed (rc=%s, %d/%d lines): %s" % (rc, len(outl), len(cases), err[-500:]))
    terms = []
    for c, l in zip(cases, outl):
        if l.strip() == "P":
            per = [["P"]] * len(c["items"])
        else:
            per = [p.split() for p in l.split("|")]
            if len(per) != len(c["items"]):
                per = [["P"]] * len(c["items"])
        ss = []
        for s, toks in zip(c["items"], per):
            segs = K.coq_list(["Mark" if sg[0] == "t" else "Seg %d %d %d" % (sg[1], sg[2], sg[3]) for sg in s["segs"]])
            obs = K.coq_list([_oseg(t) for t in toks])
            ss.append("(%s, %s, %s)" % ("true" if s["extra"] else "false", segs, obs))
        terms.append(K.coq_list(ss))
    shards = ["Definition cases : list (list sample) := %s.\nEval vm_compute in (map verdict cases).\n" % K.coq_list(ch)
              for ch in K.chunked(terms, K.NCPU)]
    try:
        res = K.coq_eval(PROP, "From SV Require Import Model.FrameLimit Tie.C14.\nFrom Coq Require Import NArith.\nOpen Scope N_scope.", shards)
    except RuntimeError as ex:
        raise K.TieBroken(str(ex))
    flat = [v for r in res for v in r]
    if len(flat) != len(cases):
        raise K.TieBroken("verdict count mismatch %d vs %d" % (len(flat), len(cases)))
    return flat


def known(case):
    return None


def describe(case):
    return [{"extra": s["extra"], "depth": s["depth"], "markers": sum(1 for sg in s["segs"] if sg[0] == "t")} for s in case["items"]]


def distribution(cases):
    d = {"samples": 0, "with_extra": 0, "with_marker": 0, "depth_hist": {}}
    for c in cases:
        for s in c["items"]:
            d["samples"] += 1
            d["with_extra"] += 1 if s["extra"] else 0
            d["with_marker"] += 1 if any(sg[0] == "t" for sg in s["segs"]) else 0
            b = "%d" % (min(s["depth"], 5200) // 200 * 200)
            d["depth_hist"][b] = d["depth_hist"].get(b, 0) + 1
    return d


def run(out, tier, seed, replay):
    K.standard_flow(out, sys.modules[__name__], tier, seed, replay)
