# C09 — /source/v1 confinement.  Model: coq/Model/SourceApi.v; tie: harness/h_api src mode (Api::query_api + a helper that logs
# every file it is asked to load; the frames of the offset come from a direct lookup).
import json, os, sys
from . import common as K
from . import apienv

PROP = "C09"
RULE = ("cases = /source/v1 requests (module, offset, file) over the fixture binaries with debug info and generated Breakpad modules whose FILE records use plain, relative, Windows and "
        "special-path (hg: / git: / s3: / cargo:) spellings, one of them with function / line-record / inline-range boundaries on odd and even addresses and a different file on each side: the files reported for that offset (outer and inline frames), "
        "files reported for OTHER offsets of the same module (among them the neighbouring bytes), arbitrary absolute and "
        "relative paths, prefixes / suffixes / case variants / '..'-, '//'-, '/./'- and trailing-slash decorations of permitted paths, whitespace-padded variants, respellings of special paths, "
        "modules that cannot be loaded, offsets without debug info. Observed: the locations the helper was asked to load because of the request (beyond what loading the symbol map touches) and the response class. "
        "non-trivial = the requested path is not listed for the offset although other paths are")
TRUSTED = ["harness h_api/src/sym.rs: API spelling of a SourceFilePath re-implemented for the oracle; load log of the helper; the source files do not exist on disk, so an accepted request shows up as a load ATTEMPT of the debug-info path plus a file-read error",
           "location_for_source_file maps a debug-info path to the location that is loaded (identity in the harness helper)"]
ASSUMPTIONS = ["the set of locations touched while loading the symbol map and looking the offset up is subtracted from the request's load log"]

_env = None


def prove():
    return K.prove(PROP, extra_targets=["Tie/C09.vo"])


def _variants(rng, p):
    v = [p + "/", p + "/.", p.replace("/", "//", 1) if "/" in p else p + "x", p.upper() if p.upper() != p else p.lower(), p[:-1], p + "x", " " + p, p + " ",
         "./" + p, "/" + p, p.replace("/", "/./", 1) if "/" in p else "./" + p]
    if "/" in p:
        head, _, tail = p.rpartition("/")
        v += [head + "/../" + head.rpartition("/")[2] + "/" + tail, head + "/x/../" + tail, tail]
    if p.startswith(("hg:", "git:", "s3:", "cargo:")):
        parts = p.split(":")
        v += [":".join(parts[1:]), parts[0].upper() + ":" + ":".join(parts[1:]), ":".join(parts[:-1]), p.replace(":", "/", 1)]
    return [x for x in v if x != p]


def gen(tier, rng, scale):
    quick = tier == "quick"
    global _env
    try:
        if _env is None:
            _env = apienv.Env("c09")
        mods = _env.modules
    except K.TieBroken:
        mods = [{"debugName": "genmod1.so", "breakpadId": "AAAA0000BBBB1111CCCC2222DDDD33330", "offsets": [0x1000, 0x1012], "kind": "generated"}]
    cases = []
    arbitrary = ["/etc/passwd", "/etc/hostname", "relative/file.c", "../../etc/passwd", "", "/", "C:\\Windows\\system.ini", "hg:hg.mozilla.org/mozilla-central:evil.cpp:0000", "/repo/Cargo.toml"]
    for ci in range((260 if quick else 5000) * scale):
        m = rng.choice([x for x in mods if x["kind"] == "generated"] * 3 + mods)
        # modules whose debug info maps raw paths to a different API spelling (srcsrv / special paths) get extra weight
        mapped = [x for x in mods if x["debugName"].endswith(".pdb")]
        if mapped and rng.chance(1, 6):
            m = rng.choice(mapped)
        odd = [x for x in mods if x["debugName"].startswith("genmod3")]
        if odd and rng.chance(1, 4):
            m = odd[0]                              # the module whose boundaries fall on odd and even addresses
        off = rng.choice(m["offsets"])
        special = [o for o in m["offsets"] if 0xA000 <= o < 0xC000]      # offsets whose inner frames have no file while an outer frame has one
        if special and rng.chance(1, 3):
            off = rng.choice(special)
        other = rng.choice(m["offsets"])
        if rng.chance(1, 2):
            other = max(0, off + rng.choice([-1, -1, 1, -2, 2]))      # the files of the neighbouring byte (another function / line record / inline range)
        r = rng.below(100)
        kind = "listed" if r < 25 else "other-offset" if r < 40 else "variant" if r < 80 else "arbitrary"
        if rng.chance(1, 25):
            m = {"debugName": "nope.so", "breakpadId": rng.choice(["00000000000000000000000000000000A", "zz"]), "offsets": [5]}
            off = 5
        cases.append({"items": [[m["debugName"], m["breakpadId"], off, other, kind, rng.next(), rng.choice(arbitrary)]]})
    return cases


def evaluate(cases):
    global _env
    if not cases:
        return []
    if _env is None:
        _env = apienv.Env("c09")
    env = _env
    try:
        # first pass: which files do the offsets list?  (the oracle part of the src output with an empty request)
        probe = []
        for c in cases:
            it = c["items"][0]
            probe.append("%s %s %s %d %s" % (env.dir, it[0], it[1], it[2], env.tmpfile("")))
            probe.append("%s %s %s %d %s" % (env.dir, it[0], it[1], it[3], env.tmpfile("")))
        rc, outl, err = K.run_lines(env.bin, ["src"], probe, timeout=1800)
        if rc != 0 or len(outl) != len(probe):
            raise K.TieBroken("h_api src (probe) failed (rc=%s): %s" % (rc, err[-500:]))
        lines = []
        requested = []
        for i, c in enumerate(cases):
            it = c["items"][0]
            a = json.loads(outl[2 * i])
            b = json.loads(outl[2 * i + 1])
            listed = [f["file"] for f in (a["frames"] or []) if f]
            listed += [f for f in a.get("symfiles", []) if f not in listed]          # ... and what /symbolicate/v5 itself reports there
            listed_other = [f["file"] for f in (b["frames"] or []) if f and f["file"] not in listed]
            rng = K.SplitMix64(it[5])
            kind = it[4]
            if kind == "listed" and listed:
                req = rng.choice(listed)
            elif kind == "other-offset" and listed_other:
                req = rng.choice(listed_other)
            elif kind == "variant" and listed:
                req = rng.choice(_variants(rng, rng.choice(listed)))
            else:
                req = it[6]
            requested.append(req)
            lines.append("%s %s %s %d %s" % (env.dir, it[0], it[1], it[2], env.tmpfile(req)))
        rc, outl2, err = K.run_lines(env.bin, ["src"], lines, timeout=1800)
        if rc != 0 or len(outl2) != len(cases):
            raise K.TieBroken("h_api src failed (rc=%s): %s" % (rc, err[-500:]))
    finally:
        env.close()
        _env = None
    terms = []
    for c, req, l in zip(cases, requested, outl2):
        o = json.loads(l)
        I = {}

        def intern(s):
            if s not in I:
                I[s] = len(I) + 1
            return I[s]

        c["_requested"] = req
        frames = "None" if o["frames"] is None else "(Some %s)" % K.coq_list(
            ["None" if f is None else "(Some (%d, %d))" % (intern("api:" + f["file"]), intern("raw:" + f["raw"])) for f in o["frames"]])
        reads = [intern("raw:" + r) for r in o["reads"]]
        c["_reads"] = o["reads"]
        resp = o["resp"]
        err_s = resp.get("error", "") if isinstance(resp, dict) else "bad"
        accepted_class = 0 if (isinstance(resp, dict) and ("error" not in resp or "reading the file" in err_s)) else 1
        terms.append("(%s, %s, %d, %s, %d)" % ("true" if o["load"] else "false", frames, intern("api:" + req), K.coq_list([str(x) for x in reads]), accepted_class))
    shards = [K.case_defs("(bool * option (list (option sfile)) * N * list N * N)", ch) for ch in K.chunked(terms, K.NCPU)]
    try:
        res = K.coq_eval(PROP, "From SV Require Import Model.Symbolicate Model.SourceApi Tie.C09.\nOpen Scope N_scope.", shards)
    except RuntimeError as ex:
        raise K.TieBroken(str(ex))
    flat = [v for r in res for v in r]
    if len(flat) != len(cases):
        raise K.TieBroken("verdict count mismatch %d vs %d" % (len(flat), len(cases)))
    # the property's last sentence, decided on the two API answers alone: a path /symbolicate/v5 reports for the offset is accepted by /source/v1
    for i, (c, req, l) in enumerate(zip(cases, requested, outl2)):
        o = json.loads(l)
        resp = o["resp"]
        # accepted = the source text came back, or a read of a file was at least attempted (the source files do not exist on disk)
        refused = not (isinstance(resp, dict) and "error" not in resp) and not o["reads"]
        if req in o.get("symfiles", []) and refused and flat[i] % 10 != 2:
            c["_out"] = "/symbolicate/v5 reports %r for this offset, /source/v1 refuses it: %s" % (req, str(resp)[:200])
            flat[i] = flat[i] - flat[i] % 10 + 2
    return flat


def known(case):
    return None


def describe(case):
    it = case["items"][0]
    return {"module": it[0], "offset": hex(it[2]), "kind": it[4], "requested_path": case.get("_requested"), "files_loaded_because_of_request": case.get("_reads")}


def distribution(cases):
    d = {"kinds": {}, "accepted_reads": 0}
    for c in cases:
        k = c["items"][0][4]
        d["kinds"][k] = d["kinds"].get(k, 0) + 1
        d["accepted_reads"] += 1 if c.get("_reads") else 0
    return d


def run(out, tier, seed, replay):
    K.standard_flow(out, sys.modules[__name__], tier, seed, replay)
