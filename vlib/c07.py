# C07 — /symbolicate/v5 shape and truthfulness.  Model: coq/Model/Symbolicate.v; tie: harness/h_api sym mode
# (Api::query_api + direct SymbolMap lookups of every requested (module, offset) as oracle).
import json, os, sys
from . import common as K
from . import apienv

PROP = "C07"
RULE = ("cases = /symbolicate/v5 requests over one symbol directory holding the non-emptied fixture binaries (ELF with DWARF, ELF + separate debug file, Mach-O, PE) and generated Breakpad modules "
        "with inline records: 1..4 jobs with or without the `jobs` wrapper, memory maps with repeated, unknown, malformed-id and unused modules, the same module shared between jobs and at "
        "several indices of one map, stacks of length 0..12 (including empty stacks), offsets at function starts, inside functions, in gaps and beyond the image; a separate stream with "
        "a module index outside the memory map. The oracle is obtained by loading each module's symbol map directly and looking every requested offset up (including external debug info). "
        "non-trivial = more than one job or a module that fails to load, and at least one frame with debug info")
TRUSTED = ["harness h_api/src/sym.rs re-implements to_api_file_path (4 lines) for the oracle and parses the request JSON itself",
           "a line number 0 in the debug info is omitted by the API (NonZeroU32); the specification mirrors that (nz)",
           "JSON cannot distinguish an absent debug_info from one with all fields absent; both are identified"]
ASSUMPTIONS = ["well-formed requests only (malformed requests are C08's concern)"]


def prove():
    return K.prove(PROP, extra_targets=["Tie/C07.vo"])


_env = None


def gen(tier, rng, scale):
    quick = tier == "quick"
    global _env
    try:
        if _env is None:
            _env = apienv.Env("c07")
        mods = _env.modules
    except K.TieBroken:
        mods = [{"debugName": "example-linux", "breakpadId": "BE4E976C325246EE9D6B7847A670B2A90", "offsets": [4448, 4460], "kind": "fixture"}]
    unknown = [("nope.so", "00000000000000000000000000000000A"), ("bad-id.so", "xyz"), ("example-linux", "BE4E976C325246EE9D6B7847A670B2A91"),
               # empty strings are strings too: a module with no name, with no id, with neither
               ("", "44E4EC8C2F41492B9369D6B9A059577C2"), ("noid.so", ""), ("", ""), (" ", "44E4EC8C2F41492B9369D6B9A059577C2")]
    cases = []
    for ci in range((220 if quick else 4000) * scale):
        njobs = rng.choice([1, 1, 2, 2, 3, 4])
        wrapper = True if njobs > 1 else rng.chance(1, 2)
        pool = [rng.choice(mods) for _ in range(rng.range(1, 3))]
        jobs = []
        bad_index = rng.chance(1, 12)
        for ji in range(njobs):
            mm = []
            for _ in range(rng.range(1, 5)):
                r = rng.below(10)
                if r < 6:
                    m = rng.choice(pool)
                    # the id as printed, or the same id in lower case (both spellings name the same build)
                    mm.append([m["debugName"], m["breakpadId"] if not rng.chance(1, 8) else m["breakpadId"].lower(), m])
                elif r < 7:
                    u = rng.choice(unknown)
                    mm.append([u[0], u[1], None])
                elif r < 8:
                    # another name under the id of a real module: a different module as far as the memory map is concerned (it has no file here)
                    m = rng.choice(pool)
                    mm.append([rng.choice([m["debugName"] + "-renamed", "x" + m["debugName"], m["debugName"].upper() + "_"]), m["breakpadId"], None])
                else:
                    m = rng.choice(mods)
                    mm.append([m["debugName"], m["breakpadId"], m])
            stacks = []
            for _ in range(rng.range(0, 4)):
                st = []
                for _ in range(rng.choice([0, 1, 2, 3, 5, 12])):
                    idx = rng.below(len(mm))
                    m = mm[idx][2]
                    if m is not None:
                        off = rng.choice(m["offsets"]) if rng.chance(4, 5) else rng.below(0x200000)
                    else:
                        off = rng.below(0x10000)
                    st.append([idx, off & 0xFFFFFFFF])
                stacks.append(st)
            if bad_index and ji == njobs - 1:
                if not stacks:
                    stacks.append([])
                stacks[rng.below(len(stacks))].append([len(mm) + rng.below(3), 5])
            jobs.append({"memoryMap": [[a, b] for a, b, _ in mm], "stacks": stacks})
        req = {"jobs": jobs} if wrapper else jobs[0]
        cases.append({"items": [json.dumps(req)], "tag": "bad-index" if bad_index else "main"})
    return cases


class Interner:
    def __init__(self):
        self.d = {}

    def __call__(self, s):
        if s not in self.d:
            self.d[s] = len(self.d) + 1
        return self.d[s]


def _opt(v, f=str):
    return "None" if v is None else "(Some %s)" % f(v)


def _hexv(s):
    return int(s, 16)


def _coq_case(req, out, I):
    jobs = req["jobs"] if "jobs" in req else [req]

    def lib(m):
        return "(%d, %d)" % (I(m[0]), I(m[1]))

    js = K.coq_list(["(mkJob %s %s)" % (K.coq_list([lib(m) for m in j["memoryMap"]]),
                                        K.coq_list([K.coq_list(["(%d, %d)" % (f[0], f[1]) for f in st]) for st in j["stacks"]])) for j in jobs])
    orc = []
    for o in out["oracle"]:
        ents = []
        for a, v in o["addrs"]:
            if v is None:
                ents.append("(%d, None)" % a)
            else:
                fr = "None" if v["frames"] is None else "(Some %s)" % K.coq_list(
                    ["(%s, %s, %s)" % (_opt(f["function"], lambda s: str(I(s))), _opt(f["file"], lambda s: str(I(s))), _opt(f["line"])) for f in v["frames"]])
                ents.append("(%d, Some (mkAi %d %d %s %s))" % (a, v["sym_addr"], I(v["name"]), _opt(v["size"]), fr))
        orc.append("((%d, %d), %s, %s)" % (I(o["debugName"]), I(o["breakpadId"]), "true" if o["load"] else "false", K.coq_list(ents)))
    resp = out["resp"]
    if not isinstance(resp, dict) or "_invalid_json" in resp:
        ob = "OBad"
    elif "error" in resp:
        ob = "OErr"
    else:
        rs = []
        for j, r in zip(jobs, resp["results"]):
            keymap = {"%s/%s" % (m[0], m[1]): m for m in j["memoryMap"]}
            stacks = []
            for st in r["stacks"]:
                fl = []
                for f in st:
                    sym = "None"
                    if "function" in f:
                        dbg = "None"
                        if any(k in f for k in ("file", "line", "inlines")):
                            inl = K.coq_list(["(%s, %s, %s)" % (_opt(x.get("function"), lambda s: str(I(s))), _opt(x.get("file"), lambda s: str(I(s))), _opt(x.get("line")))
                                              for x in f.get("inlines", [])])
                            dbg = "(Some (mkDi %s %s %s))" % (_opt(f.get("file"), lambda s: str(I(s))), _opt(f.get("line")), inl)
                        sym = "(Some (mkSym %d %d %s %s))" % (I(f["function"]), _hexv(f["function_offset"]),
                                                              _opt(f.get("function_size"), lambda s: str(_hexv(s))), dbg)
                    fl.append("(mkRf %d %d %d %s)" % (f["frame"], _hexv(f["module_offset"]), I(f["module"]), sym))
                stacks.append(K.coq_list(fl))
            found = []
            bad = False
            for k, v in r["found_modules"].items():
                if k not in keymap:
                    bad = True
                    continue
                found.append("(%s, %s)" % (lib(keymap[k]), "true" if v else "false"))
            errs = [lib(keymap[k]) for k in r.get("module_errors", {}) if k in keymap]
            if bad or len(r.get("module_errors", {})) != len(errs):
                found.append("((0, 0), true)")        # an entry for a module that is not in the memory map: fails chk_job
            rs.append("(%s, %s, %s)" % (K.coq_list(stacks), K.coq_list(found), K.coq_list(errs)))
        ob = "(OOk %s)" % K.coq_list(rs)
        if len(resp["results"]) != len(jobs):
            ob = "OBad"
    return "(%s, %s, %s)" % (js, K.coq_list(orc), ob)


def evaluate(cases):
    global _env
    if not cases:
        return []
    if _env is None:
        _env = apienv.Env("c07")
    env = _env
    try:
        lines = []
        for c in cases:
            lines.append("%s %s" % (env.dir, env.tmpfile(c["items"][0])))
        rc, outl, err = K.run_lines(env.bin, ["sym"], lines, timeout=1800)
        if rc != 0 or len(outl) != len(cases):
            raise K.TieBroken("h_api sym failed (rc=%s, %d/%d lines): %s" % (rc, len(outl), len(cases), err[-500:]))
        terms = []
        for c, l in zip(cases, outl):
            terms.append(_coq_case(json.loads(c["items"][0]), json.loads(l), Interner()))
    finally:
        env.close()
        _env = None
    shards = [K.case_defs("(list job * oracle * observed)", ch) for ch in K.chunked(terms, K.NCPU)]
    try:
        res = K.coq_eval(PROP, "From SV Require Import Model.Symbolicate Tie.C07.\nOpen Scope N_scope.", shards)
    except RuntimeError as ex:
        raise K.TieBroken(str(ex))
    flat = [v for r in res for v in r]
    if len(flat) != len(cases):
        raise K.TieBroken("verdict count mismatch %d vs %d" % (len(flat), len(cases)))
    return flat


def known(case):
    return None


def describe(case):
    return {"request": case["items"][0][:700]}


def distribution(cases):
    d = {"jobs_hist": {}, "with_wrapper": 0, "bad_index": 0, "frames": 0, "empty_stacks": 0}
    for c in cases:
        r = json.loads(c["items"][0])
        jobs = r["jobs"] if "jobs" in r else [r]
        d["with_wrapper"] += 1 if "jobs" in r else 0
        d["jobs_hist"][str(len(jobs))] = d["jobs_hist"].get(str(len(jobs)), 0) + 1
        d["bad_index"] += 1 if c.get("tag") == "bad-index" else 0
        for j in jobs:
            for st in j["stacks"]:
                d["frames"] += len(st)
                d["empty_stacks"] += 1 if not st else 0
    return d


def run(out, tier, seed, replay):
    K.standard_flow(out, sys.modules[__name__], tier, seed, replay)
