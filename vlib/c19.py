# C19 — a saved profile carries enough library identity for the server to symbolicate it.
# Model: coq/Model/LibIdentity.v (serializer and pre-parser translated field by field from the sources, Generated/Consts.v).
# Tie: (a) code-id string codec, differential against samply-symbols (h_symbols cidrt); (b) end to end: generated perf.data that maps ELF files ->
# `samply import --save-only` (.json and .json.gz) -> `samply load` -> POST /<token>/symbolicate/v5 for every library of libs[] and every address
# the profile uses -> compared with direct lookups in the file at the recorded path (h_symbols names).
import gzip, json, os, shutil, struct, subprocess, sys, time
from concurrent.futures import ThreadPoolExecutor
from . import common as K
from . import perfdata as P
from . import c18

PROP = "C19"
RULE = ("cases: (a) codec - code ids of all three kinds (PE timestamp/size incl. 0 and u32::MAX, Mach-O UUIDs, ELF build ids of 0..40 bytes incl. the lengths 1..8 and 16-byte ids with and without hex letters): "
        "printed by the implementation, read back by the implementation, compared with the original and with the model; (b) end to end - recordings with 1..3 processes mapping 1..4 ELF files each "
        "(fixtures with debug info / stripped / with .gnu_debuglink, and ELF files generated with gcc+ld: PIE and non-PIE, default sha1 build id, custom build ids of 1..20 bytes, no build id; copied "
        "under different file names, or recorded under a path that does not exist while the binary lies next to perf.data) at arbitrary page-aligned load addresses, mapping the executable segment from its first or a later page; samples with 1..6 frames at random addresses inside the mappings; "
        "converted by `samply import --save-only` to .json or .json.gz; served by `samply load`; every library of libs[] asked for by (debugName, breakpadId) with every relative address its frames use. "
        "non-trivial = an ambiguous code id (a), or a profile with at least two libraries (b)")
TRUSTED = ["the breakpad-id codec of the debugid crate (a section hypothesis of the theorems; every id met end to end goes through it)",
           "vlib/perfdata.py (perf.data writer) and the ELF program-header reader in vlib/c19.py",
           "h_symbols names: SymbolManager::load_symbol_map_from_location + lookup_sync(Relative) as the 'direct lookup'",
           "serde_json / flate2 (JSON and gzip layers); the HTTP layer (C18)"]
ASSUMPTIONS = ["the mapped files stay in place between import and load", "only ELF inputs (the property's quantifier); Mach-O/PE profiles come from other importers"]

FX = os.path.join(K.REPO, "fixtures")
ELF_FIXTURES = ["other/example-linux", "other/example-linux-fallback", "other/ls-linux/ls", "other/simple-example/out/regular-debuglink/main", "other/simple-example/out/with-dwp/main",
                "linux64-ci/firefox"]
_state = {}


def prove():
    return K.prove(PROP, extra_targets=["Tie/C19.vo"])


def _bins():
    ok, log, samply = K.cargo_build_samply()
    if not ok:
        raise K.TieBroken("samply does not build:\n" + log[-1500:])
    ok, log, bindir = K.cargo_build("h_symbols")
    if not ok:
        raise K.TieBroken("harness h_symbols does not build against the current tree:\n" + log[-1500:])
    return samply, os.path.join(bindir, "h_symbols")


# ---------- ELF helpers ----------
def elf_exec_segment(path):
    """(e_type, p_offset, p_vaddr, p_memsz) of the first executable PT_LOAD of an ELF64/ELF32 file of either byte order"""
    d = open(path, "rb").read(4096 * 4)
    if d[:4] != b"\x7fELF":
        return None
    is64 = d[4] == 2
    E = ">" if d[5] == 2 else "<"
    if is64:
        e_type, = struct.unpack_from(E + "H", d, 16)
        e_phoff, = struct.unpack_from(E + "Q", d, 32)
        e_phentsize, e_phnum = struct.unpack_from(E + "HH", d, 54)
    else:
        e_type, = struct.unpack_from(E + "H", d, 16)
        e_phoff, = struct.unpack_from(E + "I", d, 28)
        e_phentsize, e_phnum = struct.unpack_from(E + "HH", d, 42)
    for i in range(e_phnum):
        o = e_phoff + i * e_phentsize
        if is64:
            p_type, p_flags, p_offset, p_vaddr, _, p_filesz, p_memsz, _ = struct.unpack_from(E + "IIQQQQQQ", d, o)
        else:
            p_type, p_offset, p_vaddr, _, p_filesz, p_memsz, p_flags, _ = struct.unpack_from(E + "IIIIIIII", d, o)
        if p_type == 1 and (p_flags & 1):
            return e_type, p_offset, p_vaddr, p_memsz
    return None


_clang = []


def _have_clang():
    if not _clang:
        import shutil as _sh
        _clang.append(bool(_sh.which("clang") and _sh.which("ld.lld")))
    return _clang[0]


def gen_elf(rng, d, k):
    asm = [".text", ".globl _start", "_start:", "  nop"]
    for i in range(rng.range(2, 7)):
        name = "gen%d_fn%d" % (k, i)
        # varied bytes: the no-build-id fallback id is an XOR hash of the first page of .text, which degenerates to nil on uniform fill
        body = ", ".join(str(rng.below(256)) for _ in range(rng.range(4, 300)))
        asm += [".globl %s" % name, ".type %s, @function" % name, "%s:" % name, "  .byte " + body, ".size %s, .-%s" % (name, name)]
    s, o, exe = [os.path.join(d, "g%d.%s" % (k, e)) for e in ("s", "o", "elf")]
    open(s, "w").write("\n".join(asm) + "\n")
    # one file in five is built for another machine with clang + lld: big-endian and little-endian AArch64 (the build id of a big-endian file
    # is read in the file's own byte order by debug_id_for_object)
    target = rng.choice([None, None, None, None, "aarch64_be-linux-gnu", "aarch64_be-linux-gnu", "aarch64-linux-gnu"]) if _have_clang() else None
    if target:
        if subprocess.run(["clang", "--target=" + target, "-c", s, "-o", o], capture_output=True).returncode != 0:
            return None
        bid = rng.below(10)
        opt = ["--build-id=sha1"] if bid < 4 else ["--build-id=none"] if bid < 5 else ["--build-id=0x" + "".join(rng.choice("0123456789abcdef") for _ in range(2 * rng.choice([4, 8, 16, 20])))]
        args = ["ld.lld", o, "-o", exe, "-e", "_start", "-z", "max-page-size=0x1000"] + opt + rng.choice([[], ["-pie"], ["-pie"]])
        if subprocess.run(args, capture_output=True).returncode != 0:
            return None
        os.remove(s)
        os.remove(o)
        return exe
    if subprocess.run(["gcc", "-c", s, "-o", o], capture_output=True).returncode != 0:
        return None
    bid = rng.below(10)
    if bid < 3:
        opt = ["--build-id"]
    elif bid < 5:
        opt = ["--build-id=none"]
    else:
        n = rng.choice([1, 2, 4, 5, 8, 8, 9, 16, 16, 20])
        digits = "0123456789" if rng.chance(1, 2) else "0123456789abcdef"
        opt = ["--build-id=0x" + "".join(rng.choice(digits) for _ in range(2 * n))]
    args = ["ld", o, "-o", exe, "-e", "_start"] + opt + rng.choice([[], ["-pie"], ["-Ttext=0x401000"], ["-pie"]])
    if subprocess.run(args, capture_output=True).returncode != 0:
        return None
    os.remove(s)
    os.remove(o)
    return exe


# ---------- generation ----------
def gen(tier, rng, scale):
    quick = tier == "quick"
    cases = []
    for _ in range((150 if quick else 3000) * scale):
        r = rng.below(10)
        if r < 2:
            spec = "pe:%d:%d" % (rng.choice([0, 1, 0xFFFFFFFF, rng.below(1 << 32)]), rng.choice([0, 1, 15, 16, 0xFFFFFFFF, rng.below(1 << 32)]))
        elif r < 4:
            spec = "uuid:" + "".join(rng.choice("0123456789abcdef" if rng.chance(2, 3) else "0123456789") for _ in range(32))
        else:
            n = rng.choice([0, 1, 2, 3, 4, 5, 6, 7, 8, 8, 9, 12, 16, 16, 16, 17, 20, 20, 20, 32, 40])
            digits = "0123456789" if rng.chance(1, 3) else "0123456789abcdef"
            spec = "elf:" + "".join(rng.choice(digits) for _ in range(2 * n))
        cases.append({"kind": "codec", "items": [spec]})
    for _ in range((40 if quick else 600) * scale):
        nfiles = rng.range(1, 4)
        files = []
        for _ in range(nfiles):
            if rng.chance(1, 2):
                files.append(["fx", rng.choice(ELF_FIXTURES), rng.choice(["", "", "renamed.so", "lib with space.so", "moved:libmoved%d.so" % len(files), "lib\u00e9\u4e2d.so", 'lib"q".so', "lib\\b.so", "moved:lib'x%d.so" % len(files), "link:libver%d.so" % len(files),
                                                                        # upper-case letters outside ASCII (their lower-case forms exist, and are other file names)
                                                                        "lib\u00c9cole.so", "\u00dcBUNG.so", "LIB\u0130\u03a3.so", "moved:\u00c5ngstr\u00f6m%d.so" % len(files)])])
            else:
                files.append(["gen", rng.next(), rng.choice(["", "libgen.so.1", "a.out", "moved:genmoved%d.so" % len(files), "link:libgenver%d.so" % len(files)])])
        if len(files) >= 2 and rng.chance(1, 3):
            # two different binaries under one file name (the host's and a container's libc.so.6, two builds of one library in different directories):
            # the same debug name with different debug ids
            nm = rng.choice(["libsame.so", "libc.so.6", "plugin.so"])
            if files[0][0] == "fx" and files[1][0] == "fx" and files[0][1] == files[1][1]:
                files[1] = ["gen", rng.next(), nm]
            files[0][2] = nm
            files[1][2] = nm
        cases.append({"kind": "e2e", "gz": rng.chance(1, 2), "seed": rng.next(), "items": files})
    return cases


def with_items(case, items):
    c = {k: v for k, v in case.items() if not k.startswith("_")}
    c["items"] = items
    return c


# ---------- (b) one end-to-end case ----------
def _chunked_body(data):
    head, _, body = data.partition(b"\r\n\r\n")
    if b"transfer-encoding: chunked" in head.lower():
        out, rest = b"", body
        while rest:
            ln, _, rest = rest.partition(b"\r\n")
            try:
                n = int(ln.split(b";")[0], 16)
            except ValueError:
                break
            if n == 0:
                break
            out += rest[:n]
            rest = rest[n + 2:]
        body = out
    if b"content-encoding: gzip" in head.lower():
        body = gzip.decompress(body)
    return body


def run_e2e(samply, hsym, case, d, port_base):
    rng = K.SplitMix64(case["seed"])
    paths = []
    for i, (kind, arg, rename) in enumerate(case["items"]):
        if kind == "fx":
            p = os.path.join(FX, arg)
        else:
            sub = os.path.join(d, "g%d" % i)
            os.makedirs(sub, exist_ok=True)
            p = gen_elf(K.SplitMix64(arg), sub, i)
            if p is None:
                continue
        mapped_as = None
        if rename.startswith("moved:"):
            # the recording names a path that does not exist on this machine; the binary lies next to perf.data (where the importer also looks)
            q = os.path.join(d, rename[6:])
            shutil.copy(p, q)
            p = q
            mapped_as = "/no/such/dir%d/%s" % (i, rename[6:])
        elif rename.startswith("link:"):
            # the mapped path is a symbolic link to the binary (libfoo.so.1 -> libfoo.so.1.0, the usual layout of versioned shared objects)
            sub = os.path.join(d, "l%d" % i)
            os.makedirs(sub, exist_ok=True)
            q = os.path.join(sub, rename[5:] + ".1.0")
            shutil.copy(p, q)
            mapped_as = os.path.join(sub, rename[5:])
            os.symlink(os.path.basename(q), mapped_as)
            p = q
        elif rename:
            sub = os.path.join(d, "r%d" % i)
            os.makedirs(sub, exist_ok=True)
            q = os.path.join(sub, rename)
            shutil.copy(p, q)
            p = q
        if p.startswith(d) and (mapped_as or p).startswith(d) and (mapped_as or p).endswith(".so") and rng.chance(1, 2):
            # a stale companion next to the binary: <name>.so.dbg left over from ANOTHER build (a valid ELF with symbols, a different id).  It is tried
            # before the recorded binary and has to be passed over, not taken and not mistaken for "the library cannot be found"
            other = [f for f in ELF_FIXTURES if not (kind == "fx" and f == arg)]
            shutil.copy(os.path.join(FX, rng.choice(other)), (mapped_as or p) + ".dbg")
            case["_stale_dbg"] = case.get("_stale_dbg", 0) + 1
        seg = elf_exec_segment(p)
        if seg:
            paths.append((mapped_as or p, seg))
    if not paths:
        return {"skip": "no ELF could be produced"}
    T = 10 ** 9
    recs = []
    t = T
    nproc = rng.range(1, min(3, len(paths)))
    next_bias = 0x7F0000000000
    used = []
    for pi in range(nproc):
        pid = 100 + 10 * pi
        t += 10
        recs.append(P.comm(pid, pid, "proc%d" % pi, t, True))
        mine = [paths[j] for j in range(len(paths)) if j % nproc == pi] or [paths[0]]
        maps = []
        exec_taken = False
        for (p, (e_type, off, vaddr, memsz)) in mine:
            if e_type == 2:
                if exec_taken:
                    continue
                exec_taken = True
                bias = 0
            else:
                bias = next_bias
                next_bias += 0x10000000 + 4096 * rng.below(1000)
            pages = ((vaddr + memsz + 4095) // 4096) - (vaddr // 4096)
            skip = rng.below(pages) if (pages > 1 and rng.chance(1, 2)) else 0
            start = bias + (vaddr // 4096 + skip) * 4096
            length = (pages - skip) * 4096
            pgoff = (off // 4096 + skip) * 4096
            t += 5
            recs.append(P.mmap2(pid, pid, start, length, pgoff, p, t))
            lo = max(start, bias + vaddr)
            hi = min(start + length, bias + vaddr + memsz)
            if hi > lo:
                maps.append((lo, hi))
        for _ in range(rng.range(2, 10)):
            if not maps:
                break
            t += 1000
            chain = []
            for _ in range(rng.range(1, 6)):
                lo, hi = rng.choice(maps)
                chain.append(lo + rng.below(hi - lo))
            recs.append(P.sample(pid, pid, t, chain[0], [P.PERF_CONTEXT_USER] + chain))
        t += 100
        recs.append(P.exit_(pid, pid, pid, pid, t))
    recs.append(P.finished_round())
    pd = os.path.join(d, "rec.perf.data")
    open(pd, "wb").write(P.build(recs, first_time=T, last_time=t))
    outp = os.path.join(d, "out.json.gz" if case["gz"] else "out.json")
    if case["seed"] % 3 == 0:
        # the output path is in use already (an earlier, longer profile): saving replaces the file
        with open(outp, "wb") as f:
            f.write((gzip.compress if case["gz"] else bytes)(b'{"meta":{"note":"an earlier profile"},"libs":[],"threads":[' + b'{"x":1},' * 40000 + b'{}]}'))
    r = subprocess.run([samply, "import", pd, "--save-only", "-o", outp], capture_output=True, text=True, timeout=120)
    if r.returncode != 0 or not os.path.exists(outp):
        return {"error": "samply import failed: " + (r.stderr or r.stdout)[-300:]}
    raw = open(outp, "rb").read()
    try:
        prof = json.loads(gzip.decompress(raw) if case["gz"] else raw, object_pairs_hook=list)
    except Exception as ex:
        # nothing of such a file can be loaded back: no library it was meant to list is known to the server
        return {"error": "the saved profile is not a JSON document (%s; %d bytes)" % (str(ex)[:80], len(raw)), "violates": True}

    def obj(pairs):
        return dict(pairs)
    top = obj(prof)
    libs_pairs = top["libs"]
    libs = [obj(l) for l in libs_pairs]
    # addresses per lib
    addrs = {i: set() for i in range(len(libs))}
    for th in top["threads"]:
        th = obj(th)
        ft, fu, rt = obj(th["frameTable"]), obj(th["funcTable"]), obj(th["resourceTable"])
        for a, f in zip(ft["address"], ft["func"]):
            res = fu["resource"][f]
            if a is None or a < 0 or res is None or res < 0:
                continue
            li = rt["lib"][res]
            if li is not None and li >= 0:
                addrs[li].add(a)
    srv = c18.Server(samply, outp, port_base)
    answers = []
    try:
        for i, l in enumerate(libs):
            al = sorted(addrs[i])[:40]
            req = {"memoryMap": [[l.get("debugName"), l.get("breakpadId")]], "stacks": [[[0, a] for a in al]]}
            data = srv.request("POST", "/%s/symbolicate/v5" % srv.token, [("Content-Type", "application/json")], json.dumps(req).encode())
            try:
                resp = json.loads(_chunked_body(data))
                res0 = resp["results"][0]
                found = bool(res0["found_modules"].get("%s/%s" % (l.get("debugName"), l.get("breakpadId"))))
                names = [fr.get("function", "-") for fr in res0["stacks"][0]]
            except Exception as ex:
                found, names = False, ["<bad response: %s>" % str(ex)[:80]]
            answers.append({"lib": l, "addrs": al, "found": found, "names": names})
    finally:
        srv.stop()
    # direct lookups in the file at the recorded path
    lines = ["%s %s" % (a["lib"].get("path"), " ".join(str(x) for x in a["addrs"])) for a in answers]
    if any(" " in (a["lib"].get("path") or "") for a in answers):
        # the harness splits on whitespace: copy such files to a space-free name for the direct lookup
        lines = []
        for j, a in enumerate(answers):
            p = a["lib"].get("path") or ""
            if " " in p:
                q = os.path.join(d, "direct%d" % j)
                shutil.copy(p, q)
                p = q
            lines.append("%s %s" % (p, " ".join(str(x) for x in a["addrs"])))
    rc, outl, err = K.run_lines(hsym, ["names"], lines, timeout=300)
    if rc != 0 or len(outl) != len(lines):
        raise K.TieBroken("h_symbols names failed rc=%s: %s" % (rc, err[-300:]))
    for a, l in zip(answers, outl):
        parts = l.rstrip("\n").split("\x1f")
        a["direct_id"] = parts[0]
        a["direct"] = parts[1:]
    return {"libs_pairs": libs_pairs, "answers": answers}


# ---------- evaluation ----------
def _b(s):
    return K.coq_list([str(x) for x in s.encode("utf-8")])


def _cid_term(spec):
    parts = spec.split(":")
    if parts[0] == "pe":
        return "(IdPe %s %s)" % (parts[1], parts[2])
    bs = [int(parts[1][2 * i:2 * i + 2], 16) for i in range(len(parts[1]) // 2)]
    return "(%s %s)" % ("IdUuid" if parts[0] == "uuid" else "IdElf", K.coq_list([str(x) for x in bs]))


def _reparsed_term(r):
    t = r.split()
    if t[0] == "PE":
        return "(Some (IdPe %s %s))" % (t[1], t[2])
    if t[0] in ("UUID", "ELF"):
        h = t[1] if len(t) > 1 else ""
        bs = [int(h[2 * i:2 * i + 2], 16) for i in range(len(h) // 2)]
        return "(Some (%s %s))" % ("IdUuid" if t[0] == "UUID" else "IdElf", K.coq_list([str(x) for x in bs]))
    return "None"


def evaluate(cases):
    if not cases:
        return []
    samply, hsym = _bins()
    stats = _state.setdefault("stats", {"codec": 0, "e2e": 0, "e2e_skipped": 0, "libs": 0, "libs_without_code_id": 0, "addresses": 0, "gz": 0, "names_resolved": 0})
    verdicts = [None] * len(cases)
    terms = []
    idx = []
    codec = [(i, c) for i, c in enumerate(cases) if c["kind"] == "codec" and c["items"]]
    if codec:
        rc, outl, err = K.run_lines(hsym, ["cidrt"], [c["items"][0] for _, c in codec], timeout=300)
        if rc != 0 or len(outl) != len(codec):
            raise K.TieBroken("h_symbols cidrt failed rc=%s: %s" % (rc, err[-300:]))
        for (i, c), l in zip(codec, outl):
            printed, _, rep = l.rstrip("\n").partition(" | ")
            c["_out"] = l.strip()
            stats["codec"] += 1
            terms.append("(CCodec %s %s %s)" % (_cid_term(c["items"][0]), _b(printed), _reparsed_term(rep)))
            idx.append(i)
    e2e = [(i, c) for i, c in enumerate(cases) if c["kind"] == "e2e" and c["items"]]
    base = os.path.join(K.SCRATCH, "c19_%d" % os.getpid())
    shutil.rmtree(base, ignore_errors=True)
    os.makedirs(base)

    def one(k):
        i, c = e2e[k]
        d = os.path.join(base, "e%d" % k)
        os.makedirs(d)
        try:
            return run_e2e(samply, hsym, c, d, 43000 + (k % 400) * 20)
        finally:
            shutil.rmtree(d, ignore_errors=True)

    try:
        with ThreadPoolExecutor(max_workers=K.NCPU) as ex:
            results = list(ex.map(one, range(len(e2e))))
    finally:
        shutil.rmtree(base, ignore_errors=True)
    for (i, c), r in zip(e2e, results):
        if "skip" in r:
            verdicts[i] = 3
            stats["e2e_skipped"] += 1
            continue
        if "error" in r:
            c["_out"] = r["error"]
            verdicts[i] = 12 if r.get("violates") else 1
            continue
        stats["e2e"] += 1
        stats["gz"] += 1 if c["gz"] else 0
        objs = []
        for pairs in r["libs_pairs"]:
            objs.append(K.coq_list(['("%s"%%string, %s)' % (k.replace('"', ''), "JNull" if v is None else "(JStr %s)" % _b(v)) for k, v in pairs]))
        ans = []
        summary = []
        for a in r["answers"]:
            l = a["lib"]
            stats["libs"] += 1
            stats["libs_without_code_id"] += 1 if l.get("codeId") is None else 0
            stats["addresses"] += len(a["addrs"])
            stats["names_resolved"] += sum(1 for n in a["direct"] if n != "-")
            # module_offset-only answers carry no "function": the direct lookup must then have found nothing either
            names_ok = len(a["names"]) == len(a["direct"]) and all(x == y for x, y in zip(a["names"], a["direct"])) and a["direct_id"] == l.get("breakpadId")
            path = l.get("path")
            ans.append("(%s, %s, %s, %s, %s)" % (_b(l.get("debugName") or ""), _b(l.get("breakpadId") or ""), "None" if path is None else "(Some %s)" % _b(path),
                                                 "true" if a["found"] else "false", "true" if names_ok else "false"))
            summary.append({"lib": l, "found": a["found"], "names_ok": names_ok, "server": a["names"][:6], "direct": a["direct"][:6], "direct_id": a["direct_id"]})
        c["_out"] = summary
        terms.append("(CProfile %s %s)" % (K.coq_list(objs), K.coq_list(ans)))
        idx.append(i)
    shards = [K.case_defs("c19case", ch) for ch in K.chunked(terms, K.NCPU)]
    try:
        res = K.coq_eval(PROP, "From Coq Require Import String.\nFrom SV Require Import Lib.Bytes Model.LibIdentity Tie.C19.\nOpen Scope N_scope.", shards)
    except RuntimeError as ex:
        raise K.TieBroken(str(ex))
    flat = [v for r in res for v in r]
    if len(flat) != len(terms):
        raise K.TieBroken("verdict count mismatch %d vs %d" % (len(flat), len(terms)))
    for i, v in zip(idx, flat):
        verdicts[i] = v
    return [3 if v is None else v for v in verdicts]


def known(case):
    """F-C19: ELF build ids that the code-id string format cannot represent"""
    if case.get("kind") != "codec" or not case.get("items"):
        return None
    spec = case["items"][0]
    if not spec.startswith("elf:"):
        return None
    h = spec[4:]
    n = len(h) // 2
    if n <= 8 or (n == 16 and not any(ch in "abcdef" for ch in h)):
        return K.known_line(PROP, "F-C19")
    return None


def describe(case):
    d = {k: v for k, v in case.items() if not k.startswith("_")}
    if "_out" in case:
        d["observed"] = case["_out"]
    return d


def distribution(cases):
    return _state.get("stats", {})


def run(out, tier, seed, replay):
    K.standard_flow(out, sys.modules[__name__], tier, seed, replay)
