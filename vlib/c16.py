# C16 — cache files appear atomically.  Model: coq/Model/FileCreation.v (interleaving semantics of create_file_cleanly);
# tie: harness/h_fc — the real file_creation.rs (included by path, cfg(samply_verif) step hook) run by 2..5 creators in 1..4 OS
# processes on a scratch directory; this driver is the scheduler: it releases one creator step at a time, kills processes,
# observes dest / dest.part / dest.lock after every step, and hands the observed trace to the Coq model for replay.
import json, os, queue, shutil, signal, subprocess, sys, threading, time
from concurrent.futures import ThreadPoolExecutor
from . import common as K

PROP = "C16"
RULE = ("cases = schedules: 2..5 creators of one destination spread over 1..4 OS processes (creators of one process are threads with their own runtime), each with a write function of 0..3 chunks that "
        "succeeds or fails; a decision list releases one creator at a time by one protocol step (lock file opened, lock acquired, destination checked, temp opened, each chunk, write function returned, "
        "rename, temp removed, lock dropped, lock file unlinked) or SIGKILLs a process (all its creators die: before/after temp creation, mid-write, before rename, while blocked in flock); creators blocked "
        "in flock are woken by the kernel in whatever order it chooses and the trace records what happened; a decision may also CANCEL one creator (its future is dropped at its next await that is not ready - while waiting for the lock, inside the write function, "
        "or at any other await of the routine - while its runtime lives on, optionally with a busy blocking pool that is released later). After the decisions every live creator runs to completion, then a fresh creator whose write "
        "function succeeds is started (retry clause). After every step the three paths are observed (existence, full contents). The observed trace is replayed in the Coq model (conformance: same step "
        "taken, same observable file state) and the property is decided on the observations by a checker evaluated in Coq. non-trivial = a creator found the lock held when it arrived, or a kill / write failure happened while another creator was active")
TRUSTED = ["the cfg(samply_verif) hook verif_step in wholesym/src/file_creation.rs (reports each completed step, blocks until released)",
           "harness h_fc (one thread + current-thread runtime per creator, write function writing one 10-byte chunk at a time) and the scheduler in vlib/c16.py",
           "Linux flock/rename/unlink semantics as modelled (locks belong to inodes; rename is atomic); the model does not cover power loss, only process death",
           "instants between two protocol steps are observed, not instants inside one system call"]
ASSUMPTIONS = ["no other actor deletes the destination while creators run (external deletion is outside the property's quantifier)",
               "cancellation of a creator's future (dropped by the harness at the next await that is not ready, the creator's runtime and blocking pool living on) is the model's Kill event for that creator: both close the descriptors and clean nothing up"]

LABELS = ["lock-opened", "locked", "dest-missing", "dest-exists", "part-opened", "chunk", "write-ok", "write-err", "renamed", "rename-failed", "part-removed",
          "fail-unlocked", "unlocked", "lock-unlinked", "ex-unlocked", "ex-lock-unlinked", "result-existing", "result-written", "result-failed"]
LAB = {l: i for i, l in enumerate(LABELS)}
RETRY_ID = 99
_state = {}


def prove():
    return K.prove(PROP, extra_targets=["Tie/C16.vo"])


def _bin():
    ok, log, bindir = K.cargo_build("h_fc")
    if not ok:
        raise K.TieBroken("harness h_fc does not build against the current tree (hook missing?):\n" + log[-1500:])
    return os.path.join(bindir, "h_fc")


# ---------- generation ----------
def gen(tier, rng, scale):
    quick = tier == "quick"
    cases = []
    for ci in range((240 if quick else 4000) * scale):
        n = rng.choice([2, 2, 3, 3, 3, 4, 5])
        nproc = rng.range(1, min(4, n))
        creators = []
        for c in range(n):
            creators.append([c + 1, rng.below(nproc), rng.choice([0, 1, 2, 2, 3]), 1 if rng.chance(3, 5) else 0])
        # make sure every process index below nproc is used
        for p in range(nproc):
            if not any(cr[1] == p for cr in creators):
                creators[rng.below(n)][1] = p
        style = rng.below(9)
        decisions = []
        if style == 8:
            # time passes: creator 1 fails (its write function fails, or it is killed mid-way) and leaves its lock file behind; DAYS later (the files in
            # the directory get modification times two days back) creator 2 takes the lock and is somewhere in its write when creator 3 arrives
            n = max(n, 3)
            while len(creators) < n:
                creators.append([len(creators) + 1, rng.below(nproc), rng.choice([1, 2, 3]), 1])
            creators[0][3] = 0
            creators[1][3] = 1
            creators[1][2] = rng.choice([2, 3])
            k1 = 5 + creators[0][2]
            decisions += [[2, 1]] * (k1 if rng.chance(2, 3) else rng.range(2, k1))
            if rng.chance(1, 3):
                decisions.append([1, creators[0][1]])
            decisions.append([5, 0])
            decisions += [[2, 2]] * rng.range(3, 5 + creators[1][2])
            decisions += [[2, 3]] * rng.range(1, 8)
            for _ in range(rng.range(0, 20)):
                decisions.append([0, rng.below(64)] if rng.chance(9, 10) else [5, 0])
        elif style == 7:
            # a WAITER is cancelled: creator 1 takes the lock and is somewhere in its write, creator 2 arrives, finds the lock held and waits; its future
            # is dropped while it waits (or a little later); everybody else carries on
            decisions += [[2, 1]] * (4 + rng.range(0, creators[0][2]))
            decisions += [[2, 2]] * 2
            for _ in range(rng.range(0, 2)):
                decisions.append([2, 1])
            decisions.append([3, 2])
            for _ in range(rng.range(0, 12)):
                decisions.append([0, rng.below(64)] if rng.chance(9, 10) else [3, rng.range(1, n)])
        elif style == 6:
            # cancellation: creator 1 (its write function succeeds; the blocking pool of its runtime is busy until released) is run up to some
            # point - most often right up to the end of its write - and then CANCELLED (its future is dropped at the next await that is not
            # ready); other creators take over, the pool is released at some point, everybody finishes
            creators[0][3] = 1
            creators[0].append(1)
            nsteps = 5 + creators[0][2]
            k = nsteps if rng.chance(1, 2) else rng.range(1, nsteps)
            decisions += [[2, 1]] * k
            decisions.append([3, 1])
            for _ in range(rng.range(0, 3)):
                c = rng.range(2, n)
                decisions += [[2, c]] * rng.range(1, 6)
            decisions.append([4, 1])
            for _ in range(rng.range(0, 20)):
                decisions.append([0, rng.below(64)] if rng.chance(9, 10) else [3, rng.range(1, n)])
        elif style >= 4:
            # staggered arrivals: bursts of steps of one creator out of a window of admitted creators; later creators are admitted while earlier ones are mid-protocol
            if rng.chance(1, 2):
                creators[0][3] = 0
            window = [1]
            nxt = 2
            for _ in range(rng.range(4, 24)):
                c = rng.choice(window[-2:] if rng.chance(2, 3) else window)
                for _ in range(rng.range(1, 6)):
                    decisions.append([2, c])
                if nxt <= n and rng.chance(2, 5):
                    window.append(nxt)
                    decisions.append([2, nxt])
                    nxt += 1
                if rng.chance(1, 30):
                    decisions.append([1, rng.below(8)])
        for _ in range(rng.range(5, 60) if style < 4 else 0):
            if rng.chance(1, 30):
                decisions.append([3, rng.range(1, n)])          # cancel that creator's future (at its next await that is not ready)
            elif rng.chance(1, 14 if style != 3 else 6):
                decisions.append([1, rng.below(8)])
            else:
                # style 0: uniformly random; 1: sticky (keep running the same creator for a while); 2: prefer the newest arrival; 3: kill-heavy
                decisions.append([0, rng.below(64) if style in (0, 3) else (0 if rng.chance(3, 4) else rng.below(64)) if style == 1 else 63 - (0 if rng.chance(2, 3) else rng.below(8))])
        cases.append({"creators": creators, "items": decisions})
    cases += _gen_callers(tier, rng.fork("callers"), scale)
    return cases


def _gen_callers(tier, rng, scale):
    """a caller of create_file_cleanly end to end: the .symindex wholesym derives from a local .sym file, with the first attempt's writes failing
    (RLIMIT_FSIZE) at the first write, in the middle, in the last bytes, or not at all"""
    out = []
    for k in range((6 if tier == "quick" else 60) * scale):
        # (every sixth case has an index above 2 MiB - more than one write call's worth for tokio's file writes)
        n = rng.choice([300, 2000, 3000, 20000, 120000]) if k % 6 else rng.choice([120000, 160000])
        lim = rng.choice([0, 0, 1, 512, 4096, 65536, 10 ** 9]) if n < 120000 else rng.choice([0, 65536, 2 * 1024 * 1024 + 7, 10 ** 9, 10 ** 9])
        out.append({"kind": "caller", "items": [[n, lim]], "creators": []})
    # the other caller: a .sym file downloaded from a symbol server (download_to_file); the first response is cut short - inside a gzip stream of a
    # well-formed message, or by closing the connection before Content-Length bytes were sent - or complete
    for _ in range((5 if tier == "quick" else 50) * scale):
        out.append({"kind": "caller", "items": [["D", rng.choice([50, 3000, 40000]), rng.choice(["gzip", "gzip", "identity"]), rng.choice([0, 1, 400, 900, 999, 1000])]], "creators": []})
    return out


def with_items(case, items):
    c = {k: v for k, v in case.items() if not k.startswith("_")}
    c["items"] = items
    return c


# ---------- running one schedule against the real code ----------
class Stuck(Exception):
    pass


def _parse_content(b):
    if b is None:
        return None
    out = []
    for i in range(0, len(b), 10):
        piece = b[i:i + 10]
        try:
            s = piece.decode("ascii")
            if len(s) == 10 and s[0] == "w" and s[4] == "j" and s[9] == "\n":
                out.append([int(s[1:4]), int(s[5:9])])
                continue
        except Exception:
            pass
        out.append([9999, i // 10])
    return out


def _observe(d):
    def rd(p):
        try:
            with open(p, "rb") as f:
                return f.read()
        except FileNotFoundError:
            return None
        except IsADirectoryError:
            return b"?"
    return [_parse_content(rd(os.path.join(d, "dest"))), _parse_content(rd(os.path.join(d, "dest.part"))), os.path.exists(os.path.join(d, "dest.lock"))]


def run_schedule(binp, case, d):
    """returns the trace: list of [event, obs];  event = ["run", c, label] | ["kill", [c..]] | ["result", c, "written|existing|failed"] | ["stuck", [c..]]"""
    creators = case["creators"]
    q = queue.Queue()
    procs = {}
    by_proc = {}
    gated = set()
    for cr in creators:
        c, p, n, ok = cr[:4]
        g = len(cr) > 4 and cr[4]
        if g:
            gated.add(c)
        by_proc.setdefault(p, []).append((c, n, ok, g))

    def spawn(p, specs):
        pr = subprocess.Popen([binp, "child", d] + ["%d:%d:%s%s" % (c, n, "ok" if ok else "err", ":gate" if g else "") for c, n, ok, g in specs],
                              stdin=subprocess.PIPE, stdout=subprocess.PIPE, stderr=subprocess.DEVNULL, bufsize=0)
        procs[p] = pr

        def reader():
            for line in pr.stdout:
                q.put((p, line.decode().strip()))
            q.put((p, None))
        threading.Thread(target=reader, daemon=True).start()

    state = {}       # c -> unstarted | ready | running | blocked | done | dead
    ready = {}       # c -> label it is paused at
    proc_of = {}
    trace = []
    for cr in creators:
        c, p = cr[:2]
        state[c] = "unstarted"
        proc_of[c] = p
    for p, specs in by_proc.items():
        spawn(p, specs)
    dead_procs = set()
    deferred = []

    def log(ev):
        trace.append([ev, _observe(d)])

    def handle(p, line):
        """process one report; returns the creator it concerns"""
        if line is None or p in dead_procs:
            return None
        toks = line.split()
        c = int(toks[0])
        if state.get(c) == "dead":
            return None
        if toks[1] == "at":
            lab = toks[2]
            ready[c] = lab
            state[c] = "ready"
            if lab != "start":
                log(["run", c, lab])
        elif toks[1] == "result":
            r = toks[2].split(":")[0]
            if r == "cancelled":
                # the creator's future was dropped: it will take no further step (its runtime lives on)
                state[c] = "dead"
                ready.pop(c, None)
                log(["kill", [c]])
            else:
                state[c] = "done"
                log(["result", c, r])
        return c

    def wait_for(c, timeout):
        """wait for the next report of creator c; reports of others are deferred until c's has been logged"""
        end = time.time() + timeout
        while True:
            rem = end - time.time()
            if rem <= 0:
                return False
            try:
                p, line = q.get(timeout=rem)
            except queue.Empty:
                return False
            if line is None:
                continue
            who = int(line.split()[0])
            if who == c:
                handle(p, line)
                return True
            deferred.append((p, line))

    def flush_deferred():
        while deferred:
            p, line = deferred.pop(0)
            handle(p, line)

    def drain(timeout):
        flush_deferred()
        first = True
        while True:
            try:
                p, line = q.get(timeout=timeout if first else 0.002)
            except queue.Empty:
                return
            first = False
            handle(p, line)

    def tell(c, word):
        pr = procs[proc_of[c]]
        try:
            pr.stdin.write(("%d %s\n" % (c, word)).encode())
            pr.stdin.flush()
        except Exception:
            pass

    def release(c):
        # the blocking pool of that creator's runtime becomes free: whatever was queued there runs now
        if c in gated and proc_of[c] not in dead_procs:
            gated.discard(c)
            tell(c, "release")
            time.sleep(0.05)
            log(["release", c])

    def cancel(c):
        if state.get(c) == "ready":
            was = ready.pop(c)
            state[c] = "running"
            tell(c, "cancel")
            if not wait_for(c, 20.0):
                raise Stuck("creator %d gave no report after a cancellation request at %s" % (c, was))
            flush_deferred()
        elif state.get(c) == "blocked":
            tell(c, "cancel")
            if not wait_for(c, 20.0):
                raise Stuck("creator %d (waiting for the lock) gave no report after a cancellation request" % c)
            flush_deferred()

    def go(c):
        if c in gated and ready.get(c) == "write-ok":
            release(c)          # a creator that goes on past its write needs its runtime's pool if the routine uses it
        was = ready.pop(c)
        state[c] = "running"
        tell(c, "go")
        okr = wait_for(c, 0.12 if was == "lock-opened" else 20.0)
        if not okr:
            if was == "lock-opened":
                state[c] = "blocked"
            else:
                raise Stuck("creator %d gave no report after being released from %s" % (c, was))
        flush_deferred()

    def kill(p):
        pr = procs[p]
        pr.kill()
        pr.wait()
        dead_procs.add(p)
        cs = [c for c in state if proc_of[c] == p and state[c] not in ("done", "dead")]
        for c in cs:
            state[c] = "dead"
            ready.pop(c, None)
        if cs:
            log(["kill", cs])

    try:
        # all creators report "start" first
        t_end = time.time() + 20
        while any(s == "unstarted" for s in state.values()):
            if time.time() > t_end:
                raise Stuck("creators did not start")
            drain(0.5)
        for kind, k in case["items"]:
            drain(0.02 if any(s == "blocked" for s in state.values()) else 0)
            if kind == 1:
                live = sorted(p for p in procs if p not in dead_procs and any(proc_of[c] == p and state[c] not in ("done", "dead") for c in state))
                if live:
                    kill(live[k % len(live)])
                continue
            rs = sorted(ready)
            if kind == 2:
                if k in ready:
                    go(k)
                continue
            if kind == 3:
                cancel(k)
                continue
            if kind == 4:
                release(k)
                continue
            if kind == 5:
                # two days pass: nothing happens except that every file in the directory is that much older (no event in the model: the
                # protocol's guarantees do not depend on how long ago anything was written)
                old = time.time() - 2 * 86400
                for fn in os.listdir(d):
                    try:
                        os.utime(os.path.join(d, fn), (old, old))
                    except OSError:
                        pass
                continue
            if not rs:
                if any(s == "blocked" for s in state.values()):
                    drain(0.3)
                continue
            go(rs[k % len(rs)])
        # finish phase
        for c in sorted(gated):
            release(c)
        idle_rounds = 0
        while any(s in ("ready", "blocked", "running") for s in state.values()):
            drain(0.02 if any(s == "blocked" for s in state.values()) else 0)
            rs = sorted(ready)
            if rs:
                go(rs[0])
                idle_rounds = 0
            else:
                drain(0.5)
                if not ready:
                    idle_rounds += 1
                    if idle_rounds >= 12:
                        log(["stuck", sorted(c for c in state if state[c] == "blocked")])
                        break
        stuck = trace and trace[-1][0][0] == "stuck"
        # retry clause: a fresh creator whose write function succeeds
        if not stuck:
            c = RETRY_ID
            state[c] = "unstarted"
            proc_of[c] = 1000
            spawn(1000, [(c, 2, 1, 0)])
            t_end = time.time() + 20
            while state[c] == "unstarted":
                if time.time() > t_end:
                    raise Stuck("retry creator did not start")
                drain(0.5)
            steps = 0
            while state[c] not in ("done", "dead") and steps < 40:
                steps += 1
                if c in ready:
                    go(c)
                    if state[c] == "blocked":
                        # nobody else is alive: a blocked retry creator is a hang
                        if not wait_for(c, 8.0):
                            log(["stuck", [c]])
                            break
                else:
                    drain(0.5)
    finally:
        for p, pr in procs.items():
            try:
                pr.kill()
                pr.wait()
            except Exception:
                pass
    return trace


# ---------- evaluation ----------
def _coq_content(c):
    if c is None:
        return "None"
    return "(Some %s)" % K.coq_list(["(%d, %d)" % (w, j) for w, j in c])


def _coq_trace(case, trace):
    plans = K.coq_list(["(%d, (%d, %s))" % (cr[0], cr[2], "true" if cr[3] else "false") for cr in case["creators"]] + ["(%d, (2, true))" % RETRY_ID])
    evs = []
    for ev, obs in trace:
        o = "(%s, %s, %s)" % (_coq_content(obs[0]), _coq_content(obs[1]), "true" if obs[2] else "false")
        if ev[0] == "run":
            e = "(TRun %d %d)" % (ev[1], LAB.get(ev[2], 99))
        elif ev[0] == "kill":
            e = "(TKill %s)" % K.coq_list([str(c) for c in ev[1]])
        elif ev[0] == "release":
            e = "(TKill [])"        # nothing happens in the model when a blocking pool becomes free; the observation is compared all the same
        elif ev[0] == "result":
            e = "(TRun %d %d)" % (ev[1], LAB.get("result-" + ev[2], 99))
        else:
            e = "(TStuck %s)" % K.coq_list([str(c) for c in ev[1]])
        evs.append("(%s, %s)" % (e, o))
    return "(%s, %s)" % (plans, K.coq_list(evs))


def _evaluate_callers(cases):
    ok, log, bindir = K.cargo_build("h_ws")
    if not ok:
        raise K.TieBroken("harness h_ws does not build against the current tree:\n" + log[-1500:])
    base = os.path.join(K.SCRATCH, "c16w_%d" % os.getpid())
    shutil.rmtree(base, ignore_errors=True)
    os.makedirs(base)
    try:
        lines = [("D %s %d %s %d" % (os.path.join(base, "w%d" % i), c["items"][0][1], c["items"][0][2], c["items"][0][3])) if c["items"][0][0] == "D"
                 else "%s %d %d" % (os.path.join(base, "w%d" % i), c["items"][0][0], c["items"][0][1]) for i, c in enumerate(cases)]
        rc, outl, err = K.run_lines(os.path.join(bindir, "h_ws"), [], lines, timeout=1800)
    finally:
        shutil.rmtree(base, ignore_errors=True)
    if rc != 0 or len(outl) != len(cases):
        raise K.TieBroken("h_ws failed (rc=%s, %d/%d): %s" % (rc, len(outl), len(cases), err[-300:]))
    st = _state.setdefault("stats", {}).setdefault("callers", {"runs": 0, "first_attempt_failed_write": 0, "first": {}})
    terms = []
    for c, l in zip(cases, outl):
        c["_trace"] = l
        kv = dict(x.split("=", 1) for x in l.split() if "=" in x)
        if "first" not in kv:
            terms.append("(3, 3, false)")
            continue
        code = lambda v: 0 if v == "absent" else 1 if v == "complete" else 2
        st["runs"] += 1
        st["downloads"] = st.get("downloads", 0) + (1 if l.startswith("dl ") else 0)
        st["first"][kv["first"].split(":")[0]] = st["first"].get(kv["first"].split(":")[0], 0) + 1
        st["first_attempt_failed_write"] += 1 if kv["first"] != "complete" else 0
        terms.append("(%d, %d, %s)" % (code(kv["first"]), code(kv["retry"]), "true" if kv["ok2"] == "1" else "false"))
    shards = [K.case_defs("(N * N * bool)", ch, fn="verdict_caller") for ch in K.chunked(terms, K.NCPU)]
    try:
        res = K.coq_eval(PROP, "From Coq Require Import NArith.\nFrom SV Require Import Model.FileCreation Tie.C16.\nOpen Scope N_scope.", shards)
    except RuntimeError as ex:
        raise K.TieBroken(str(ex))
    return [v for r in res for v in r]


def evaluate(cases):
    if not cases:
        return []
    callers = [(i, c) for i, c in enumerate(cases) if c.get("kind") == "caller"]
    if callers:
        rest = [(i, c) for i, c in enumerate(cases) if c.get("kind") != "caller"]
        out = [None] * len(cases)
        for (i, _), v in zip(callers, _evaluate_callers([c for _, c in callers])):
            out[i] = v
        if rest:
            for (i, _), v in zip(rest, evaluate([c for _, c in rest])):
                out[i] = v
        return out
    binp = _bin()
    base = os.path.join(K.SCRATCH, "c16_%d" % os.getpid())
    shutil.rmtree(base, ignore_errors=True)
    os.makedirs(base)
    stats = _state.setdefault("stats", {})
    for k0, v0 in (("schedules", 0), ("steps", 0), ("kills", 0), ("blocked_waits", 0), ("results", {}), ("creators_hist", {}), ("machinery_stuck", 0)):
        stats.setdefault(k0, v0)

    def one(i):
        d = os.path.join(base, "s%d" % i)
        os.makedirs(d)
        try:
            return run_schedule(binp, cases[i], d)
        except Stuck as ex:
            return ex
        finally:
            shutil.rmtree(d, ignore_errors=True)

    try:
        with ThreadPoolExecutor(max_workers=K.NCPU) as ex:
            traces = list(ex.map(one, range(len(cases))))
    finally:
        shutil.rmtree(base, ignore_errors=True)
    terms = []
    idx = []
    verdicts = [None] * len(cases)
    for i, (c, t) in enumerate(zip(cases, traces)):
        if isinstance(t, Stuck):
            stats["machinery_stuck"] += 1
            c["_trace"] = "Stuck: %s" % t
            verdicts[i] = 1
            continue
        c["_trace"] = t
        stats["schedules"] += 1
        stats["steps"] += len(t)
        stats["kills"] += sum(1 for ev, _ in t if ev[0] == "kill")
        h = str(len(c["creators"]))
        stats["creators_hist"][h] = stats["creators_hist"].get(h, 0) + 1
        for ev, _ in t:
            if ev[0] == "result":
                stats["results"][ev[2]] = stats["results"].get(ev[2], 0) + 1
        terms.append(_coq_trace(c, t))
        idx.append(i)
    shards = [K.case_defs("(list (nat * (nat * bool)) * list (tev * obs))", ch) for ch in K.chunked(terms, K.NCPU)]
    try:
        res = K.coq_eval(PROP, "From Coq Require Import NArith.\nFrom SV Require Import Model.FileCreation Tie.C16.", shards)
    except RuntimeError as ex:
        raise K.TieBroken(str(ex))
    flat = [v for r in res for v in r]
    if len(flat) != len(terms):
        raise K.TieBroken("verdict count mismatch %d vs %d" % (len(flat), len(terms)))
    for i, v in zip(idx, flat):
        verdicts[i] = v
    # A schedule is run against real processes, many schedules side by side.  A trace that leaves the model while every clause of the property holds on
    # it (verdict 1), or a scheduler that timed out waiting for a process (Stuck), can be an artefact of the load - a report that arrived later than the
    # scheduler waited for it.  Such a schedule is run again ALONE, twice; if the same decisions then give a conforming trace, the first run is
    # recorded (verdict 4, counted and kept in the evidence) instead of being reported.  A trace on which a clause of the property fails (verdict 2) is
    # never re-run: it was observed.
    if not _state.get("in_retry"):
        again = [i for i, v in enumerate(verdicts) if v is not None and v % 10 == 1]
        if again and len(again) <= 8:
            _state["in_retry"] = True
            try:
                for i in again:
                    for attempt in range(2):
                        c2 = {k: v for k, v in cases[i].items() if not k.startswith("_")}
                        v2 = evaluate([c2])[0]
                        if v2 % 10 == 2:
                            verdicts[i] = v2
                            cases[i]["_trace"] = c2.get("_trace")
                            break
                        if v2 % 10 == 0:
                            stats["differed_under_load_conformed_alone"] = stats.get("differed_under_load_conformed_alone", 0) + 1
                            stats.setdefault("differed_under_load_examples", []).append({"decisions": cases[i]["items"][:40], "first_trace": str(cases[i].get("_trace"))[:1500]})
                            verdicts[i] = 4 + 10 * (verdicts[i] // 10)
                            break
            finally:
                _state["in_retry"] = False
    return verdicts


def known(case):
    return None


def describe(case):
    d = {"creators [id, process, chunks, write ok(, busy blocking pool)]": case["creators"], "decision kinds": "0 run the k-th ready creator one step, 1 kill a process, 2 run creator k one step, 3 cancel creator k, 4 release creator k's blocking pool, 5 two days pass (every file in the directory gets that much older)", "decisions": case["items"][:80]}
    t = case.get("_trace")
    if isinstance(t, list):
        d["trace"] = [[ev, {"dest": o[0], "part": o[1], "lock": o[2]}] for ev, o in t[:200]]
    elif t:
        d["trace"] = t
    return d


def distribution(cases):
    return _state.get("stats", {})


def run(out, tier, seed, replay):
    K.standard_flow(out, sys.modules[__name__], tier, seed, replay)
