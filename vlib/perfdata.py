# Minimal perf.data (PERFILE2, little endian) writer for the end-to-end ties (C01 C02 C17 C19, C14's e2e stream).
# One cpu-clock attribute with sample_type IP|TID|TIME|CPU|PERIOD|CALLCHAIN and sample_id_all; features ARCH and SAMPLE_TIME.
# Layout facts were taken from linux-perf-data 0.11.0 / linux-perf-event-reader 0.10.2 (the crates samply reads the file with).
import struct

PERF_RECORD_MMAP = 1
PERF_RECORD_LOST = 2
PERF_RECORD_COMM = 3
PERF_RECORD_EXIT = 4
PERF_RECORD_FORK = 7
PERF_RECORD_SAMPLE = 9
PERF_RECORD_MMAP2 = 10
PERF_RECORD_SWITCH = 14
PERF_RECORD_FINISHED_ROUND = 68

MISC_KERNEL = 1
MISC_USER = 2
MISC_COMM_EXEC = 1 << 13
MISC_MMAP_BUILD_ID = 1 << 14
MISC_SWITCH_OUT = 1 << 13

S_IP, S_TID, S_TIME, S_CALLCHAIN, S_CPU, S_PERIOD = 1, 2, 4, 32, 128, 256
S_IDENTIFIER = 1 << 16
S_REGS_USER, S_STACK_USER = 1 << 12, 1 << 13
X86_BP, X86_SP, X86_IP = 6, 7, 8          # PERF_REG_X86_*
USER_SP = 0x7FFD00000000
MAIN_ID, TRACKING_ID = 11, 22          # the event ids of the two attributes of a two-event file
SAMPLE_TYPE = S_IP | S_TID | S_TIME | S_CPU | S_PERIOD | S_CALLCHAIN

F_DISABLED, F_INHERIT, F_MMAP, F_COMM, F_TASK, F_SAMPLE_ID_ALL, F_MMAP2, F_COMM_EXEC, F_CONTEXT_SWITCH = 1, 2, 1 << 8, 1 << 9, 1 << 13, 1 << 18, 1 << 23, 1 << 24, 1 << 26

PERF_CONTEXT_KERNEL = (1 << 64) - 128
PERF_CONTEXT_USER = (1 << 64) - 512

HEADER_ARCH = 6
HEADER_SAMPLE_TIME = 21


def _pad8(b):
    return b + bytes((-len(b)) % 8)


def _cstr8(s):
    b = s.encode() + b"\0"
    return _pad8(b)


# the sample_type in force (module-level so that every record writer and build() agree); set_layout() switches it for one file
_layout = {"sample_type": SAMPLE_TYPE, "task_event": None, "id_all": True, "event": "cpu-clock", "user_stack": False, "second": "dummy"}


def set_layout(cpu=True, period=True, ip=True, callchain=True):
    """choose which optional fields the main event records: PERF_SAMPLE_CPU, PERF_SAMPLE_PERIOD, PERF_SAMPLE_IP, PERF_SAMPLE_CALLCHAIN (all on by default)"""
    st = S_TID | S_TIME
    if ip:
        st |= S_IP
    if callchain:
        st |= S_CALLCHAIN
    if cpu:
        st |= S_CPU
    if period:
        st |= S_PERIOD
    _layout["sample_type"] = st
    _layout["task_event"] = None
    _layout["id_all"] = True
    _layout["event"] = "cpu-clock"
    _layout["user_stack"] = False
    _layout["second"] = "dummy"


def set_second_event(kind):
    """the second event of a two-event file (set_task_event): "dummy" (software, config 9: perf's tracking event, it has no samples of its own),
    "instructions" (hardware, config 1), "cycles" (hardware, config 0: the same kind of event as a hardware main event, e.g. the other PMU of a hybrid
    CPU) or "page-faults" (software, config 2) - `perf record -e <main> -e <second>`; samples of the second event: sample(.., second=True)"""
    _layout["second"] = kind


def set_user_stack(flag):
    """flag = True: the event also records the user registers and a copy of the user stack (PERF_SAMPLE_REGS_USER | PERF_SAMPLE_STACK_USER, what
    `perf record --call-graph dwarf,<size>` asks for; x86-64 registers bp, sp, ip): samples may then carry a stack to be unwound (sample(.., unwind=))"""
    _layout["user_stack"] = bool(flag)
    if flag:
        _layout["sample_type"] |= S_REGS_USER | S_STACK_USER
    else:
        _layout["sample_type"] &= ~(S_REGS_USER | S_STACK_USER)


def set_event(kind):
    """the main event: "cpu-clock" (software, time based), "cycles" (hardware, a fixed period in events - `perf record -e cycles -c N`; the sampling is
    then not time based) or a tracepoint given by its name, e.g. "kmem:rss_stat" (`perf record -e kmem:rss_stat`: type PERF_TYPE_TRACEPOINT, one sample per
    event; the name is stored in HEADER_EVENT_DESC)"""
    _layout["event"] = kind


def set_id_all(flag):
    """flag = False: the attribute has no sample_id_all bit (a legal, older encoding): FORK / EXIT / COMM / MMAP2 records end without the id trailer,
    so only FORK and EXIT (time in the record body) and SAMPLE records carry a time"""
    _layout["id_all"] = bool(flag)


def set_task_event(k):
    """k = None: one event (cpu-clock).  k = 0 / 1: two events recorded together - cpu-clock (attribute 0, the main event, id MAIN_ID) and a software
    dummy event (attribute 1, id TRACKING_ID), as perf writes it when it appends a tracking event; every record then carries PERF_SAMPLE_IDENTIFIER and
    the task records (FORK / COMM / EXIT / MMAP2) belong to attribute k"""
    _layout["task_event"] = k
    if k is None:
        _layout["sample_type"] &= ~S_IDENTIFIER
    else:
        _layout["sample_type"] |= S_IDENTIFIER


def _trailer(pid, tid, time, cpu=0, main=False):
    # sample_id_all trailer for TID | TIME [| CPU] [| IDENTIFIER]; task records carry the id of the attribute chosen by set_task_event
    if not _layout["id_all"]:
        return b""
    b = struct.pack("<IIQ", pid, tid, time)
    if _layout["sample_type"] & S_CPU:
        b += struct.pack("<II", cpu, 0)
    if _layout["sample_type"] & S_IDENTIFIER:
        b += struct.pack("<Q", MAIN_ID if (main or _layout["task_event"] == 0) else TRACKING_ID)
    return b


def _rec(ty, misc, body):
    size = 8 + len(body)
    assert size % 8 == 0 and size < 65536, size
    return struct.pack("<IHH", ty, misc, size) + body


def comm(pid, tid, name, time, is_exec=False):
    return _rec(PERF_RECORD_COMM, MISC_COMM_EXEC if is_exec else 0, struct.pack("<II", pid, tid) + _cstr8(name) + _trailer(pid, tid, time))


def fork(pid, ppid, tid, ptid, time):
    return _rec(PERF_RECORD_FORK, 0, struct.pack("<IIIIQ", pid, ppid, tid, ptid, time) + _trailer(ppid, ptid, time))


def exit_(pid, ppid, tid, ptid, time):
    return _rec(PERF_RECORD_EXIT, 0, struct.pack("<IIIIQ", pid, ppid, tid, ptid, time) + _trailer(pid, tid, time))


def mmap2(pid, tid, addr, length, pgoff, path, time, build_id=None, prot=5, flags=2, kernel=False):
    misc = MISC_KERNEL if kernel else MISC_USER
    if build_id is not None:
        misc |= MISC_MMAP_BUILD_ID
        ident = struct.pack("<BBH", len(build_id), 0, 0) + (build_id + bytes(20))[:20]
    else:
        ident = struct.pack("<IIQQ", 8, 1, 12345, 0)
    body = struct.pack("<IIQQQ", pid, tid, addr, length, pgoff) + ident + struct.pack("<II", prot, flags) + _cstr8(path) + _trailer(pid, tid, time)
    return _rec(PERF_RECORD_MMAP2, misc, body)


def sample(pid, tid, time, ip, callchain, cpu=0, period=1, kernel=False, unwind=None, cpumode=None, second=False):
    """callchain: list of u64 (already including context markers if wanted); if None, [PERF_CONTEXT_USER, ip].
    unwind (with set_user_stack): the return addresses of the callers, leaf-most first - written as a copied user stack holding a well-formed x86-64
    frame-pointer chain (saved rbp, return address; the root-most record's saved rbp is 0) under registers bp / sp / ip, for the converter to unwind.
    cpumode: the PERF_RECORD_MISC_CPUMODE bits of the record header when given (0 unknown, 1 kernel, 2 user, 3 hypervisor, 4 guest kernel, 5 guest user)"""
    if callchain is None:
        callchain = [PERF_CONTEXT_USER, ip]
    st = _layout["sample_type"]
    body = (struct.pack("<Q", TRACKING_ID if second else MAIN_ID) if st & S_IDENTIFIER else b"") + (struct.pack("<Q", ip) if st & S_IP else b"") + struct.pack("<IIQ", pid, tid, time)
    if st & S_CPU:
        body += struct.pack("<II", cpu, 0)
    if st & S_PERIOD:
        body += struct.pack("<Q", period)
    if st & S_CALLCHAIN:
        body += struct.pack("<Q", len(callchain)) + b"".join(struct.pack("<Q", x & ((1 << 64) - 1)) for x in callchain)
    if st & S_REGS_USER:
        if unwind is None:
            body += struct.pack("<Q", 0) + struct.pack("<Q", 0)          # PERF_SAMPLE_REGS_ABI_NONE, no stack bytes
        else:
            n = len(unwind)
            words = []
            for i, ra in enumerate(unwind):
                words += [USER_SP + 16 * (i + 1) if i + 1 < n else 0, ra]
            body += struct.pack("<QQQQ", 2, USER_SP if n else 0, USER_SP, ip)          # abi 64; registers in bit order: bp, sp, ip
            stack = b"".join(struct.pack("<Q", w) for w in words)
            body += struct.pack("<Q", len(stack)) + stack + (struct.pack("<Q", len(stack)) if stack else b"")
    return _rec(PERF_RECORD_SAMPLE, cpumode if cpumode is not None else MISC_KERNEL if kernel else MISC_USER, body)


def switch(pid, tid, time, cpu=0, out=False, preempt=False):
    """PERF_RECORD_SWITCH: no body, only the sample_id_all trailer; misc bit 13 = switch-out, bit 14 (with it) = the task was preempted (still runnable)"""
    return _rec(PERF_RECORD_SWITCH, (MISC_SWITCH_OUT if out else 0) | ((1 << 14) if out and preempt else 0), _trailer(pid, tid, time, cpu, main=True))


def finished_round():
    return _rec(PERF_RECORD_FINISHED_ROUND, 0, b"")


def build(records, arch="x86_64", first_time=None, last_time=None, period=1000000, context_switch=False):
    """records: list of bytes.  Returns the file contents."""
    attr = struct.pack("<IIQQQQQIIQQQQIIQIHH",
                       1 if _layout["event"] == "cpu-clock" else 2 if ":" in _layout["event"] else 0,   # type = PERF_TYPE_SOFTWARE | PERF_TYPE_TRACEPOINT | PERF_TYPE_HARDWARE
                       112,              # size (VER5)
                       511 if ":" in _layout["event"] else 0,   # config = PERF_COUNT_SW_CPU_CLOCK | PERF_COUNT_HW_CPU_CYCLES | the tracepoint's id
                       period,           # sample_period
                       _layout["sample_type"],
                       0,                # read_format
                       F_DISABLED | F_INHERIT | F_MMAP | F_COMM | F_TASK | (F_SAMPLE_ID_ALL if _layout["id_all"] else 0) | F_MMAP2 | F_COMM_EXEC | (F_CONTEXT_SWITCH if context_switch else 0),
                       0, 0,             # wakeup, bp_type
                       0, 0,             # config1, config2
                       0,                # branch_sample_type
                       ((1 << X86_BP) | (1 << X86_SP) | (1 << X86_IP)) if _layout["user_stack"] else 0, 65528 if _layout["user_stack"] else 0, 0,   # sample_regs_user, sample_stack_user, clockid
                       0,                # sample_regs_intr
                       0, 0, 0)          # aux_watermark, sample_max_stack, reserved
    assert len(attr) == 112
    header_size = 104
    data = b"".join(records)
    if _layout["task_event"] is None:
        attr_entry = attr + struct.pack("<QQ", 0, 0)          # empty ids section
        attr_size = len(attr_entry)                             # 128
        ids = b""
    else:
        # two attributes: cpu-clock (ids [MAIN_ID]) and a software dummy event (config 9, ids [TRACKING_ID]); the id arrays precede the attributes
        sty, scfg, sname = {"dummy": (1, 9, "dummy:HG"), "instructions": (0, 1, "instructions"), "cycles": (0, 0, "cpu_atom/cycles/"), "page-faults": (1, 2, "page-faults"),
                            "sched_switch": (2, 316, "sched:sched_switch")}[_layout["second"]]
        dummy = struct.pack("<II", sty, 112) + struct.pack("<Q", scfg) + attr[16:]
        ids = struct.pack("<QQ", MAIN_ID, TRACKING_ID)
        attr_entry = attr + struct.pack("<QQ", header_size, 8) + dummy + struct.pack("<QQ", header_size + 8, 8)
        attr_size = 128
    attr_off = header_size + len(ids)
    data_off = attr_off + len(attr_entry)
    feat = {}
    a = arch.encode() + b"\0"
    a = a + bytes((-len(a)) % 4)
    feat[HEADER_ARCH] = struct.pack("<I", len(a)) + a
    def hstr(x):
        b = x.encode() + b"\0"
        b += bytes(-len(b) % 8)
        return struct.pack("<I", len(b)) + b
    if _layout["task_event"] is not None:
        # HEADER_EVENT_DESC: the reader takes the event ids (and names) from here
        desc = struct.pack("<II", 2, 112)
        for a_, name, i in ((attr, _layout["event"], MAIN_ID), (dummy, sname, TRACKING_ID)):
            desc += a_ + struct.pack("<I", 1) + hstr(name) + struct.pack("<Q", i)
        feat[12] = desc
    elif ":" in _layout["event"]:
        # one named event: HEADER_EVENT_DESC with a single entry and no ids
        feat[12] = struct.pack("<II", 1, 112) + attr + struct.pack("<I", 0) + hstr(_layout["event"])
    if first_time is not None:
        feat[HEADER_SAMPLE_TIME] = struct.pack("<QQ", first_time, last_time if last_time is not None else first_time)
    bits = [0, 0, 0, 0]
    for f in feat:
        bits[f // 64] |= 1 << (f % 64)
    nfeat = len(feat)
    feat_table_off = data_off + len(data)
    payload_off = feat_table_off + 16 * nfeat
    table = b""
    payloads = b""
    for f in sorted(feat):
        table += struct.pack("<QQ", payload_off + len(payloads), len(feat[f]))
        payloads += feat[f]
    hdr = b"PERFILE2" + struct.pack("<QQ", header_size, attr_size) + struct.pack("<QQ", attr_off, len(attr_entry)) + struct.pack("<QQ", data_off, len(data)) + struct.pack("<QQ", 0, 0) + struct.pack("<QQQQ", *bits)
    assert len(hdr) == header_size
    return hdr + ids + attr_entry + data + table + payloads
