# C17 — process/thread names and lifetimes follow COMM / EXEC / FORK / EXIT.  Model: coq/Model/Converter.v; tie: as C01 (vlib/conv_e2e.py).
import sys
from . import common as K
from . import conv_e2e as E

PROP = "C17"
RULE = ("cases = time-ordered record histories that respect the kernel's record grammar (a FORK, when present, precedes every other record of the new thread; EXIT is its last record until the id is reused): "
        "renames before and after samples, repeated renames (also to the same name), forks of renamed parents, exec chains, threads and processes first seen through a sample / COMM / mmap, ids reused after "
        "EXIT, group leaders exiting before their threads; converted with default options. Observed per thread entry: pid/tid strings, process name, thread name, process and thread start / end times, "
        "main-thread flag. Decided in Coq: three clauses of the property that need no model (last COMM name shown; FORK/EXIT times as lifetimes for threads whose ids are unique; samples around an EXEC "
        "on different process entries) and conformance with the model entry by entry. non-trivial = the history contains both a COMM and a FORK")
TRUSTED = ["vlib/perfdata.py, vlib/conv_e2e.py::view", "the property-level oracle is partial (three clauses); everything else is decided by model conformance"]
ASSUMPTIONS = ["default options (no --reuse-threads)", "all record times are >= the SAMPLE_TIME origin; COMM records carry times (sample_id_all)"]
_state = {}


def prove():
    return K.prove(PROP, extra_targets=["Tie/C01.vo"])


def gen(tier, rng, scale):
    cases = []
    for _ in range((160 if tier == "quick" else 3000) * scale):
        cases.append({"items": E.gen_history(rng, grammar=True)})
    # recordings with two events (cpu-clock and the dummy tracking event perf appends with -C / --delay / intel_pt): the FORK / COMM / EXIT / MMAP2
    # records belong to the first or to the second event, and some files lack PERF_SAMPLE_CPU / PERIOD
    trng = rng.fork("two-events")
    for _ in range((40 if tier == "quick" else 800) * scale):
        cases.append({"items": E.gen_history(trng, grammar=True), "layout": [trng.chance(1, 2), trng.chance(1, 2), True, True, "std", trng.choice([0, 1, 1])]})
    # recordings written without sample_id_all (a legal, older encoding): FORK and EXIT carry their time in the record body, COMM / MMAP2 records none
    nrng = rng.fork("no-id-all")
    for _ in range((30 if tier == "quick" else 600) * scale):
        cases.append({"items": E.gen_history(nrng, grammar=True), "layout": [nrng.chance(1, 2), nrng.chance(1, 2), True, True, "std", None, True]})
    # recordings whose time origin (HEADER_SAMPLE_TIME: the time of the first sample, as perf writes it) lies inside the history: FORK / COMM / EXEC / EXIT
    # records dated before the first sample are records like any other (their converted times are clamped to the origin)
    orng = rng.fork("origin")
    for _ in range((40 if tier == "quick" else 800) * scale):
        items = E.gen_history(orng, grammar=True)
        times = [E.record_time(r) for r in items if r[0] == "sample"] or [E.record_time(r) for r in items]
        if times:
            cases.append({"items": items, "origin": min(times) if orng.chance(2, 3) else orng.choice(times)})
    return cases


def with_items(case, items):
    c = {k: v for k, v in case.items() if not k.startswith("_")}
    c["items"] = items
    return c


def evaluate(cases):
    if not cases:
        return []
    vs = E.evaluate(PROP, "verdict_c17", cases, _state.setdefault("stats", {}))
    # histories of the class of known finding F-C17 that fail the property: is what the code did exactly what the finding describes (= what the model,
    # which transcribes the code as built, yields), or something else?
    sub = [c for c, v in zip(cases, vs) if v % 10 == 2 and E.history_shape_leader_first(c["items"])]
    if sub:
        for c, a in zip(sub, E.evaluate(PROP, "verdict_c17_asbuilt", sub, {})):
            c["_asbuilt"] = (a == 1)
    return vs


def known(case):
    """F-C17: a non-main thread has records after its process's main thread's EXIT, and the converter did with that history exactly what the finding
    describes (what the as-built model yields); any other outcome on such a history is a different violation and is reported"""
    if E.history_shape_leader_first(case["items"]):
        if "_asbuilt" not in case:
            evaluate([case])
        if case.get("_asbuilt"):
            return K.known_line(PROP, "F-C17")
    return None


def describe(case):
    d = {"records": case["items"][:120]}
    if case.get("layout"):
        d["sample_fields_cpu_period_ip_callchain_chains_taskevent"] = case["layout"]
    if "_view" in case:
        d["observed_entries"] = [{k: (v if k != "samples" else v[:20]) for k, v in e.items()} for e in case["_view"][:12]]
    if "_out" in case:
        d["error"] = case["_out"]
    return d


def distribution(cases):
    return _state.get("stats", {})


def run(out, tier, seed, replay):
    K.standard_flow(out, sys.modules[__name__], tier, seed, replay)
