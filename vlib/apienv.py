# Shared environment for the API checks (C07, C09, C08): one symbol directory holding links to the non-emptied fixture
# binaries plus generated Breakpad .sym modules (with inline records and special-path FILE records).
import os, shutil
from . import common as K

FIXTURE_FILES = [("other", "example-linux"), ("other/ls-linux", "ls"), ("linux64-ci", "firefox"), ("macos-ci", "libmozglue.dylib"),
                 ("win64-ci", "softokn3.dll"), ("win64-ci", "WriteArgument.exe"), ("android32-local", "libsoftokn3.so"),
                 # split DWARF whose .dwo files the helper does not offer (location_for_dwo = None): the skeleton unit's line table is all there is
                 ("other/simple-example/out/with-dwo", "main"),
                 # Mach-O with debug info in external object files (OSO): libfile23.a and main.o are offered, file1.o is not - a request with frames in
                 # several object files meets an unavailable one first (the external files are asked for in path order)
                 ("other/simple-example/out/mac-oso", "main")]
PARTIAL_EXTERNALS = {"other/simple-example/out/mac-oso": ["libfile23.a", "main.o"]}

SPECIAL_FILES = ["hg:hg.mozilla.org/mozilla-central:widget/cocoa/nsAppShell.mm:997f00815e6bc28806b75448c8829f0259d2cb28",
                 "git:github.com/rust-lang/rust:library/std/src/rt.rs:c8dfcfe046a7680554bf4eb612bad840e7631c4b",
                 "s3:gecko-generated-sources:a5d3747707d6877b0e5cb0a364e3cb9fea8aa4feb6ead138952c2ba46d41045297286385f0e0470146f49403e46bd266e654dfca986de48c230f3a71c2aafed4/ipc/ipdl/PBackgroundChild.cpp:",
                 "cargo:github.com-1ecc6299db9ec823:tokio-1.6.1:src/runtime/task/mod.rs",
                 "/src/demo/alpha.c", "/src/demo/sub dir/beta.h", "relative/gamma.cpp", "C:\\win\\delta.c",
                 # names that begin or end in white space (a FILE name runs to the end of its line): they denote other files than their trimmed spellings
                 "/src/demo/alpha.c ", "/src/demo/zeta.h\t", "\u00a0/src/demo/eta.c", "relative/gamma.cpp  ",
                 # names with '.' and '..' components, as compilers record them (build/../gcc/libgcc/unwind.c): reported verbatim, accepted verbatim
                 "/src/build/../lib/theta.c", "../rel/./iota.c", "C:\\win\\..\\kappa.c"]

MAPPED_C = """
#line 10 "/rustc/c8dfcfe046a7680554bf4eb612bad840e7631c4b/library/core/src/ops/function.rs"
static inline __attribute__((always_inline)) int inl_core(int x) { x = x * 3 + 1;
  return x ^ (x >> 3); }
#line 20 "/home/u/.cargo/registry/src/index.crates.io-6f17d22bba15001f/demo-dep-1.2.3/src/lib.rs"
static inline __attribute__((always_inline)) int inl_dep(int x) { x = inl_core(x) ^ 5;
  return x * 7; }
#line 5 "/src/mapped/main.c"
int mapped_a(int x) { x = inl_dep(x) + 2;
  return x * x; }
int mapped_b(int x) { x = inl_core(x) - 2;
  return x + 9; }
#line 40 "/home/u/.cargo/registry/src/index.crates.io-6f17d22bba15001f/demo-dep-1.2.3/src/other.rs"
int mapped_c(int x) { return x * 11 + 3; }
#line 7 "/rustc/c8dfcfe046a7680554bf4eb612bad840e7631c4b/library/core/src/fmt:rt.rs"
static inline __attribute__((always_inline)) int inl_colon(int x) { x = x * 13 + 7;
  return x ^ (x >> 2); }
int mapped_d(int x) { x = inl_colon(x) + 1;
  return x * 3; }
#line 3 "/home/u/.cargo/registry/src/index.crates.io-6f17d22bba15001f/demo-dep-1.2.3/src/we:ird.rs"
int mapped_e(int x) { x = inl_colon(x) - 4;
  return x + x / 3; }
#line 9 "/src/mapped/odd:name.c"
int mapped_f(int x) { return inl_core(x) * 5 + 1; }
"""

GEN_MODULES = [("genmod1.so", "AAAA0000BBBB1111CCCC2222DDDD33330"), ("genmod2", "0123456789ABCDEF0123456789ABCDEF1"),
               ("genmod3.so", "0F0E0D0C0B0A090807060504030201002"),
               # legal breakpad ids that are not 33 characters long: an age above 0xf (34 and 35 characters) and the PDB 2.0 form (8-digit timestamp + age)
               # genmod8 comes with a STALE .symindex: the index of an earlier build with the same record layout whose functions lay 0x10 lower
               ("genmod8.so", "FEDCBA9876543210FEDCBA98765432100"),
               ("genmod4.so", "AAAA0000BBBB1111CCCC2222DDDD33331A"), ("genmod5.so", "0123456789ABCDEF0123456789ABCDEF100"), ("genmod6.pdb", "3E7B1C2A1"), ("genmod7.pdb", "5F00D1E2FF")]


STALE_INDEX_MODULE = "genmod8.so"


def shifted_sym(text, delta=0x10):
    """the same .sym text with every FUNC / PUBLIC / line / INLINE address lowered by delta, digit for digit as wide as before: an earlier build
    with an identical byte layout, whose index therefore still parses and points at the right records of the newer file"""
    out = []
    for l in text.split("\n"):
        f = l.split(" ")

        def lower(k):
            v = int(f[k], 16)
            if v >= delta:
                f[k] = ("%x" % (v - delta)).rjust(len(f[k]), "0")
        try:
            if f[0] in ("FUNC", "PUBLIC") and len(f) > 3:
                lower(2 if f[1] == "m" else 1)
            elif f[0] == "INLINE" and len(f) > 5:
                for k in range(5, len(f), 2):
                    lower(k)
            elif len(f) == 4 and f[0] and all(c in "0123456789abcdef" for c in f[0]):
                lower(0)
        except ValueError:
            pass
        out.append(" ".join(f))
    return "\n".join(out)


def canon_id(bid):
    """the spelling DebugId::breakpad() prints (and the symbol directory uses): upper-case id, lower-case age"""
    k = 32 if len(bid) > 32 else 8
    return bid[:k].upper() + bid[k:].lower()


def _gen_sym_odd(name, bid):
    """a module whose function, line-record and inline-range boundaries fall on odd and even addresses alike, with a different file on each side
    of every boundary; the interesting offsets are each boundary and its two neighbours"""
    L = ["MODULE Linux x86_64 %s %s" % (bid, name)]
    for i, f in enumerate(SPECIAL_FILES):
        L.append("FILE %d %s" % (i, f))
    L += ["INLINE_ORIGIN 0 inlined_a()", "INLINE_ORIGIN 1 ns::inlined_b(int)"]
    addr = 0x3001
    offsets = []
    nf = len(SPECIAL_FILES)
    for fi in range(12):
        cuts = [0, 0x0B + fi % 2, 0x15, 0x1E + fi % 3, 0x29, 0x33 + fi % 2]      # line-record boundaries inside the function, odd and even
        size = 0x3B + fi % 4
        L.append("FUNC %x %x 0 odd_func_%d" % (addr, size, fi))
        i0, i1 = addr + cuts[2], addr + cuts[4]                                   # one inline range, and a nested one with odd ends
        L.append("INLINE 0 %d %d 0 %x %x" % (100 + fi, (fi + 3) % nf, i0, i1 - i0))
        L.append("INLINE 1 %d %d 1 %x %x" % (200 + fi, (fi + 5) % nf, i0 + 3, 5))
        for k, c in enumerate(cuts):
            end = cuts[k + 1] if k + 1 < len(cuts) else size
            L.append("%x %x %d %d" % (addr + c, end - c, 10 + k, (fi + 2 * k) % nf))
            offsets += [addr + c - 1, addr + c, addr + c + 1]
        offsets += [i0 + 2, i0 + 3, i0 + 4, i0 + 7, i0 + 8, i0 + 9, i1 - 1, i1, addr + size - 1, addr + size]
        addr += size + (fi % 3)                                                   # functions abut, or are 1..2 bytes apart
    # frames without a file below frames with one: an inline range that starts before the first line record of its function, and
    # line / INLINE records naming a file id that has no FILE record - the outer frame's call file is still reported for such offsets
    a = 0xA000
    L += ["FUNC %x 40 0 gap_func" % a, "INLINE 0 7 2 0 %x 20" % a, "INLINE 1 8 3 1 %x 8" % (a + 4), "%x 10 9 4" % (a + 0x10), "%x 20 11 5" % (a + 0x20)]
    offsets += [a, a + 3, a + 4, a + 5, a + 0xb, a + 0xc, a + 0xf, a + 0x10, a + 0x1f, a + 0x20]
    b = 0xB000
    L += ["FUNC %x 30 0 nofile_func" % b, "INLINE 0 3 1 0 %x 10" % b, "INLINE 0 4 77 1 %x 8" % (b + 0x18), "%x 18 5 99" % b, "%x 18 6 6" % (b + 0x18)]
    offsets += [b, b + 4, b + 0xf, b + 0x10, b + 0x17, b + 0x18, b + 0x1c, b + 0x20, b + 0x2f]
    return "\n".join(L) + "\n", sorted(set(o for o in offsets if o >= 0))


def _gen_sym(name, bid, variant):
    if variant == 2:
        return _gen_sym_odd(name, bid)
    L = ["MODULE Linux x86_64 %s %s" % (bid, name)]
    for i, f in enumerate(SPECIAL_FILES):
        L.append("FILE %d %s" % (i, f))
    L += ["INLINE_ORIGIN 0 inlined_a()", "INLINE_ORIGIN 1 ns::inlined_b(int)", "INLINE_ORIGIN 2 deep_c"]
    addr = 0x1000
    offsets = []
    for fi in range(10):
        size = 0x40
        L.append("FUNC %x %x 0 gen_func_%d_%d" % (addr, size, variant, fi))
        f0 = (fi + variant) % len(SPECIAL_FILES)
        f1 = (fi * 3 + 1) % len(SPECIAL_FILES)
        f2 = (fi * 5 + 2) % len(SPECIAL_FILES)
        if fi % 2 == 0:
            L.append("INLINE 0 %d %d 0 %x 20" % (100 + fi, f1, addr + 0x10))
            L.append("INLINE 1 %d %d 1 %x 8" % (200 + fi, f2, addr + 0x18))
        L.append("%x 10 %d %d" % (addr, 10 + fi, f0))
        L.append("%x 8 %d %d" % (addr + 0x10, 20 + fi, f1))
        L.append("%x 8 %d %d" % (addr + 0x18, 30 + fi, f2))
        L.append("%x 10 %d %d" % (addr + 0x20, 0, f0))          # line 0
        L.append("%x 10 %d %d" % (addr + 0x30, 40 + fi, f0))
        offsets += [addr, addr + 0x12, addr + 0x19, addr + 0x25, addr + 0x3f]
        addr += size + (0x10 if fi % 3 == 0 else 0)
    L.append("PUBLIC %x 0 gen_public_%d" % (addr + 0x100, variant))
    offsets += [addr + 0x100, addr + 0x180, addr + 5, 0x10, 0xFFFFFF]
    return "\n".join(L) + "\n", offsets


class Env:
    def __init__(self, tag):
        self.dir = os.path.join(K.SCRATCH, "%s_%d" % (tag, os.getpid()))
        shutil.rmtree(self.dir, ignore_errors=True)
        os.makedirs(self.dir)
        self.modules = []          # dicts: debugName, breakpadId, offsets (interesting), kind
        self.n = 0
        ok, log, bindir = K.cargo_build("h_api")
        if not ok:
            raise K.TieBroken("harness h_api does not build against the current tree:\n" + log[-1500:])
        self.bin = os.path.join(bindir, "h_api")
        rc, outl, err = K.run_lines(self.bin, ["info"], ["%s %s" % f for f in FIXTURE_FILES])
        for (d, f), l in zip(FIXTURE_FILES, outl):
            if l.startswith("ERR") or "|" not in l:
                continue
            head, syms = l.split("|")
            h = head.split()
            if len(h) < 4:
                continue
            src = os.path.join(K.REPO, "fixtures", d, f)
            dst = os.path.join(self.dir, h[1])
            if os.path.lexists(dst):
                dst = os.path.join(self.dir, "%s-%s" % (h[1], h[2]))       # a second fixture of that name: <name>-<breakpad id> (harness helper)
            if not os.path.lexists(dst):
                os.symlink(src, dst)
            for extra in PARTIAL_EXTERNALS.get(d, []):
                if not os.path.lexists(os.path.join(self.dir, extra)):
                    os.symlink(os.path.join(os.path.dirname(src), extra), os.path.join(self.dir, extra))
            # companion debug files used by the fixtures
            for extra in os.listdir(os.path.dirname(src)):
                if extra.endswith((".debug", ".dbg", ".pdb")) and not os.path.exists(os.path.join(self.dir, extra)):
                    os.symlink(os.path.join(os.path.dirname(src), extra), os.path.join(self.dir, extra))
            ss = [int(x) for x in syms.split()]
            offs = []
            for s in ss[:60]:
                offs += [s, s + 1, s + 7]
            self.modules.append({"debugName": h[1], "breakpadId": h[2], "offsets": offs + [0, 3, 0xFFFFFFF0], "kind": "fixture"})
        self._add_mapped_elf()
        for v, (name, bid) in enumerate(GEN_MODULES):
            text, offsets = _gen_sym(name, bid, v)
            p = os.path.join(self.dir, name, canon_id(bid), (name[:-4] if name.endswith(".pdb") else name) + ".sym")
            os.makedirs(os.path.dirname(p))
            open(p, "w").write(text)
            if name == STALE_INDEX_MODULE:
                # the stored index next to the .sym file (location_for_breakpad_symindex) is the one of the earlier build
                old_text = shifted_sym(text)
                assert len(old_text) == len(text)
                ok2, log2, bindir2 = K.cargo_build("h_symbols")
                if not ok2:
                    raise K.TieBroken("harness h_symbols does not build against the current tree:\n" + log2[-1500:])
                tp = self.tmpfile(old_text)
                rc2, outl2, err2 = K.run_lines(os.path.join(bindir2, "h_symbols"), ["bp"], ["%s 1 0" % tp])
                kv = dict(x.split("=", 1) for x in (outl2[0].split(" | ")[0].split() if outl2 else []) if "=" in x)
                if rc2 != 0 or kv.get("IDX", "ERR") == "ERR":
                    raise K.TieBroken("could not make the stale index for %s: %s" % (name, (outl2 or [err2])[0][:200]))
                open(p[:-4] + ".symindex", "wb").write(bytes.fromhex(kv["IDX"]))
                offsets = sorted(set(offsets + [o - 0x10 for o in offsets if o >= 0x10] + [o - 1 for o in offsets if o >= 1]))
            self.modules.append({"debugName": name, "breakpadId": bid, "offsets": offsets, "kind": "generated"})
        # every generated module must actually load through the symbol manager (a module that silently fails to load would only thin the run out)
        import json as _json
        probe = ["%s %s %s %d %s" % (self.dir, m["debugName"], m["breakpadId"], m["offsets"][1], self.tmpfile("")) for m in self.modules if m["kind"] == "generated"]
        rc, outl, err = K.run_lines(self.bin, ["src"], probe)
        if rc != 0 or len(outl) != len(probe) or any(not _json.loads(l).get("load") for l in outl):
            raise K.TieBroken("a generated Breakpad module does not load through the symbol manager: %s" % [l[:160] for l in outl if not _json.loads(l).get("load")][:2])

    def _add_mapped_elf(self):
        """an ELF shared object with DWARF whose line tables name files under /rustc/<revision>/ and under a cargo registry: the API reports such files by
        their special-path spelling (git:... / cargo:...), which differs from the raw debug-info path that has to be read.  Built with gcc; left out
        when that fails."""
        import subprocess
        src = os.path.join(self.dir, "_mapped.c")
        open(src, "w").write(MAPPED_C)
        so = os.path.join(self.dir, "mapped.so")
        try:
            r = subprocess.run(["gcc", "-g", "-O1", "-shared", "-fPIC", "-Wl,--build-id=sha1", "-o", so, src], capture_output=True, timeout=120)
        except Exception:
            return
        finally:
            try:
                os.remove(src)
            except OSError:
                pass
        if r.returncode != 0 or not os.path.exists(so):
            return
        rc, outl, err = K.run_lines(self.bin, ["info"], ["%s %s" % (self.dir, "mapped.so")])
        if rc != 0 or not outl or outl[0].startswith("ERR") or "|" not in outl[0]:
            os.remove(so)
            return
        head, syms = outl[0].split("|")
        h = head.split()
        if len(h) < 4:
            os.remove(so)
            return
        offs = []
        for s_ in [int(x) for x in syms.split()][:40]:
            offs += [s_ + d for d in (0, 1, 2, 4, 6, 8, 11, 14, 18)]
        self.modules.append({"debugName": h[1], "breakpadId": h[2], "offsets": offs + [0, 3], "kind": "fixture"})

    def tmpfile(self, content):
        self.n += 1
        p = os.path.join(self.dir, "_req%d" % self.n)
        with open(p, "w") as f:
            f.write(content)
        return p

    def close(self):
        shutil.rmtree(self.dir, ignore_errors=True)
