# C20 — /asm/v1 listing.  Model: coq/Model/AsmDecode.v; tie: harness/h_api asm mode (Api::query_api + the yaxpeax decoders as oracle).
import os, sys
from . import common as K

PROP = "C20"
WINDOW = 700
FIXTURES = [("win64-local", "firefox.exe"), ("win64-ci", "mozglue.dll"), ("win64-ci", "softokn3.dll"), ("win64-ci", "WriteArgument.exe"),
            ("linux64-ci", "firefox"), ("macos-ci", "libmozglue.dylib"), ("macos-local", "firefox"), ("macos-local", "libmozglue.dylib"),
            ("android32-local", "libsoftokn3.so"), ("other/ls-linux", "ls"), ("other", "example-linux")]
RULE = ("cases = /asm/v1 requests (binary, startAddress, size, continueUntilFunctionEnd) over the non-emptied fixtures (x86-64 PE/ELF/Mach-O, ARM thumb ELF, AArch64 ELF): "
        "starts at function entries, at every byte offset inside selected functions (mid-instruction), at random addresses; sizes 0..64, larger sizes, sizes beyond the section; "
        "continuation on/off. The decoder oracle is obtained by calling the same yaxpeax decoder at every byte offset of the bytes read (window of %d bytes). "
        "non-trivial = the listing contains an undecodable instruction, or continuation extended the length, or alignment moved the start" % WINDOW)
TRUSTED = ["yaxpeax decoders as oracle (assumed: success consumes 1..remaining bytes; deciding 'invalid' consumes >= 1 byte - checked on every oracle entry, cases violating it are not judged)",
           "the decoder oracle runs on bytes read through samply-symbols' read_bytes_at_relative_address; that these are the bytes of the binary at that address - all of them up to the section's end - is checked against a reading of the file's section table with the object crate (harness h_api asm.rs independent_bytes; unavailable for fat Mach-O archives)",
           "no 32-bit x86 fixture survives in this sandbox (emptied files), so the i686 decoder is not exercised"]
ASSUMPTIONS = ["failed requests (error JSON) are outside the property and only counted; listings reaching beyond the oracle window are not judged"]

_info_cache = None
_state = {}


def _bin():
    ok, log, bindir = K.cargo_build("h_api")
    if not ok:
        raise K.TieBroken("harness h_api does not build against the current tree:\n" + log[-1500:])
    return os.path.join(bindir, "h_api")


def _info():
    global _info_cache
    if _info_cache is None:
        rc, outl, err = K.run_lines(_bin(), ["info"], ["%s %s" % f for f in FIXTURES])
        res = []
        for (d, f), l in zip(FIXTURES, outl):
            if l.startswith("ERR") or "|" not in l:
                continue
            head, syms = l.split("|")
            h = head.split()
            if len(h) < 4:
                continue
            res.append({"dir": d, "name": h[0], "debugName": h[1], "debugId": h[2], "arch": h[3], "syms": [int(x) for x in syms.split()]})
        _info_cache = res
    return _info_cache


def prove():
    return K.prove(PROP, extra_targets=["Tie/C20.vo"])


_bounds_cache = {}


def _elf_section_bounds(path):
    """relative addresses of section starts and ends of an ELF file (allocated sections), read from its section header table; [] for other formats.
    Sections of ELF files often abut (.plt|.text, .text|.fini): a start address there is the first byte of one section and one past the end of another"""
    if path in _bounds_cache:
        return _bounds_cache[path]
    import struct
    out = []
    try:
        d = open(path, "rb").read()
        if d[:4] == b"\x7fELF" and d[5] == 1:
            is64 = d[4] == 2
            if is64:
                shoff, = struct.unpack_from("<Q", d, 0x28)
                shentsize, shnum = struct.unpack_from("<HH", d, 0x3A)
            else:
                shoff, = struct.unpack_from("<I", d, 0x20)
                shentsize, shnum = struct.unpack_from("<HH", d, 0x2E)
            base = None
            phoff, = struct.unpack_from("<Q" if is64 else "<I", d, 0x20 if is64 else 0x1C)
            phentsize, phnum = struct.unpack_from("<HH", d, 0x36 if is64 else 0x2A)
            for i in range(phnum):
                o = phoff + i * phentsize
                ptype, = struct.unpack_from("<I", d, o)
                if ptype == 1:
                    vaddr, = struct.unpack_from("<Q", d, o + 0x10) if is64 else struct.unpack_from("<I", d, o + 8)
                    off, = struct.unpack_from("<Q", d, o + 8) if is64 else struct.unpack_from("<I", d, o + 4)
                    if base is None or vaddr - off < base:
                        base = (vaddr - off) if vaddr >= off else 0
            base = base or 0
            for i in range(shnum):
                o = shoff + i * shentsize
                if is64:
                    flags, addr, _off, size = struct.unpack_from("<QQQQ", d, o + 8)
                else:
                    flags, addr, _off, size = struct.unpack_from("<IIII", d, o + 8)
                if flags & 2 and addr >= base and size:
                    out += [addr - base, addr - base + size]
    except Exception:
        out = []
    _bounds_cache[path] = sorted(set(x for x in out if 0 <= x < 2**32))
    return _bounds_cache[path]


def gen(tier, rng, scale):
    quick = tier == "quick"
    try:
        fx = _info()
    except K.TieBroken:
        return [{"items": [["win64-local", "firefox.exe", "firefox.pdb", "8A913DE821D9DE764C4C44205044422E1", "x86_64", 96800, 58, 0]]}]
    cases = []
    n = (1200 if quick else 20000) * scale
    for i in range(n):
        f = rng.choice(fx)
        syms = [s for s in f["syms"] if s > 0] or [4096]
        r = rng.below(100)
        base = rng.choice(syms)
        if r < 35:
            start = base
        elif r < 80:
            start = base + rng.below(48)
        elif r < 90:
            start = max(0, base - rng.range(1, 16))
        else:
            start = rng.below(max(syms) + 4096)
        bounds = _elf_section_bounds(os.path.join("/repo/fixtures", f["dir"], f["name"]))
        if bounds and rng.chance(1, 8):
            # the first byte of a section / one past the end of a section (often both at once), and the neighbouring bytes
            start = max(0, rng.choice(bounds) + rng.choice([0, 0, 0, -1, 1, -4, 4]))
        size = rng.choice([0, 1, 2, 3, 4, 7, 8, 15, 16, 17, 24, 32, 33, 48, 63, 64, rng.below(65), rng.below(300), 600])
        if rng.chance(1, 60):
            size = rng.choice([2**31, 2**32 - 1, 2**32 - 15, 2**32 - 16, 10**6])
        cont = 1 if rng.chance(1, 4) else 0
        cases.append({"items": [[f["dir"], f["name"], f["debugName"], f["debugId"], f["arch"], start, size, cont]]})
    return cases


def _arch(a):
    return {"x86_64": "X86_64", "x86_64h": "X86_64", "x86": "I686", "arm64": "Aarch64", "arm64e": "Aarch64", "arm": "Arm"}.get(a)


def evaluate(cases):
    if not cases:
        return []
    binp = _bin()
    lines = []
    for c in cases:
        it = c["items"][0]
        lines.append("%s %s %s %s %d %d %d" % (it[0], it[1], it[2], it[3], it[5], it[6], it[7]))
    rc, outl, err = K.run_lines(binp, ["asm"], lines, timeout=1800)
    if rc != 0 or len(outl) != len(cases):
        raise K.TieBroken("h_api asm failed (rc=%s, %d/%d lines): %s" % (rc, len(outl), len(cases), err[-500:]))
    terms = []
    fixed = {}
    indbad = {}
    for i, (c, l) in enumerate(zip(cases, outl)):
        it = c["items"][0]
        a = _arch(it[4])
        if l.startswith("PANIC") or l.startswith("BADJSON"):
            fixed[i] = 2
            continue
        if a is None:
            fixed[i] = 3
            continue
        if l.startswith("ERR"):
            terms.append((i, "(%s, %d, %d, %s, None, 0, %d, [], None)" % (a, it[5], it[6], "true" if it[7] else "false", WINDOW)))
            continue
        head, listed, oracle = l.split("|")
        kv = dict(x.split("=") for x in head.split()[1:])
        st = _state.setdefault("independent_byte_reading", {"agrees": 0, "differs": 0, "unavailable": 0})
        st["agrees" if kv.get("ind") == "ok" else "unavailable" if kv.get("ind", "none") == "none" else "differs"] += 1
        if kv.get("ind", "none").startswith("bad"):
            # the bytes the listing was decoded from are not the bytes (or not all of the bytes) the file has at that relative address
            indbad[i] = kv["ind"]
            c["_out"] = "read_bytes_at_relative_address returned %s bytes; an independent reading of the file gives: %s (admissible lengths, or other bytes)" % tuple(kv["ind"].split(":")[1:3])
        fend = "None" if kv["fend"] == "-" else "Some %s" % kv["fend"]
        lst = K.coq_list(["(%s, %s)" % (x.split(":")[0], "KValid" if x.split(":")[1] == "v" else "KInvalid") for x in listed.split()])
        orc = []
        for x in oracle.split():
            o, k, n = x.split(":")
            orc.append("(%s, %s %s)" % (o, {"o": "DOk", "x": "DExhausted", "i": "DInvalid"}[k], n))
        terms.append((i, "(%s, %d, %d, %s, %s, %s, %d, %s, Some (%s, %s, %s))" % (
            a, it[5], it[6], "true" if it[7] else "false", fend, kv["nbytes"], WINDOW, K.coq_list(orc), kv["start"], kv["size"], lst)))
    ty = "(arch * N * N * bool * option N * N * N * list (N * dres) * option (N * N * list (N * kind)))"
    shards = [K.case_defs(ty, [t for _, t in ch]) for ch in K.chunked(terms, K.NCPU)]
    try:
        res = K.coq_eval(PROP, "From SV Require Import Model.AsmDecode Tie.C20.\nOpen Scope N_scope.", shards)
    except RuntimeError as ex:
        raise K.TieBroken(str(ex))
    flat = [v for r in res for v in r]
    if len(flat) != len(terms):
        raise K.TieBroken("verdict count mismatch %d vs %d" % (len(flat), len(terms)))
    out = [None] * len(cases)
    for (i, _), v in zip(terms, flat):
        out[i] = v
    for i, v in fixed.items():
        out[i] = v
    for i in indbad:
        if out[i] is not None and out[i] % 10 != 2:
            out[i] = out[i] - out[i] % 10 + 2
    return out


def known(case):
    return None


def describe(case):
    it = case["items"][0]
    d = {"fixture": it[0] + "/" + it[1], "arch": it[4], "startAddress": hex(it[5]), "size": hex(it[6]), "continueUntilFunctionEnd": bool(it[7])}
    if "_out" in case:
        d["error"] = case["_out"]
    return d


def distribution(cases):
    d = {"arch": {}, "continue": 0, "size_hist": {}}
    for c in cases:
        it = c["items"][0]
        d["arch"][it[4]] = d["arch"].get(it[4], 0) + 1
        d["continue"] += it[7]
        b = "0" if it[6] == 0 else ("<=16" if it[6] <= 16 else "<=64" if it[6] <= 64 else "<=600" if it[6] <= 600 else "huge")
        d["size_hist"][b] = d["size_hist"].get(b, 0) + 1
    d.update(_state)
    return d


def run(out, tier, seed, replay):
    K.standard_flow(out, sys.modules[__name__], tier, seed, replay)
