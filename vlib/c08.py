# C08 — nothing crashes the API.  PARTIAL: Coq theorems cover the transcribed panic sites (Properties/C08.v); the rest is a
# robustness run (fuzzing, not proof): structure-aware request mutations against Api::query_api, arbitrary/mutated .sym and
# .symindex files (also stale indexes) against the Breakpad code, and a differential on CodeId::from_str against its Coq model.
import json, os, shutil, sys
from . import common as K
from . import apienv

PROP = "C08"
RULE = ("three streams. (1) api: request path x body for Api::query_api over the fixture + generated modules: valid /symbolicate/v5, /source/v1, /asm/v1 requests and structure-aware mutations of them "
        "(field deletion / duplication / type swap, extreme numerics such as size 0xffffffff and 2^64, non-ASCII, odd-length and over-long identifiers, empty memoryMap, negative and huge module indices, truncated JSON, unknown paths); "
        "each call under catch_unwind with a 20 s watchdog, the reply must parse as a JSON object that is a result or has an error string. "
        "(2) bp: Breakpad .sym bytes (valid, line-level mutations, extreme addresses and sizes such as FUNC fffffff0 20, non-ASCII INFO CODE_ID, binary junk) with no index, their own index, a mutated index or a stale index "
        "of another file: index creation in several partitions, parse/serialize of the stored index, lookups and symbol enumeration under catch_unwind. "
        "(3) codeid: CodeId::from_str on ASCII and non-ASCII text of every length 0..45 compared with the Coq model (evaluated by vm_compute). "
        "non-trivial = mutated / malformed input (not a pristine valid request or file)")
TRUSTED = ["this stream is fuzzing: it samples, it does not prove; hangs are detected only above 20 s",
           "panic-freedom of serde_json, nom, object, gimli/addr2line, yaxpeax, debugid, uuid on arbitrary input is NOT proved"]
ASSUMPTIONS = ["debug build (overflow checks and debug assertions on)"]

_env = None
_hist = {}


def prove():
    return K.prove(PROP, extra_targets=["Tie/C08.vo"])


def _mutate_json(rng, v, depth=0):
    """structure-aware mutation of a JSON value"""
    r = rng.below(100)
    if isinstance(v, dict) and v:
        k = rng.choice(sorted(v.keys()))
        w = dict(v)
        if r < 20:
            del w[k]
        elif r < 35:
            w[k] = rng.choice([None, 0, -1, 2**64, 1.5, "", "0xffffffff", [], {}, True, "é" * 9, "0x" + "f" * 30])
        elif r < 45:
            w[k + "x"] = w[k]
        else:
            w[k] = _mutate_json(rng, w[k], depth + 1)
        return w
    if isinstance(v, list):
        w = list(v)
        if not w or r < 15:
            return rng.choice([[], w + w, w[:1], [[]], [None], [[2**40, 1]], [[-1, 5]], [[0]]])
        i = rng.below(len(w))
        if r < 30:
            del w[i]
        elif r < 45:
            w.insert(i, w[i])
        else:
            w[i] = _mutate_json(rng, w[i], depth + 1)
        return w
    if isinstance(v, str):
        return rng.choice(["", v + v, v[:-1], v[1:], v.upper(), "é" + v, v[:7] + "é" + v[8:], "0x", "0xffffffff", "0x100000000", "-0x1", "0xzz", v + "\u0000", "1234567é9",
                           "ab" * 40, "A" * 33, "0" * 32, "퟿" * 5, v.replace("0x", ""),
                           # characters that an echoing error message has to escape: control characters, DEL, invisible and combining code points, quotes and backslashes
                           "\u0001", "\u007f", v.replace("0x", "") + "\u001b", "\u200b" + v, "a\u0301", "\ufeff", "\"q\"\\", "\u2028", v[:3] + "\u0000" + v[3:], "\ue000"])
    if isinstance(v, (int, float)):
        return rng.choice([0, -1, 1, 2**31, 2**32 - 1, 2**32, 2**63, 2**64, 1e308, 0.5, "5", None, v + 1])
    return rng.choice([None, 0, "", [], {}])


def gen(tier, rng, scale):
    quick = tier == "quick"
    global _env
    try:
        if _env is None:
            _env = apienv.Env("c08")
        mods = _env.modules
    except K.TieBroken:
        mods = [{"debugName": "genmod1.so", "breakpadId": "AAAA0000BBBB1111CCCC2222DDDD33330", "offsets": [0x1000], "kind": "generated"}]
    cases = []
    # (1) api
    for ci in range((450 if quick else 8000) * scale):
        m = rng.choice(mods)
        off = rng.choice(m["offsets"])
        kind = rng.choice(["sym", "sym", "src", "asm", "asm"])
        if kind == "sym":
            url = "/symbolicate/v5"
            job = {"memoryMap": [[m["debugName"], m["breakpadId"]], ["x.pdb", "00000000000000000000000000000000A"]],
                   "stacks": [[[0, off], [1, 5], [0, off + 1]], []]}
            # several jobs that share libraries but ask for different addresses; the same library in two slots of one memory map
            off2 = rng.choice(m["offsets"])
            m2 = rng.choice(mods)
            job2 = {"memoryMap": [["x.pdb", "00000000000000000000000000000000A"], [m["debugName"], m["breakpadId"]], [m2["debugName"], m2["breakpadId"]], [m["debugName"], m["breakpadId"]]],
                    "stacks": [[[1, off2], [3, off2 + 3], [2, rng.choice(m2["offsets"])]], [[3, off]]]}
            body = rng.choice([job, {"jobs": [job, job]}, {"jobs": [job, job2]}, {"jobs": [job2, job]}, job2, {"jobs": [job2, job, job2]}])
        elif kind == "src":
            url = "/source/v1"
            body = {"debugName": m["debugName"], "debugId": m["breakpadId"], "moduleOffset": hex(off), "file": rng.choice(apienv.SPECIAL_FILES)}
        else:
            url = "/asm/v1"
            body = {"name": m["debugName"].replace(".pdb", ".exe"), "debugName": m["debugName"], "debugId": m["breakpadId"], "codeId": rng.choice(["1234567é9", "5b8a1b3c1000", "ab" * 20, None]),
                    "startAddress": hex(off), "size": rng.choice(["0x20", "0xffffffff", "0xfffffff1", "0x0", "0x7fffffff"]), "continueUntilFunctionEnd": rng.chance(1, 2)}
            if body["codeId"] is None:
                del body["codeId"]
        pristine = rng.chance(1, 6)
        text = json.dumps(body)
        if not pristine:
            nm = rng.range(1, 3)
            b2 = body
            for _ in range(nm):
                b2 = _mutate_json(rng, b2)
            try:
                text = json.dumps(b2)
            except (TypeError, ValueError, OverflowError):
                text = json.dumps(body)
            r = rng.below(100)
            if r < 12:
                text = text[:rng.below(len(text) + 1)]                 # truncated JSON
            elif r < 18:
                text = text.replace('"', "'", 1)
            elif r < 22:
                text = rng.choice(["", "null", "[]", "42", "\"x\"", "{", "{}", "{\"jobs\":5}", "{\"jobs\":[]}", '{"memoryMap":[],"stacks":[[[0,4112]]]}',
                                   '{"jobs":[{"memoryMap":[],"stacks":[[[0,1]]]}]}', '{"memoryMap":[["a","b"]],"stacks":[[[4294967295,1]]]}'])
            if rng.chance(1, 15):
                url = rng.choice(["/symbolicate/v4", "", "/", "/asm/v1/", "/source/v1?x", "/../etc", "é", url.upper(), url + "\u0000", url + "\u007f", "/\u200b", url + "\"\\", "/\u0001/v1"])
        cases.append({"stream": "api", "items": [url, text], "pristine": pristine})
    # (2) breakpad
    base, _ = apienv._gen_sym("fz.so", "AAAA0000BBBB1111CCCC2222DDDD33330", 1)
    other, _ = apienv._gen_sym("other.so", "0123456789ABCDEF0123456789ABCDEF1", 0)
    def special_path():
        # the special FILE-name forms Breakpad files use (hg: / git: / s3: / cargo:), well-formed and degenerate: empty components, components that are or
        # end in a dash, missing or surplus components, a trailing colon, non-ASCII
        comp = ["", "-", "a-", "tokio-", "tokio-util-", "tokio-1.6.1", "tokio-util-0.7.0-alpha.1", "-1", "x", "é", "a/b", "github.com-1ecc6299db9ec823", "997f00815e6b", "src/lib.rs", " ", "a:b"]
        return rng.choice(["hg", "git", "s3", "cargo", "cargo", "Cargo", ""]) + ":" + ":".join(rng.choice(comp) for _ in range(rng.range(0, 5))) + rng.choice(["", "", ":", "/"])
    for ci in range((160 if quick else 4000) * scale):
        lines = base.split("\n")
        pristine = rng.chance(1, 8)
        if not pristine and rng.chance(1, 3):
            # every FILE record gets such a name: the lookups below report file names of line records and inline call sites
            lines = [("FILE %s %s" % (l.split(" ")[1], special_path())) if l.startswith("FILE ") and len(l.split(" ")) > 2 and rng.chance(2, 3) else l for l in lines]
        if not pristine:
            for _ in range(rng.range(1, 6)):
                i = rng.below(len(lines))
                r = rng.below(100)
                if r < 12:
                    del lines[i]
                elif r < 24:
                    lines.insert(i, rng.choice(["FUNC fffffff0 20 0 f", "FUNC ffffffff ffffffff 0 g", "PUBLIC ffffffffffffffff 0 p", "PUBLIC m 0 0 q", "INFO CODE_ID 1234567é9 x", "INFO CODE_ID é",
                                                "INLINE 0 1 0 0 fffffff0 20", "INLINE 4294967295 1 0 0 1000 1", "INLINE 0 5 0 0", "FILE 4294967296 x", "FILE 4294967295 y", "INLINE_ORIGIN 0",
                                                "1000 ffffffff 1 0", "ffffffffffffffff 1 1 1", "STACK WIN 4 0 0", "MODULE a b c d", "FUNC 0 0 0 ", "\r\r\r", "\x00\x01\x02", "FUNC 1000 1 0 dup"]))
                elif r < 40:
                    l = lines[i]
                    lines[i] = l[:rng.below(len(l) + 1)]
                elif r < 55:
                    lines[i] = lines[i].replace(" ", "  ", 1) if rng.chance(1, 2) else lines[i].replace(" ", "", 1)
                elif r < 70:
                    lines[i] = lines[i] + rng.choice(["\r", " ", " zz", "é"])
                elif r < 80 and i + 1 < len(lines):
                    lines[i], lines[i + 1] = lines[i + 1], lines[i]
                else:
                    lines[i] = "".join(chr(rng.below(256)) for _ in range(rng.below(30)))
        if rng.chance(1, 5) and lines and lines[0].startswith("MODULE ") and len(lines[0].split(" ")) >= 5:
            # variants of the MODULE record itself: the index creator stores these bytes and parse_symindex_file reads them back
            f = lines[0].split(" ")
            lines[0] = rng.choice([" ".join(f[:4]) + " ", " ".join(f[:4]) + "  ", " ".join(f[:4]) + " \t", " ".join(f[:4]) + " \r", lines[0] + " ", lines[0] + "\t",
                                   " ".join(f[:4]), f[0] + "  " + " ".join(f[1:]), " ".join(f[:3] + [f[3].lower()] + f[4:]), " ".join(f[:3] + [f[3] + "ABCDEF1"] + f[4:]),
                                   " ".join(f[:3] + [f[3][:31]] + f[4:]), " ".join(f[:4]) + " name with spaces ", "MODULE  x86_64 " + " ".join(f[3:])])
        text = "\n".join(lines)
        if rng.chance(1, 10):
            text = text[len(text.split("\n")[0]) + 1:]               # no MODULE line
        idx = rng.choice(["none", "own", "stale", "mutated", "garbage", "fields"])
        addrs = sorted(set([0, 0x1000, 0x1012, 0x1019, 0x103f, 0x1040, 0xfffffff0, 0xfffffff8, 0xffffffff] + [rng.below(0x2000) for _ in range(6)]))
        cases.append({"stream": "bp", "items": [text, idx, rng.next() % 100000], "addrs": addrs, "pristine": pristine and idx in ("none", "own"), "_other": other})
    # (3) codeid
    alphabet = "0123456789abcdefABCDEF" * 3 + "gz+- é€𝄞"
    for ci in range((500 if quick else 8000) * scale):
        n = rng.below(46)
        s = "".join(rng.choice(alphabet) for _ in range(n))
        if rng.chance(1, 3):
            s = "".join(rng.choice("0123456789ABCDEF") for _ in range(rng.choice([9, 12, 16, 17, 18, 32, 33, 40])))
            if rng.chance(1, 3) and len(s) > 8:
                k = rng.below(len(s))
                s = s[:k] + rng.choice(["é", "€", "+"]) + s[k + 1:]
        cases.append({"stream": "codeid", "items": [s]})
    return cases


def with_items(case, items):
    c = dict(case)
    c["items"] = items
    return c


def _index_bytes(bin_sym, text_path):
    # produce an index for a .sym file with the harness itself (bp mode prints it)
    rc, outl, err = K.run_lines(bin_sym, ["bp"], ["%s 1 0" % text_path])
    if rc != 0 or not outl:
        return None
    head = outl[0].split(" | ")[0]
    kv = dict(x.split("=", 1) for x in head.split() if "=" in x)          # (a file on which the index creator panics gives no fields: no index then)
    return None if kv.get("IDX", "ERR") == "ERR" else bytes.fromhex(kv["IDX"])


def evaluate(cases):
    global _env
    if not cases:
        return []
    ok, log, bindir = K.cargo_build("h_symbols")
    if not ok:
        raise K.TieBroken("harness h_symbols does not build:\n" + log[-1500:])
    bin_sym = os.path.join(bindir, "h_symbols")
    if _env is None:
        _env = apienv.Env("c08")
    env = _env
    verdicts = [None] * len(cases)
    try:
        # (1) api
        idx = [i for i, c in enumerate(cases) if c["stream"] == "api"]
        if idx:
            lines = ["%s %s %s" % (env.dir, env.tmpfile(cases[i]["items"][0]), env.tmpfile(cases[i]["items"][1])) for i in idx]
            rc, outl, err = K.run_lines(env.bin, ["fuzz"], lines, timeout=3000)
            if rc != 0 or len(outl) != len(idx):
                raise K.TieBroken("h_api fuzz failed (rc=%s, %d/%d): %s" % (rc, len(outl), len(idx), err[-400:]))
            for i, o in zip(idx, outl):
                _hist["api:" + o] = _hist.get("api:" + o, 0) + 1
                cases[i]["_outcome"] = o
                verdicts[i] = (0 if o in ("RESULT", "ERROR") else 2) + (0 if cases[i].get("pristine") else 10)
        # (2) bp
        idx = [i for i, c in enumerate(cases) if c["stream"] == "bp"]
        if idx:
            other_path = env.tmpfile(cases[idx[0]].get("_other", "MODULE a b 00000000000000000000000000000000A c\n"))
            other_idx = _index_bytes(bin_sym, other_path)
            lines = []
            for i in idx:
                c = cases[i]
                text, kind, seed = c["items"]
                p = env.tmpfile("")
                with open(p, "wb") as f:
                    f.write(text.encode("latin-1", "replace"))
                ip = "-"
                if kind != "none":
                    own = _index_bytes(bin_sym, p) if kind in ("own", "mutated", "fields") else None
                    data = own if kind == "own" else other_idx if kind == "stale" else None
                    if kind == "mutated" and own:
                        b = bytearray(own)
                        r = K.SplitMix64(seed)
                        for _ in range(r.range(1, 8)):
                            j = r.below(len(b))
                            b[j] = r.choice([0, 0xff, b[j] ^ 0x80, r.below(256)])
                        if r.chance(1, 4):
                            b = b[:r.below(len(b) + 1)]
                        data = bytes(b)
                    if kind == "fields" and own and len(own) >= 48:
                        # an index that still parses, with boundary values in whole fields of its 16-byte entries (index / kind at +0, length at +4, the
                        # 64-bit text offset at +8): offsets and lengths whose sum wraps, lies beyond the text, or points into the middle of a record
                        import struct
                        b = bytearray(own)
                        r = K.SplitMix64(seed)
                        h = struct.unpack_from("<10I", b, 8)
                        tables = [(h[4], h[3]), (h[6], h[5]), (h[9], h[7])]
                        for _ in range(r.range(1, 4)):
                            off, cnt = r.choice(tables)
                            if cnt == 0 or off + 16 * cnt > len(b):
                                continue
                            e = off + 16 * r.below(cnt)
                            ln = struct.unpack_from("<I", b, e + 4)[0]
                            if r.chance(3, 4):
                                v = r.choice([(1 << 64) - 1, (1 << 64) - ln, (1 << 64) - ln - 1, (1 << 64) - ln + 1, (1 << 64) - 8, 1 << 63, 1 << 32, (1 << 32) - 1, 1 << 40, len(text),
                                              max(0, len(text) - ln), max(0, len(text) - ln + 1), 0, 1, 7])
                                struct.pack_into("<Q", b, e + 8, v & ((1 << 64) - 1))
                            else:
                                struct.pack_into("<I", b, e + 4, r.choice([0, 1, 0xFFFFFFFF, 0x80000000, len(text), len(text) + 1, ln + 1, max(0, ln - 1)]))
                        data = bytes(b)
                    if kind == "garbage" or data is None:
                        r = K.SplitMix64(seed)
                        data = bytes(r.below(256) for _ in range(r.below(200))) if r.chance(1, 2) else b"SYMINDEX" + bytes(r.below(256) for _ in range(r.below(120)))
                    ip = env.tmpfile("")
                    with open(ip, "wb") as f:
                        f.write(data)
                lines.append("%s %s %s" % (p, ip, " ".join(str(a) for a in c["addrs"])))
            rc, outl, err = K.run_lines(bin_sym, ["bpfuzz"], lines, timeout=3000)
            if rc != 0 or len(outl) != len(idx):
                raise K.TieBroken("h_symbols bpfuzz failed (rc=%s, %d/%d): %s" % (rc, len(outl), len(idx), err[-400:]))
            for i, o in zip(idx, outl):
                parts = o.split(" ", 2)
                panics = int(parts[1])
                cases[i]["_outcome"] = o
                _hist["bp:" + ("panic" if panics else "ok")] = _hist.get("bp:" + ("panic" if panics else "ok"), 0) + 1
                verdicts[i] = (2 if panics else 0) + (0 if cases[i].get("pristine") else 10)
    finally:
        env.close()
        _env = None
    # (3) codeid
    idx = [i for i, c in enumerate(cases) if c["stream"] == "codeid"]
    if idx:
        lines = [cases[i]["items"][0].encode("utf-8").hex() for i in idx]
        rc, outl, err = K.run_lines(bin_sym, ["codeid"], lines)
        if rc != 0 or len(outl) != len(idx):
            raise K.TieBroken("h_symbols codeid failed (rc=%s): %s" % (rc, err[-400:]))
        terms = []
        for i, o in zip(idx, outl):
            bs = K.coq_list([str(b) for b in cases[i]["items"][0].encode("utf-8")])
            t = o.split()
            if t[0] == "PE":
                ob = "(CPe %s %s)" % (t[1], t[2])
            elif t[0] == "UUID":
                ob = "(CUuid %s)" % K.coq_list([str(ord(ch)) for ch in t[1]])
            elif t[0] == "ELF":
                h = t[1] if len(t) > 1 else ""
                ob = "(CElf %s)" % K.coq_list([str(int(h[k:k + 2], 16)) for k in range(0, len(h), 2)])
            elif t[0] == "ERR":
                ob = "CErr"
            else:
                ob = "CPanic"
            _hist["codeid:" + t[0]] = _hist.get("codeid:" + t[0], 0) + 1
            terms.append("(%s, %s)" % (bs, ob))
        shards = [K.case_defs("(bytes * code_id)", ch) for ch in K.chunked(terms, K.NCPU)]
        try:
            res = K.coq_eval(PROP, "From SV Require Import Lib.Bytes Model.CodeIdStr Tie.C08.\nOpen Scope N_scope.", shards)
        except RuntimeError as ex:
            raise K.TieBroken(str(ex))
        flat = [v for r in res for v in r]
        if len(flat) != len(idx):
            raise K.TieBroken("verdict count mismatch")
        for i, v in zip(idx, flat):
            verdicts[i] = v
    return verdicts


def known(case):
    return None


def describe(case):
    d = {"stream": case["stream"], "outcome": case.get("_outcome")}
    if case["stream"] == "api":
        d["path"], d["body"] = case["items"][0], case["items"][1][:400]
    elif case["stream"] == "bp":
        d["index"], d["sym_text"] = case["items"][1], case["items"][0][:400]
    else:
        d["text"] = case["items"][0]
    return d


def distribution(cases):
    d = {"streams": {}, "outcomes": dict(_hist)}
    for c in cases:
        d["streams"][c["stream"]] = d["streams"].get(c["stream"], 0) + 1
    return d


def run(out, tier, seed, replay):
    K.standard_flow(out, sys.modules[__name__], tier, seed, replay)
