# End-to-end half of C02: record histories with mappings, forks, execs and call chains -> perf.data -> `samply import --save-only` -> resolved frames.
# Model: coq/Model/ConverterMaps.v (+ Attribution.v); tie: Tie/C02e.v (verdict_e2e).
import json, os, re, shutil, struct, subprocess
from concurrent.futures import ThreadPoolExecutor
from . import common as K
from . import perfdata as P

ORIGIN = 10 ** 9
FIXTURE = os.path.join(K.REPO, "fixtures", "other", "example-linux")
FIXTURE_LIB = 100
U64 = (1 << 64)
CTX = {"K": U64 - 128, "U": U64 - 512, "G": U64 - 2048, "GK": U64 - 2176, "GU": U64 - 2560, "HV": U64 - 32}


def elf_segments(path):
    """PT_LOAD entries (svma, file offset, file size) of an ELF64 LE file, in program-header order"""
    d = open(path, "rb").read(4096)
    e_phoff, = struct.unpack_from("<Q", d, 32)
    e_phentsize, e_phnum = struct.unpack_from("<HH", d, 54)
    segs = []
    for i in range(e_phnum):
        p_type, p_flags, p_offset, p_vaddr, _, p_filesz, p_memsz, _ = struct.unpack_from("<IIQQQQQQ", d, e_phoff + i * e_phentsize)
        if p_type == 1:
            segs.append((p_vaddr, p_offset, p_filesz))
    return segs


PACKED_LIB = 101
_packed = {}


def packed_fixture():
    """a small shared object linked with `-z noseparate-code` (what GNU ld wrote by default for years, and still writes for several targets): the code
    segment starts at file offset 0 and the data segment begins in the middle of a file page that also holds the end of the code segment, with another
    difference between address and file offset.  Page-granular mappings of such a file cover (parts of) both segments.  Returns (path, segments) or None"""
    if "v" not in _packed:
        _packed["v"] = None
        d = os.path.join(K.SCRATCH, "c02e_packed_%d" % os.getpid())
        try:
            os.makedirs(d, exist_ok=True)
            src = os.path.join(d, "p.c")
            open(src, "w").write("int packed_a(int x){return x*3+1;}\nint packed_b(int x){return packed_a(x)^5;}\nint g_data[64]={1,2,3};\n")
            so = os.path.join(d, "libpacked.so")
            r = subprocess.run(["gcc", "-shared", "-fPIC", "-O1", "-Wl,-z,noseparate-code", "-o", so, src], capture_output=True, timeout=120)
            if r.returncode == 0:
                segs = elf_segments(so)
                if len(segs) >= 2 and segs[0][1] == 0 and any(s_[0] - s_[1] != segs[0][0] - segs[0][1] for s_ in segs[1:]):
                    _packed["v"] = (so, segs, os.path.getsize(so))
                    import atexit
                    atexit.register(shutil.rmtree, d, True)
        except Exception:
            pass
    return _packed["v"]


def gen_history(rng):
    recs = []
    t = ORIGIN + 10
    live = []
    next_pid = 100
    base_abs = 0x7F0000000000

    def tick(same_ok=False):
        nonlocal t
        if not (same_ok and rng.chance(1, 4)):
            t += rng.range(1, 500)
        return t

    segs = elf_segments(FIXTURE)
    xseg = next(s for s in segs if s[1] <= 0x1100 < s[1] + s[2])          # the segment holding the code
    thr = {}            # pid -> tids of its non-main threads (a process may be forked by any thread of its parent)

    def forker(pp):
        return rng.choice([pp] + thr.get(pp, [])) if rng.chance(1, 2) else pp
    addrs = {}          # pid -> interesting addresses (inherited on fork, kept across exec: stale addresses must then stay raw)
    for _ in range(rng.range(6, 60)):
        r = rng.below(100)
        if not live or (r < 8 and len(live) < 5):
            pid = next_pid
            next_pid += rng.range(1, 9)
            if live and rng.chance(2, 3):
                pp = rng.choice(live)
                recs.append(["fork", pid, pp, tick(), forker(pp)])
                addrs[pid] = list(addrs.get(pp, []))
            else:
                recs.append(["exec", pid, tick()])
                addrs[pid] = []
            live.append(pid)
            continue
        pid = rng.choice(live)
        if r < 40:
            k = rng.below(100)
            if k < 70:
                lib = rng.below(5)
                start = base_abs + 0x1000 * rng.below(64)
                if addrs[pid] and rng.chance(1, 3):
                    a = rng.choice(addrs[pid])
                    start = (a & ~0xFFF) - 0x1000 * rng.below(2)        # overlap / replace an earlier mapping
                length = 0x1000 * rng.range(1, 4)
                if rng.chance(1, 4):
                    # byte-exact ranges as `perf inject --jit` writes them: unaligned start and length, often packed back to back in a page
                    prev = [x for x in addrs[pid] if x > base_abs]
                    start = (rng.choice(prev) if prev and rng.chance(1, 2) else start + 0x10 * rng.below(256))
                    length = rng.choice([0x10, 0x38, 0x7F0, 0x1008, 0x10 * rng.range(1, 0x300)])
                pgoff = 0x1000 * rng.below(16)
                earlier = [x for x in recs if x[0] == "mmap" and x[1] == pid]
                if earlier and rng.chance(1, 5):
                    # the same mapping announced once more, byte for byte (a dlclose / dlopen cycle that lands in the same hole, or a second announcement of
                    # a live mapping): whatever was mapped over it in between, from now on this range is that library again
                    _, _, _, start, length, pgoff, name = rng.choice(earlier)
                    recs.append(["mmap", pid, tick(True), start, length, pgoff, name])
                else:
                    recs.append(["mmap", pid, tick(True), start, length, pgoff, "absent:%d" % lib])
            elif packed_fixture() and rng.chance(1, 2):
                # the packed shared object: its code segment's pages as the loader maps them, or the whole file in one executable mapping - either
                # way the mapped file range holds the start of the data segment too; the code segment (the first one found) is the reference
                so, psegs, fsize = packed_fixture()
                svma, off, size = psegs[0]
                bias = 0x7E0000000000 + 0x1000 * rng.below(256)
                start = bias + (svma & ~0xFFF)
                length = ((size + (svma & 0xFFF) + 0xFFF) & ~0xFFF) if rng.chance(1, 2) else ((fsize + 0xFFF) & ~0xFFF)
                pgoff = off & ~0xFFF
                recs.append(["mmap", pid, tick(True), start, length, pgoff, "packed"])
            else:
                # the fixture, mapped like the loader would: the code segment (or a page-aligned part of it) at bias + vaddr
                svma, off, size = xseg
                bias = 0 if rng.chance(1, 2) else 0x555500000000 + 0x1000 * rng.below(256)
                start = bias + (svma & ~0xFFF)
                length = ((size + (svma & 0xFFF) + 0xFFF) & ~0xFFF)
                pgoff = off & ~0xFFF
                recs.append(["mmap", pid, tick(True), start, length, pgoff, "fixture"])
            for _ in range(3):
                addrs[pid].append(start + rng.choice([0, 1, 2, length - 1, length, length + 1, rng.below(length)]))
            if rng.chance(1, 2):
                addrs[pid].append(max(start - 1, 0))
        elif r < 82:
            n = rng.choice([0, 1, 1, 2, 3, 5, 8])
            chain = []
            pool = addrs[pid] or [0x1000]
            for i in range(n):
                if rng.chance(1, 5):
                    chain.append(rng.choice(["K", "U", "U", "G", "GK", "GU", "HV"]))
                chain.append(rng.choice(pool) if rng.chance(4, 5) else rng.choice([0, 1, 0x5000, 0xFFFFFFFF81000010, rng.below(1 << 47)]))
            recs.append(["sample", pid, tick(True), rng.choice(pool), 1 if rng.chance(1, 8) else 0, chain])
        elif r < 86:
            recs.append(["exec", pid, tick()])
        elif r < 88 and len(live) > 1:
            # a FORK record naming a pid that is already known (pid reuse without a recorded EXIT): the parent's mappings are adopted again
            pp = rng.choice([x for x in live if x != pid])
            recs.append(["fork", pid, pp, tick(), forker(pp)])
            addrs[pid] = list(addrs.get(pid, [])) + list(addrs.get(pp, []))
        elif r < 93:
            nt = pid + 1000 + rng.below(5)
            recs.append(["tfork", pid, nt, tick()])
            thr.setdefault(pid, []).append(nt)
        elif r < 97 and len(live) > 1:
            recs.append(["exit", pid, tick()])
            live.remove(pid)
        else:
            pp = pid
            pid = next_pid
            next_pid += rng.range(1, 9)
            recs.append(["fork", pid, pp, tick(), forker(pp)])
            addrs[pid] = list(addrs.get(pp, []))
            live.append(pid)
    # sample times must be strictly increasing per process (exact repeats are C01's business)
    last = {}
    for r in recs:
        if r[0] == "sample":
            if last.get(r[1], 0) >= r[2]:
                r[2] = last[r[1]] + 1
            last[r[1]] = r[2]
    # keep the whole history time-ordered after those bumps
    tcur = 0
    for r in recs:
        i = {"fork": 3, "exec": 2, "exit": 2, "tfork": 3, "mmap": 2, "sample": 2}[r[0]]
        if r[i] < tcur:
            r[i] = tcur
        tcur = r[i]
    last = {}
    for r in recs:
        if r[0] == "sample":
            if last.get(r[1], 0) >= r[2]:
                return gen_history(rng)          # rare: bumping broke strictness; draw again
            last[r[1]] = r[2]
    return recs


def to_perf(recs):
    out = []
    last = ORIGIN
    for r in recs:
        k = r[0]
        if k == "exec":
            out.append(P.comm(r[1], r[1], "p%d" % r[1], r[2], True))
            last = r[2]
        elif k == "fork":
            out.append(P.fork(r[1], r[2], r[1], r[4] if len(r) > 4 else r[2], r[3]))      # the forking thread need not be the parent's main thread
            last = r[3]
        elif k == "tfork":
            out.append(P.fork(r[1], r[1], r[2], r[1], r[3]))
            last = r[3]
        elif k == "exit":
            out.append(P.exit_(r[1], r[1], r[1], r[1], r[2]))
            last = r[2]
        elif k == "mmap":
            path = FIXTURE if r[6] == "fixture" else packed_fixture()[0] if r[6] == "packed" else _absent_path(int(r[6].split(":")[1]))
            out.append(P.mmap2(r[1], r[1], r[3], r[4], r[5], path, r[2]))
            last = r[2]
        else:
            chain = [CTX[x] if isinstance(x, str) else x for x in r[5]]
            out.append(P.sample(r[1], r[1], r[2], r[3], chain if chain else [], kernel=bool(r[4])))
            last = r[2]
    out.append(P.finished_round())
    return P.build(out, first_time=ORIGIN, last_time=last)


def _absent_path(k):
    """the recorded path of absent library k: libraries 3 and 4 have the file names of libraries 0 and 1 in another directory (without a build id
    and without the file, the path is all that tells them apart)"""
    return "/nonexistent/verif/d%d/lib%d.so" % (k // 3, k % 3)


def observed(profile):
    libs = profile["libs"]
    out = []
    for th in profile["threads"]:
        st, ft, fu, rt, sa = th["stackTable"], th["frameTable"], th["funcTable"], th["resourceTable"], th["stringArray"]
        pid = int(str(th["pid"]).split(".")[0])

        def frames(i):
            fr = []
            while i is not None:
                f = st["frame"][i]
                fn = ft["func"][f]
                r = fu["resource"][fn]
                if r is None or r < 0:
                    name = sa[fu["name"][fn]]
                    fr.append(("raw", int(name, 16)) if name.startswith("0x") else ("bad", name))
                else:
                    lp = libs[rt["lib"][r]]["path"]
                    m = re.fullmatch(r"/nonexistent/verif/d(\d)/lib(\d)\.so", lp)
                    lib = FIXTURE_LIB if lp.endswith("/example-linux") else PACKED_LIB if lp.endswith("/libpacked.so") else (int(m.group(2)) + 3 * int(m.group(1))) if m else 999
                    fr.append(("lib", lib, ft["address"][f]))
                i = st["prefix"][i]
            return fr[::-1]
        sm = th["samples"]
        acc = 0.0
        for j in range(sm["length"]):
            if "time" in sm:
                tms = sm["time"][j]
            else:
                acc += sm["timeDeltas"][j]
                tms = acc
            out.append((pid, ORIGIN + int(round(tms * 1e6)), frames(sm["stack"][j])))
    return out


def coq_records(recs):
    segs = None
    out = []
    for r in recs:
        k = r[0]
        if k == "exec":
            out.append("(MExec %d)" % r[1])
        elif k == "fork":
            out.append("(MFork %d %d)" % (r[1], r[2]))
        elif k == "tfork":
            out.append("(MFork %d %d)" % (r[1], r[1]))
        elif k == "exit":
            out.append("(MExitMain %d)" % r[1])
        elif k == "mmap":
            if r[6] == "fixture":
                if segs is None:
                    segs = K.coq_list(["(mkSeg %d %d %d)" % s for s in elf_segments(FIXTURE)])
                out.append("(MMmap %d %d %d %d %d (Some %s) %d)" % (r[1], r[2], r[3], r[4], r[5], segs, FIXTURE_LIB))
            elif r[6] == "packed":
                out.append("(MMmap %d %d %d %d %d (Some %s) %d)" % (r[1], r[2], r[3], r[4], r[5], K.coq_list(["(mkSeg %d %d %d)" % s_ for s_ in packed_fixture()[1]]), PACKED_LIB))
            else:
                out.append("(MMmap %d %d %d %d %d None %s)" % (r[1], r[2], r[3], r[4], r[5], r[6].split(":")[1]))
        else:
            chain = [CTX[x] if isinstance(x, str) else x for x in r[5]]
            out.append("(MSample %d %d %d %s %s)" % (r[1], r[2], r[3], "true" if r[4] else "false", K.coq_list([str(x) for x in chain])))
    return K.coq_list(out)


def coq_observed(obs):
    def fr(f):
        if f[0] == "lib":
            return "(RInLib %d %d)" % (f[1], f[2])
        if f[0] == "raw":
            return "(RRaw %d)" % f[1]
        return "RPanic"
    return K.coq_list(["(%d, %d, %s)" % (p, t, K.coq_list([fr(f) for f in frames])) for p, t, frames in obs])


def evaluate(prop, cases, stats):
    ok, log, samply = K.cargo_build_samply()
    if not ok:
        raise K.TieBroken("samply does not build:\n" + log[-1500:])
    base = os.path.join(K.SCRATCH, "c02e_%d" % os.getpid())
    shutil.rmtree(base, ignore_errors=True)
    os.makedirs(base)

    def one(i):
        d = os.path.join(base, "h%d" % i)
        os.makedirs(d)
        try:
            pd = os.path.join(d, "rec.perf.data")
            open(pd, "wb").write(to_perf(cases[i]["items"]))
            outp = os.path.join(d, "out.json")
            r = subprocess.run([samply, "import", pd, "--save-only", "-o", outp], capture_output=True, text=True, timeout=120)
            if r.returncode != 0 or not os.path.exists(outp):
                return {"error": (r.stderr or r.stdout)[-400:]}
            return {"obs": observed(json.load(open(outp)))}
        finally:
            shutil.rmtree(d, ignore_errors=True)
    try:
        with ThreadPoolExecutor(max_workers=K.NCPU) as ex:
            results = list(ex.map(one, range(len(cases))))
    finally:
        shutil.rmtree(base, ignore_errors=True)
    verdicts = [None] * len(cases)
    terms, idx = [], []
    for i, (c, r) in enumerate(zip(cases, results)):
        if "error" in r:
            c["_out"] = r["error"]
            verdicts[i] = 1
            continue
        c["_obs"] = r["obs"]
        stats["e2e_histories"] = stats.get("e2e_histories", 0) + 1
        stats["e2e_samples"] = stats.get("e2e_samples", 0) + len(r["obs"])
        stats["e2e_frames_in_lib"] = stats.get("e2e_frames_in_lib", 0) + sum(1 for _, _, fr in r["obs"] for f in fr if f[0] == "lib")
        stats["e2e_frames_raw"] = stats.get("e2e_frames_raw", 0) + sum(1 for _, _, fr in r["obs"] for f in fr if f[0] == "raw")
        for rec in c["items"]:
            kk = "e2e_" + rec[0] + ("_fixture" if rec[0] == "mmap" and rec[6] == "fixture" else "_packed_fixture" if rec[0] == "mmap" and rec[6] == "packed" else "")
            stats[kk] = stats.get(kk, 0) + 1
        terms.append("(%s, %s)" % (coq_records(c["items"]), coq_observed(r["obs"])))
        idx.append(i)
    shards = [K.case_defs("(list mrec * list osample)", ch, fn="verdict_e2e") for ch in K.chunked(terms, K.NCPU)]
    try:
        res = K.coq_eval(prop, "From SV Require Import Model.LibMappings Model.Attribution Model.ConverterMaps Tie.C02 Tie.C02e.\nOpen Scope N_scope.", shards)
    except RuntimeError as ex:
        raise K.TieBroken(str(ex))
    flat = [v for r in res for v in r]
    if len(flat) != len(terms):
        raise K.TieBroken("verdict count mismatch %d vs %d" % (len(flat), len(terms)))
    for i, v in zip(idx, flat):
        verdicts[i] = v
    return verdicts
