# C10 — Breakpad symbol index.  Models: coq/Model/{LineBuffer,BreakpadIndex,BreakpadLookup}.v; spec: coq/Spec/BreakpadText.v;
# tie: harness/h_symbols bp mode (BreakpadIndexCreator over many partitions, parse/serialize round trip, lookups with and
# without a separately stored index through SymbolManager).
import os, shutil, sys
from . import common as K

PROP = "C10"
RULE = ("cases = generated .sym files (MODULE line, then any number and order of FILE / INLINE_ORIGIN / FUNC (with line records ascending and INLINE records) / PUBLIC / STACK / INFO / junk records; "
        "hexadecimal fields in lower and upper case, LF, CRLF and \\r\\r\\n endings, with and without a final newline, very long lines, FILE / INLINE_ORIGIN records inside FUNC blocks, unsorted and duplicate indices) "
        "each fed to BreakpadIndexCreator as: one chunk, all 1-byte chunks, cut after every '\\r', cut after every '\\n', and random partitions; "
        "lookups at every symbol start, start+size-1, start+size, every line/inline boundary +-1, below the first and above the last symbol. "
        "Observed: index bytes identical across partitions (EQ), parse->serialize reproduces them (RT), lookups with a stored index equal self-indexed lookups (LKEQ), the lookup results. "
        "Checked in Coq: results = straightforward reading of the text (well-formed files), = the index-based model, index bytes = model bytes, the model of parse_symindex_file reads them back. "
        "Second stream: two mutated copies of every index (truncated, header counts / offsets bumped, magic or body bytes flipped, trailing bytes, unchanged) go through parse_symindex_file; acceptance and the "
        "canonical re-serialization of the tables read must equal the model's. "
        "non-trivial = well-formed file where some lookup returns an inline chain")
TRUSTED = ["the Coq tokenizers in Lib/Bytes.v + Model/BreakpadIndex.v transcribe the nom parsers (tag/space1/decimal_u32/hex_str); MODULE validity is modelled as 'third field is 32..40 hex digits'",
           "sort_unstable_by_key + dedup_by_key modelled as stable sort + keep-first (files with duplicate addresses/indices are outside the well-formedness hypothesis and only compared with the model)",
           "harness h_symbols/src/bp.rs and memhelper.rs"]
ASSUMPTIONS = ["'agrees with the text' is proved (C10_lookup_agrees_with_text) for every well-formed text below 4 GiB (wf_text in Spec/BreakpadText.v) and every address, over the models of the creator and of the lookup; "
               "the correspondence run ties those models to samply-symbols and also checks the implementation's answers against the text specification directly",
               "names are ASCII without trailing spaces"]


def prove():
    return K.prove(PROP, extra_targets=["Tie/C10.vo"])


def _gen_file(rng, wellformed, zero_sizes=False):
    eol = rng.choice(["\n", "\n", "\r\n", "\r\r\n"])
    mixed = rng.chance(1, 6)
    lines = ["MODULE Linux x86_64 BE4E976C325246EE9D6B7847A670B2A90 example-linux"]
    if rng.chance(1, 5):
        # the MODULE record is stored verbatim in the index and read back by parse_symindex_file: empty and blank names, trailing blanks, odd ids
        lines[0] = rng.choice(["MODULE Linux x86_64 BE4E976C325246EE9D6B7847A670B2A90 ", "MODULE Linux x86_64 BE4E976C325246EE9D6B7847A670B2A90  ",
                               "MODULE Linux x86_64 BE4E976C325246EE9D6B7847A670B2A90 \t", "MODULE Linux x86_64 BE4E976C325246EE9D6B7847A670B2A90 example linux ",
                               "MODULE windows x86 be4e976c325246ee9d6b7847a670b2a9abcdef12 a.pdb", "MODULE Linux x86_64 BE4E976C325246EE9D6B7847A670B2A90 example-linux\t"])
    nfiles = rng.range(0, 5)
    norig = rng.range(0, 4)
    pre = []
    # FILE / INLINE_ORIGIN numbering: dense from 0 (what the Linux dump_syms writes), or starting above 0 and / or with gaps (what other producers write)
    fb, fs_ = (0, 1) if rng.chance(3, 5) else (rng.choice([0, 1, 3]), rng.choice([1, 2, 5, 1000]))
    ob, os_ = (0, 1) if rng.chance(3, 5) else (rng.choice([0, 1, 2]), rng.choice([1, 3, 400]))

    def fid(i):
        return fb + fs_ * i

    def oid(i):
        return ob + os_ * i
    for i in range(nfiles):
        pre.append("FILE %d %s" % (fid(i), rng.choice(["a.c", "dir/b.cpp", "x" * rng.range(1, 40), "/abs/path/with space.h", "hg:hg.mozilla.org/c:f.cc:abc"])))
    for i in range(norig):
        pre.append("INLINE_ORIGIN %d %s" % (oid(i), rng.choice(["inl()", "ns::f(int, char)", "g", "long_" * rng.range(1, 10)])))
    if rng.chance(1, 3):
        pre.insert(0, "INFO CODE_ID AABBCC%02X name.so" % rng.below(256))
    if not wellformed and rng.chance(1, 2):
        rng_shuffle(rng, pre)
        if pre and rng.chance(1, 2):
            pre.append(pre[0])                     # duplicate index
    deferred = []
    if rng.chance(1, 3) and pre:
        k = rng.range(1, len(pre))
        deferred = pre[k:]                          # FILE / INLINE_ORIGIN records that will land inside FUNC blocks or at the end
        pre = pre[:k]
    lines += pre
    addr = 0x1000 + rng.below(64)
    lookups = [0, addr - 1]
    nsym = rng.range(0, 7)
    for si in range(nsym):
        kind = rng.choice(["F", "F", "F", "P"])
        if kind == "P":
            lines.append("PUBLIC %s%x %x %s" % ("m " if rng.chance(1, 8) else "", addr, rng.below(16), ("pub%d" % si) if not rng.chance(1, 10) else rng.choice(["", " ", "x y"])))
            lookups += [addr, addr + 1]
            addr += rng.range(1, 0x40)
        else:
            size = rng.range(1, 0x60)
            if zero_sizes and rng.chance(1, 5):
                size = 0                       # a FUNC record that covers no byte (C05's stream only: C10's text specification asks for sizes > 0)
            fname = "fn%d%s" % (si, rng.choice(["", "(int)", " const"])) if not rng.chance(1, 10) else rng.choice(["", " ", "a  b", "operator()(int, char const*) const", "\t"])
            lines.append("FUNC %s%x %x %x %s" % ("m " if rng.chance(1, 8) else "", addr, size, rng.below(32), fname))
            lookups += [addr, addr + size - 1, addr + size, addr + size // 2]
            # inline records: per depth a set of disjoint ranges, spread over 1..3 INLINE records per depth (a record may carry several ranges, in any
            # order; the ranges of different records interleave), deeper ranges nested in shallower ones; the records are written in any order
            if norig and rng.chance(2, 3):
                recs = []

                deep = rng.chance(1, 12)

                def inl(lo, hi, depth):
                    ranges, a = [], lo
                    while a < hi and len(ranges) < 5:
                        a += rng.below(4)
                        if a >= hi:
                            break
                        ln = min(rng.range(1, 12), hi - a)
                        ranges.append((a, a + ln))
                        a += ln
                    if not ranges:
                        return
                    nrec = rng.range(1, min(3, len(ranges)))
                    buckets = [[] for _ in range(nrec)]
                    for rg in ranges:
                        buckets[rng.below(nrec)].append(rg)
                    for b in buckets:
                        if b:
                            rng_shuffle(rng, b)
                            recs.append((depth, rng.below(500), fid(rng.below(max(1, nfiles))) if nfiles else 0, oid(rng.below(norig)), b))
                    for (a0, a1) in ranges:
                        lookups.extend([a0 - 1, a0, a1 - 1, a1])
                        if depth < 2 and a1 - a0 > 2 and rng.chance(1, 2):
                            inl(a0 + rng.below(2), a1 - rng.below(2), depth + 1)
                        elif deep and 2 <= depth < 13 and a1 - a0 > 2:
                            inl(a0, a1, depth + 1)              # a long inline chain: nest levels of two decimal digits
                inl(addr + rng.below(max(1, size // 3)), addr + size, 0)
                if rng.chance(2, 3):
                    rng_shuffle(rng, recs)
                inl_at = len(lines)
                for (dp, cl, cf, og, b) in recs:
                    lines.append("INLINE %d %d %d %d %s" % (dp, cl, cf, og, " ".join("%x %x" % (x, y - x) for x, y in b)))
                inl_n = len(lines) - inl_at
            else:
                inl_at, inl_n = len(lines), 0
            line_at = len(lines)
            # line records, ascending
            la = addr
            while la < addr + size:
                ls = rng.range(1, max(1, size // 3))
                lines.append("%x %x %d %d" % (la, min(ls, addr + size - la), rng.below(3000), fid(rng.below(max(1, nfiles + (0 if wellformed else 1))))))
                lookups += [la, la + 1]
                la += ls
                if rng.chance(1, 5):
                    la += rng.range(1, 4)           # a gap between line records
                if deferred and rng.chance(1, 3):
                    lines.append(deferred.pop(0))
            if inl_n and rng.chance(1, 3):
                # dump_syms writes a FUNC's INLINE records before its line records; the format does not demand it: spread them among the line records
                # (and behind them), each kind keeping its own order
                ins = lines[inl_at:inl_at + inl_n]
                rest = lines[line_at:]
                merged = []
                while ins or rest:
                    if ins and (not rest or rng.chance(1, 2)):
                        merged.append(ins.pop(0))
                    else:
                        merged.append(rest.pop(0))
                lines[inl_at:] = merged
            if not wellformed and rng.chance(1, 4):
                lines.append("INLINE 0 5 0 0 %x" % addr)      # malformed INLINE record: the FUNC cannot be parsed
            addr += size + rng.choice([0, 0, 1, 16]) + (1 if size == 0 else 0)
        if rng.chance(1, 5):
            lines.append(rng.choice(["STACK CFI INIT %x 10 .cfa: $rsp 8 +" % addr, "INFO GENERATOR verif", "junk line", "", "FILE", "FUNC zz", "PUBLIC", "INLINE_ORIGIN x y"]))
        if not wellformed and rng.chance(1, 8):
            addr = max(0x1000, addr - rng.range(1, 0x30))     # overlapping / duplicate addresses
    lines += deferred
    if rng.chance(1, 10):
        lines.append("FILE 77 " + "L" * rng.choice([2000, 5000]))
    lookups += [addr, addr + 5, 0xFFFFFFFF]
    if rng.chance(1, 4):
        # hexadecimal fields in upper case (Breakpad's own reader accepts both cases; dump_syms happens to write lower case)
        mode = rng.choice(["all", "some"])

        def up(tok):
            return tok.upper() if (mode == "all" or rng.chance(1, 2)) else tok
        for li, l in enumerate(lines):
            f = l.split(" ")
            if f[0] in ("FUNC", "PUBLIC") and len(f) > 3:
                k0 = 2 if f[1] == "m" else 1
                n = 3 if f[0] == "FUNC" else 2
                for k in range(k0, min(k0 + n, len(f) - 1)):
                    f[k] = up(f[k])
                lines[li] = " ".join(f)
            elif f[0] == "INLINE" and len(f) > 5:
                lines[li] = " ".join(f[:5] + [up(x) for x in f[5:]])
            elif len(f) == 4 and f[0] and all(c in "0123456789abcdef" for c in f[0]):
                lines[li] = " ".join([up(f[0]), up(f[1])] + f[2:])
    if rng.chance(1, 6):
        # numbers written with leading zeros up to the parsers' maximum field widths (8 hex digits for u32, 16 for the u64 address of a line record, 10 decimal digits)
        def pad(tok, width):
            return tok.rjust(rng.choice([len(tok), len(tok) + 1, width]), "0") if tok and len(tok) <= width and rng.chance(1, 2) else tok
        for li, l in enumerate(lines):
            f = l.split(" ")
            if f[0] in ("FUNC", "PUBLIC") and len(f) > 3:
                k0 = 2 if f[1] == "m" else 1
                n = 3 if f[0] == "FUNC" else 2
                for k in range(k0, min(k0 + n, len(f) - 1)):
                    f[k] = pad(f[k], 8)
                lines[li] = " ".join(f)
            elif f[0] == "INLINE" and len(f) > 5 and all(x.isdigit() for x in f[1:5]):
                lines[li] = " ".join([f[0]] + [pad(x, 10) for x in f[1:5]] + [pad(x, 8) for x in f[5:]])
            elif f[0] in ("FILE", "INLINE_ORIGIN") and len(f) > 2 and f[1].isdigit():
                lines[li] = " ".join([f[0], pad(f[1], 10)] + f[2:])
            elif len(f) == 4 and f[0] and all(c in "0123456789abcdefABCDEF" for c in f[0]) and f[2].isdigit() and f[3].isdigit():
                lines[li] = " ".join([pad(f[0], 16), pad(f[1], 8), pad(f[2], 10), pad(f[3], 10)])
    if rng.chance(1, 8):
        # field separators other than one space: the FILE / INLINE_ORIGIN / PUBLIC / FUNC / MODULE parsers (nom space1) take runs of spaces and
        # tabs, the line-record and INLINE tokenizer takes runs of spaces only
        for li, l in enumerate(lines):
            f = l.split(" ")
            if len(f) < 2 or not rng.chance(1, 3):
                continue
            nsep = {"FUNC": 4, "PUBLIC": 3, "FILE": 2, "INLINE_ORIGIN": 2, "MODULE": 4}.get(f[0], len(f) - 1)
            if len(f) > 1 and f[1] == "m":
                nsep += 1
            o = f[0]
            for k in range(1, len(f)):
                sep = rng.choice(["\t", "  ", " \t", "\t ", " "]) if k <= nsep else " "
                if f[0] == "MODULE" and k == 1 and sep[0] == "\t" and not rng.chance(1, 4):
                    sep = " " + sep                 # mostly keep the magic bytes "MODULE " that make it a .sym file
                o += sep + f[k]
            lines[li] = o
    out = ""
    for i, l in enumerate(lines):
        e = eol if not mixed else rng.choice(["\n", "\r\n"])
        out += l + e
    if rng.chance(1, 3):
        out = out[:-len(eol)] if not mixed else out.rstrip("\r\n")
    lookups = sorted(set(a for a in lookups if 0 <= a <= 0xFFFFFFFF))
    if len(lookups) > 90:
        rng_shuffle(rng, lookups)
        lookups = sorted(lookups[:90])
    return out, lookups


def rng_shuffle(rng, xs):
    for i in range(len(xs) - 1, 0, -1):
        j = rng.below(i + 1)
        xs[i], xs[j] = xs[j], xs[i]


def gen(tier, rng, scale):
    quick = tier == "quick"
    cases = []
    for ci in range((260 if quick else 5000) * scale):
        wf = not rng.chance(1, 4)
        text, lookups = _gen_file(rng, wf)
        cases.append({"text": text, "items": lookups, "seed": rng.below(2**32), "wf_intended": wf})
    # files larger than the 1 MiB chunks in which a symbol map indexes a file itself (make_index_storage): described by a few numbers, written out
    # only while they are evaluated.  These do not go through Coq (a 1.5 MB byte list is too much for a case file): the verdict is the property's
    # own equalities as the driver computes them (all partitions give the same index bytes, the index round-trips, stored-index lookups equal
    # self-indexed lookups) plus a direct reading of the generated text for every looked-up address.
    brng = rng.fork("big")
    for _ in range((2 if quick else 12) * scale):
        desc = {"nfunc": brng.range(9000, 16000), "seed": brng.below(2**32), "eol": brng.choice(["\n", "\r\n"]), "final_newline": brng.chance(2, 3)}
        _, funcs = _big_text(desc)
        lookups = []
        for k in sorted(set([0, 1, len(funcs) - 1, len(funcs) // 2] + [brng.below(len(funcs)) for _ in range(60)])):
            a, size = funcs[k][0], funcs[k][1]
            lookups += [a, a + size - 1, a + brng.below(size)]
        cases.append({"big": desc, "items": sorted(set(lookups)), "seed": brng.below(2**32)})
    return cases


def _big_text(desc):
    """(text, [(address, size, name, [(line address, size, line, file index)])]) of a large well-formed file: FILE and INLINE_ORIGIN records, then FUNC
    blocks whose line records cover the whole function"""
    r = K.SplitMix64(desc["seed"])
    files = ["/src/big/file%d.c" % i for i in range(7)]
    lines = ["MODULE Linux x86_64 BE4E976C325246EE9D6B7847A670B2A90 big-module"]
    lines += ["FILE %d %s" % (i, f) for i, f in enumerate(files)]
    funcs = []
    addr = 0x1000
    for k in range(desc["nfunc"]):
        size = r.range(4, 0x40)
        name = "function_number_%d_with_a_long_descriptive_name(int, char const*, unsigned long)" % k
        lines.append("FUNC %x %x %x %s" % (addr, size, r.below(16), name))
        recs, la = [], addr
        while la < addr + size:
            ls = min(r.range(1, 12), addr + size - la)
            recs.append((la, ls, r.below(5000), r.below(len(files))))
            lines.append("%x %x %d %d" % recs[-1])
            la += ls
        funcs.append((addr, size, name, recs))
        addr += size + r.choice([0, 0, 4, 0x20])
        if r.chance(1, 50):
            lines.append("PUBLIC %x 0 public_symbol_%d" % (addr, k))
            funcs.append((addr, None, "public_symbol_%d" % k, []))
            addr += 8
    text = desc["eol"].join(lines) + (desc["eol"] if desc["final_newline"] else "")
    return text, [f for f in funcs if f[1] is not None]


def with_items(case, items):
    c = dict(case)
    c["items"] = items
    return c


def _parse_lookup(tok):
    tok = tok.strip()
    if tok == "N":
        return "LNone"
    if not tok.startswith("S "):
        return "LPanic"
    head, _, fr = tok.partition(" [")
    parts = head.split(" ")
    addr, size, name = parts[1], parts[2], parts[3]
    fr = fr.rstrip("]")

    def bs(s):
        # "x" + hex of the bytes (harness h_symbols/src/bp.rs esc)
        return K.coq_list([str(b) for b in bytes.fromhex(s[1:])])

    def ob(s):
        return "None" if s == "-" else "(Some %s)" % bs(s)

    if fr == "nf":
        frames = "None"
    else:
        fl = []
        for f in fr.split(";"):
            fn, _, rest = f.partition("@")
            path, _, line = rest.rpartition(":")
            fl.append("(%s, %s, %s)" % (ob(fn), ob(path), "None" if line == "-" else "(Some %s)" % line))
        frames = "(Some %s)" % K.coq_list(fl)
    return "(LSome %s %s %s %s)" % (addr, "None" if size == "-" else "(Some %s)" % size, bs(name), frames)


def _hexs(x):
    return "x" + x.encode("latin-1").hex()


def _evaluate_big(cases, binp):
    d = os.path.join(K.SCRATCH, "c10big_%d" % os.getpid())
    os.makedirs(d, exist_ok=True)
    st = _stats.setdefault("large_files", {"files": 0, "bytes": 0, "lookups": 0})
    try:
        lines, tables = [], []
        for i, c in enumerate(cases):
            text, funcs = _big_text(c["big"])
            p = os.path.join(d, "big%d.sym" % i)
            with open(p, "wb") as f:
                f.write(text.encode("latin-1"))
            st["files"] += 1
            st["bytes"] += len(text)
            st["lookups"] += len(c["items"])
            tables.append(funcs)
            lines.append("%s %d %d %s" % (p, c["seed"], 3, " ".join(str(a) for a in c["items"])))
        rc, outl, err = K.run_lines(binp, ["bp"], lines, timeout=3000)
    finally:
        shutil.rmtree(d, ignore_errors=True)
    if rc != 0 or len(outl) != len(cases):
        raise K.TieBroken("h_symbols bp failed on the large files (rc=%s, %d/%d lines): %s" % (rc, len(outl), len(cases), err[-500:]))
    out = []
    for c, funcs, l in zip(cases, tables, outl):
        if l.strip() == "PANIC":
            c["_out"] = "samply-symbols panicked on this .sym file"
            out.append(12)
            continue
        head, _, rest = l.partition(" | ")
        kv = dict(x.split("=", 1) for x in head.split())
        lks = rest.split(" | ") if rest.strip() else []
        bad = []
        if kv.get("EQ") != "1":
            bad.append("index bytes differ between partitions")
        if kv.get("RT") != "1":
            bad.append("the index does not round-trip")
        if kv.get("LKEQ") != "1":
            bad.append("lookups through the stored index differ from lookups through the self-made index")
        starts = [f[0] for f in funcs]
        import bisect
        if len(lks) != len(c["items"]):
            bad.append("no symbol map (%s)" % rest[:40])
        else:
            files = ["/src/big/file%d.c" % i for i in range(7)]
            for a, got in zip(c["items"], lks):
                k = bisect.bisect_right(starts, a) - 1
                want = "N"
                if k >= 0 and a < funcs[k][0] + funcs[k][1]:
                    fa, fs, name, recs = funcs[k]
                    rec = [r for r in recs if r[0] <= a < r[0] + r[1]][0]
                    want = "S %d %d %s [%s@%s:%d]" % (fa, fs, _hexs(name), _hexs(name), _hexs(files[rec[3]]), rec[2])
                if got.strip() != want:
                    bad.append("lookup %d: got %s, the text says %s" % (a, got.strip()[:200], want[:200]))
                    break
        if bad:
            c["_out"] = "; ".join(bad)[:600]
        out.append(12 if bad else 10)
    return out


def evaluate(cases):
    if not cases:
        return []
    ok, log, bindir = K.cargo_build("h_symbols")
    if not ok:
        raise K.TieBroken("harness h_symbols does not build against the current tree:\n" + log[-1500:])
    big = [(i, c) for i, c in enumerate(cases) if c.get("big")]
    if big:
        out = [None] * len(cases)
        for (i, _), v in zip(big, _evaluate_big([c for _, c in big], os.path.join(bindir, "h_symbols"))):
            out[i] = v
        rest = [(i, c) for i, c in enumerate(cases) if not c.get("big")]
        for (i, _), v in zip(rest, evaluate([c for _, c in rest])):
            out[i] = v
        return out
    d = os.path.join(K.SCRATCH, "c10_%d" % os.getpid())
    os.makedirs(d, exist_ok=True)
    try:
        lines = []
        for i, c in enumerate(cases):
            p = os.path.join(d, "f%d.sym" % i)
            with open(p, "wb") as f:
                f.write(c["text"].encode("latin-1"))
            lines.append("%s %d %d %s" % (p, c["seed"], 6, " ".join(str(a) for a in c["items"])))
        rc, outl, err = K.run_lines(os.path.join(bindir, "h_symbols"), ["bp"], lines, timeout=1800)
    finally:
        shutil.rmtree(d, ignore_errors=True)
    if rc != 0 or len(outl) != len(cases):
        raise K.TieBroken("h_symbols bp failed (rc=%s, %d/%d lines): %s" % (rc, len(outl), len(cases), err[-500:]))
    terms = []
    panicked = set()
    for ci, (c, l) in enumerate(zip(cases, outl)):
        if l.strip() == "PANIC":
            # samply-symbols panicked on this file (index creation, parse back, or a lookup): no index data, no answers
            panicked.add(ci)
            c["_out"] = "samply-symbols panicked on this .sym file"
            l = "IDX=ERR EQ=1 RT=1 LKEQ=1 | "
            outl[ci] = l
        head, _, rest = l.partition(" | ")
        kv = dict(x.split("=", 1) for x in head.split())
        idx = kv["IDX"]
        idxb = "None" if idx == "ERR" else "(Some %s)" % K.coq_list([str(int(idx[i:i + 2], 16)) for i in range(0, len(idx), 2)])
        lks = [x for x in rest.split(" | ")] if rest.strip() else []
        if lks == ["MAPERR"] and not c["text"].startswith("MODULE "):
            # is_breakpad_file (breakpad/mod.rs MAGIC_BYTES) wants the seven bytes "MODULE " at offset 0: without them the file is not taken
            # for a .sym file at all and no symbol map is the expected outcome (with and without a stored index alike)
            pairs = []
        elif lks == ["MAPERR"] or len(lks) != len(c["items"]):
            pairs = [] if idx == "ERR" else [(c["items"][0] if c["items"] else 0, "LPanic")]
        else:
            pairs = [(a, _parse_lookup(t)) for a, t in zip(c["items"], lks)]
        text = K.coq_list([str(b) for b in c["text"].encode("latin-1")])
        terms.append("(%s, %s, %s, %s, %s, %s)" % (text, idxb, "true" if kv["EQ"] == "1" else "false", "true" if kv["RT"] == "1" else "false",
                                                   "true" if kv["LKEQ"] == "1" else "false", K.coq_list(["(%d, %s)" % p for p in pairs])))
    shards = [K.case_defs("(bytes * option bytes * bool * bool * bool * list (N * lres))", ch) for ch in K.chunked(terms, K.NCPU)]
    try:
        res = K.coq_eval(PROP, "From SV Require Import Lib.Bytes Model.BreakpadIndex Model.BreakpadLookup Tie.C10.\nOpen Scope N_scope.", shards, timeout=1800)
    except RuntimeError as ex:
        raise K.TieBroken(str(ex))
    flat = [v for r in res for v in r]
    if len(flat) != len(cases):
        raise K.TieBroken("verdict count mismatch %d vs %d" % (len(flat), len(cases)))
    for ci in panicked:
        flat[ci] = flat[ci] - flat[ci] % 10 + 2
    # second stream: mutated copies of the index bytes through parse_symindex_file, against the model of the parser
    muts = _idx_mutations(cases, outl)
    if muts:
        mv = _eval_idx(os.path.join(bindir, "h_symbols"), muts)
        for (ci, _), v in zip(muts, mv):
            if v == 1 and flat[ci] % 10 in (0, 3, 4):
                flat[ci] = flat[ci] - flat[ci] % 10 + 1
    return flat


def _idx_mutations(cases, outl):
    muts = []
    for ci, (c, l) in enumerate(zip(cases, outl)):
        head = l.partition(" | ")[0]
        kv = dict(x.split("=", 1) for x in head.split())
        if kv.get("IDX", "ERR") == "ERR":
            continue
        b = bytearray.fromhex(kv["IDX"])
        rng = K.SplitMix64(c["seed"] ^ 0xABCDEF)
        for _ in range(2):
            m = bytearray(b)
            k = rng.below(6)
            if k == 0 and len(m) > 48:
                m = m[:rng.below(len(m))]                                    # truncation
            elif k == 1:
                off = 12 + 4 * rng.below(9)                                   # a header count / offset field
                m[off:off + 4] = (int.from_bytes(m[off:off + 4], "little") + rng.choice([1, 4, 16, 0x10000, 0xFFFFFFF0])).to_bytes(8, "little")[:4]
            elif k == 2:
                m[rng.below(8)] ^= 1 << rng.below(8)                          # magic
            elif k == 3 and len(m) > 48:
                m[48 + rng.below(len(m) - 48)] ^= 1 << rng.below(8)           # a byte of the body
            elif k == 4:
                m += bytes(rng.below(40))                                     # trailing bytes
            else:
                pass                                                          # unchanged
            muts.append((ci, bytes(m)))
    return muts


def _eval_idx(binp, muts):
    d = os.path.join(K.SCRATCH, "c10i_%d" % os.getpid())
    os.makedirs(d, exist_ok=True)
    try:
        lines = []
        for k, (_, b) in enumerate(muts):
            p = os.path.join(d, "m%d.symindex" % k)
            open(p, "wb").write(b)
            lines.append(p)
        rc, outl, err = K.run_lines(binp, ["idxrt"], lines, timeout=900)
    finally:
        shutil.rmtree(d, ignore_errors=True)
    if rc != 0 or len(outl) != len(muts):
        raise K.TieBroken("h_symbols idxrt failed (rc=%s, %d/%d): %s" % (rc, len(outl), len(muts), err[-300:]))
    terms = []
    for (_, b), l in zip(muts, outl):
        l = l.strip()
        if l.startswith("OK "):
            h = l[3:]
            obs = "(Some %s)" % K.coq_list([str(int(h[i:i + 2], 16)) for i in range(0, len(h), 2)])
        else:
            obs = "None"
        terms.append("(%s, %s, %s)" % (K.coq_list([str(x) for x in b]), obs, "true" if "CouldntParseModuleInfoLine" in l else "false"))
    _stats["idx_mutations"] = _stats.get("idx_mutations", 0) + len(muts)
    _stats["idx_accepted"] = _stats.get("idx_accepted", 0) + sum(1 for l in outl if l.startswith("OK "))
    shards = [K.case_defs("(bytes * option bytes * bool)", ch, fn="verdict_idx") for ch in K.chunked(terms, K.NCPU)]
    try:
        res = K.coq_eval(PROP, "From SV Require Import Lib.Bytes Model.BreakpadIndex Model.BreakpadIndexParse Tie.C10.\nOpen Scope N_scope.", shards, timeout=1800)
    except RuntimeError as ex:
        raise K.TieBroken(str(ex))
    return [v for r in res for v in r]


_stats = {}


def known(case):
    return None


def describe(case):
    if case.get("big"):
        d = {"large_file": case["big"], "how": "vlib/c10.py::_big_text(large_file) writes the .sym text", "lookup_addresses": case["items"][:20]}
        if "_out" in case:
            d["error"] = case["_out"]
        return d
    d = {"sym_text": case["text"][:600], "bytes": len(case["text"]), "lookup_addresses": case["items"][:20]}
    if "_out" in case:
        d["error"] = case["_out"]
    return d


def distribution(cases):
    d = {"wellformed_intended": 0, "crlf": 0, "no_final_newline": 0, "size_hist": {}, "lookups": 0}
    d.update(_stats)
    for c in cases:
        if c.get("big"):
            continue
        d["wellformed_intended"] += 1 if c.get("wf_intended") else 0
        d["crlf"] += 1 if "\r\n" in c["text"] else 0
        d["no_final_newline"] += 0 if c["text"].endswith("\n") else 1
        b = "<1k" if len(c["text"]) < 1000 else "<4k" if len(c["text"]) < 4000 else ">=4k"
        d["size_hist"][b] = d["size_hist"].get(b, 0) + 1
        d["lookups"] += len(c["items"])
    return d


def run(out, tier, seed, replay):
    K.standard_flow(out, sys.modules[__name__], tier, seed, replay)
