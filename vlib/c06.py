# C06 — symbols and binaries are only served from files of the requested build.  Model: coq/Model/Candidates.v;
# tie: harness/h_symbols cand / fat / companion modes (SymbolManager::load_symbol_map, load_binary, load_symbol_map_from_location with an
# in-memory helper whose candidate lists are the case).
import json, os, shutil, struct, subprocess, sys
from . import common as K

PROP = "C06"
RULE = ("cases: (a) sym / bin — a requested debug id (bin: debug id, code id, or both) and 0..7 candidates in arbitrary order drawn from every non-emptied fixture (ELF, ELF debug files, Mach-O thin and fat, "
        "dSYM DWARF, PE, PDB, object files, archives, scripts), copies of ELF fixtures whose build-id note has one byte flipped at each of the 20 positions (same debug id / different code id for bytes 16..19), "
        "truncated copies, generated fat archives, images inside generated dyld shared caches (the requested build, another build under the same install path, the path missing) and generated standalone Mach-O files, generated ELF shared objects with build ids of 8, 16 (md5 / explicit), 20, 24 and 32 bytes, missing / empty / garbage files; requests for ids of present files, of absent files, of flipped copies, and for the id of a present file with another age (lower or higher); "
        "(b) fat — generated fat archives of 1..4 thin Mach-O fixtures (duplicates allowed) and the fixture fat archives, loaded with the id of a member, a foreign id or no disambiguator, the member "
        "ids computed independently from LC_UUID in Python; (c) companion — .gnu_debuglink targets (regular-debuglink, dwp-debuglink) and the dwz supplementary file of ls-linux under byte flips everywhere "
        "and specifically in each build-id byte, truncation, appended bytes, zeroed ranges, and replacement by other debug files. Observed: ids of what load_symbol_map / load_binary return, and whether lookups "
        "return frames / names that can only come from the companion. non-trivial = the first candidate is not the one selected, nothing matches although parsable decoys exist, a fat archive with >= 2 members or a "
        "single non-matching member, or a companion whose id does not match")
TRUSTED = ["harness h_symbols/src/cand.rs: in-memory FileAndPathHelper; own crc32 (bitwise) as oracle for the debuglink CRC; `object`'s build_id() as oracle for the supplementary file's id",
           "vlib/c06.py computes Mach-O member ids (LC_UUID) and ELF debug ids from build-id bytes independently of samply",
           "the standalone outcome of a candidate (does it parse, which id does it carry) is taken from samply itself (load_symbol_map_from_location / load_binary_at_location); for ELF candidates with a GNU build-id note it is also "
           "compared with what the note stands for (first 16 bytes, little-endian field swap, age 0; code id = the note in hex), read by vlib/c06.py; id extraction of the other formats is C19's concern"]
ASSUMPTIONS = ["dyld shared cache candidates (CandidatePathInfo::InDyldCache) are exercised with generated single-file arm64 caches of 1..3 minimal images (no subcaches); real caches do not exist among the fixtures",
               "a companion whose id matches but whose damaged contents give no frames is recorded (verdict 4), not judged"]

FX = os.path.join(K.REPO, "fixtures")
ZERO = "00000000000000000000000000000000A"
THIN_MACHO = ["macos-ci/libmozglue.dylib", "macos-ci/libsoftokn3.dylib", "macos-local/libmozglue.dylib", "macos-local/firefox", "other/simple-example/out/mac-dsym/main",
              "other/simple-example/out/mac-oso/main", "other/simple-example/out/mac-dsym/main.dSYM/Contents/Resources/DWARF/main"]
ELF_FLIP = ["other/example-linux", "other/example-linux-fallback", "other/ls-linux/ls", "other/simple-example/out/regular-debuglink/main", "android32-local/libsoftokn3.so", "linux64-ci/firefox"]
FALLBACK_POOL = {"other/example-linux": ("BE4E976C325246EE9D6B7847A670B2A90", "6c974ebe5232ee469d6b7847a670b2a956f8aede"),
                 "other/ls-linux/ls": ("3E0A2663466E57DBABF718F6A3562C6E0", "63260a3e6e46db57abf718f6a3562c6eedccf269")}
_state = {}


def prove():
    return K.prove(PROP, extra_targets=["Tie/C06.vo"])


def _bin():
    ok, log, bindir = K.cargo_build("h_symbols")
    if not ok:
        raise K.TieBroken("harness h_symbols does not build against the current tree:\n" + log[-1500:])
    return os.path.join(bindir, "h_symbols")


def _fixture_files():
    out = []
    for root, _, files in os.walk(FX):
        if "/requests" in root or "/snapshots" in root:
            continue
        for f in files:
            p = os.path.join(root, f)
            if os.path.getsize(p) > 0:
                out.append(os.path.relpath(p, FX))
    return sorted(out)


def _pool():
    """rel path -> (sym id | None, bin debug id | None, bin code id | None), obtained from samply itself with a foreign disambiguator"""
    if "pool" in _state:
        return _state["pool"]
    files = _fixture_files()
    binp = _bin()
    lines = ["sym %s %s" % (ZERO, os.path.join(FX, f)) for f in files] + ["bin code:00 %s" % os.path.join(FX, f) for f in files]
    rc, outl, err = K.run_lines(binp, ["cand"], lines, timeout=900)
    if rc != 0 or len(outl) != len(lines):
        raise K.TieBroken("h_symbols cand (pool probe) failed rc=%s: %s" % (rc, err[-400:]))
    pool = {}
    n = len(files)
    for i, f in enumerate(files):
        s = outl[i].split(" | ")[0].strip()
        b = outl[n + i].split(" | ")[0].strip()
        sid = s[3:] if s.startswith("ok:") else None
        bd = bc = None
        if b.startswith("ok:"):
            bd, bc = b[3:].split(":")
            bd = None if bd == "-" else bd
            bc = None if bc == "-" else bc
        pool[f] = (sid, bd, bc)
    _state["pool"] = pool
    return pool


# ---------- independent id computations ----------
def elf_build_id_offset(data):
    """file offset of the build-id bytes of the first NT_GNU_BUILD_ID note (name 'GNU\\0', type 3), or None"""
    i = 0
    while True:
        i = data.find(b"GNU\0", i)
        if i < 0:
            return None
        if i >= 12:
            namesz, descsz, ty = struct.unpack_from("<III", data, i - 12)
            if namesz == 4 and ty == 3 and 8 <= descsz <= 64:
                return i + 4, descsz
        i += 1


def debug_id_from_build_id(b):
    b = (b + bytes(16))[:16]
    return "%08X%04X%04X%s0" % (struct.unpack("<I", b[0:4])[0], struct.unpack("<H", b[4:6])[0], struct.unpack("<H", b[6:8])[0], b[8:16].hex().upper())


_GENELF_KINDS = ["md5", "sha1", "0x1122334455667788", "0x00112233445566778899aabbccddeeff", "0x" + "a1b2c3d4" * 6, "0x" + "0f" * 32]


def noid_text(k, v):
    """the .text bytes of the generated ELF files WITHOUT a build id (kind "none-<v>"): 0x1400 + 64 k bytes; builds of one k differ in a single byte
    at offset 0x1000 + 16 v + 1 for odd v - beyond the first 4096 bytes, so such builds carry the same id - and at offset 0xff8 + v for even v - within
    the first 4096 bytes but, the section starting 0x10 or 0x20 into a page, beyond the end of the section's first page"""
    n = 0x1400 + 64 * (k % 8)
    import hashlib
    b = bytearray(b"".join(hashlib.sha256(b"noid %d %d" % (k, j)).digest() for j in range(n // 32 + 1))[:n])
    if v:
        b[(0x1000 + 16 * v + 1) if v % 2 else (0xff8 + v)] ^= 0x5A
    return bytes(b)


def text_hash_id(text):
    """the debug id of an object without build id, UUID or PDB info: the first min(size, 4096) bytes of .text XOR-folded into 16 bytes, read like a build id"""
    h = bytearray(16)
    for i, byte in enumerate(text[:4096]):
        h[i % 16] ^= byte
    return debug_id_from_build_id(bytes(h))


def build_genelf(path, k, kind):
    """a tiny shared object linked with `ld --build-id=<kind>`: build ids of 16 bytes (md5, explicit), 20 (sha1), 8, 24 and 32 bytes; kind "none-<v>":
    no build id at all, a .text of more than 4096 bytes (noid_text) that starts a few bytes into a page (an .init section precedes it)"""
    src = path + ".s"
    obj = path + ".o"
    if kind.startswith("none-"):
        t = noid_text(k, int(kind[5:]))
        open(src, "w").write(".section .init,\"ax\",@progbits\n  .fill %d, 1, 0x90\n.text\n.globl noid_fn_%d\n.type noid_fn_%d, @function\nnoid_fn_%d:\n" % (16 * (1 + k % 2), k, k, k)
                             + "".join("  .byte %s\n" % ",".join(str(x) for x in t[i:i + 32]) for i in range(0, len(t), 32)) + ".size noid_fn_%d, .-noid_fn_%d\n" % (k, k))
        try:
            if subprocess.run(["gcc", "-c", src, "-o", obj], capture_output=True).returncode != 0:
                return False
            return subprocess.run(["ld", "-shared", obj, "-o", path, "--build-id=none"], capture_output=True).returncode == 0
        finally:
            for f in (src, obj):
                try:
                    os.remove(f)
                except OSError:
                    pass
    open(src, "w").write(".text\n.globl genelf_fn_%d\n.type genelf_fn_%d, @function\ngenelf_fn_%d:\n  .fill %d, 1, 0x90\n  ret\n.size genelf_fn_%d, .-genelf_fn_%d\n" % (k, k, k, 8 + k % 40, k, k))
    try:
        if subprocess.run(["gcc", "-c", src, "-o", obj], capture_output=True).returncode != 0:
            return False
        return subprocess.run(["ld", "-shared", obj, "-o", path, "--build-id=" + kind], capture_output=True).returncode == 0
    finally:
        for f in (src, obj):
            try:
                os.remove(f)
            except OSError:
                pass


def elf_note_ids(path):
    """(debug id, code id) that the GNU build-id note of a little-endian ELF file stands for - the Breakpad convention: the first 16 bytes (zero padded),
    the first three fields read as little-endian integers, age 0; the code id is the note in hex - or None when the file is not such a file"""
    try:
        data = open(path, "rb").read()
    except OSError:
        return None
    if data[:4] != b"\x7fELF" or len(data) < 6 or data[5] != 1:
        return None
    loc = elf_build_id_offset(data)
    if loc is None:
        # no build id: the id is made from the first 4096 bytes of .text (ELF64 section table read here), and there is no code id
        try:
            if data[4] != 2:
                return None
            shoff, = struct.unpack_from("<Q", data, 0x28)
            shentsize, shnum, shstrndx = struct.unpack_from("<HHH", data, 0x3A)
            stroff, = struct.unpack_from("<Q", data, shoff + shstrndx * shentsize + 0x18)
            for i in range(shnum):
                o = shoff + i * shentsize
                name, shtype = struct.unpack_from("<II", data, o)
                off, size = struct.unpack_from("<QQ", data, o + 0x18)
                if data[stroff + name:stroff + name + 6] == b".text\0" and shtype == 1:
                    return text_hash_id(data[off:off + min(size, 4096)]), None
        except (struct.error, IndexError):
            pass
        return None
    b = data[loc[0]:loc[0] + loc[1]]
    if len(b) != loc[1]:
        return None
    return debug_id_from_build_id(b), b.hex()


def macho_uuid_id(data):
    """breakpad id from LC_UUID of a thin Mach-O image, or None"""
    if len(data) < 32:
        return None
    magic = struct.unpack_from("<I", data, 0)[0]
    if magic == 0xFEEDFACF:
        hdr = 32
    elif magic == 0xFEEDFACE:
        hdr = 28
    else:
        return None
    ncmds = struct.unpack_from("<I", data, 16)[0]
    off = hdr
    for _ in range(ncmds):
        if off + 8 > len(data):
            return None
        cmd, size = struct.unpack_from("<II", data, off)
        if cmd == 0x1B:
            return data[off + 8:off + 24].hex().upper() + "0"
        off += size
    return None


def fat_members(data):
    if len(data) < 8 or struct.unpack_from(">I", data, 0)[0] != 0xCAFEBABE:
        return None
    n = struct.unpack_from(">I", data, 4)[0]
    out = []
    for i in range(n):
        _, _, off, size, _ = struct.unpack_from(">IIIII", data, 8 + 20 * i)
        out.append(macho_uuid_id(data[off:off + size]))
    return out


def build_fat(members):
    """members: list of bytes of thin little-endian Mach-O images"""
    hdr = struct.pack(">II", 0xCAFEBABE, len(members))
    off = 4096
    entries = b""
    body = b""
    for m in members:
        cput, cpus = struct.unpack_from("<II", m, 4)
        entries += struct.pack(">IIIII", cput, cpus, off, len(m), 12)
        pad = (-len(m)) % 4096
        body += m + bytes(pad)
        off += len(m) + pad
    head = hdr + entries
    return head + bytes(4096 - len(head)) + body


# ---------- synthetic Mach-O images and dyld shared caches ----------
DYLD_UUIDS = ["0f1e2d3c4b5a69788796a5b4c3d2e1f0", "aaaaaaaabbbbccccddddeeeeeeeeeeee", "11111111222233334444555555555555", "00112233445566778899aabbccddeeff"]
DYLD_PATHS = ["/usr/lib/libA.dylib", "/usr/lib/system/libB.dylib", "/System/Library/Frameworks/X.framework/X"]
_IMG = 0x2000


def _name16(sx):
    return sx.encode() + b"\0" * (16 - len(sx))


def _macho_image(buf, fo, vmaddr, uuid_hex, sym):
    """a minimal arm64 MH_DYLIB at buf[fo:fo+0x2000]: __TEXT (header, __text at +0x800), __LINKEDIT (one nlist_64 + string table), LC_UUID, LC_SYMTAB"""
    cmds = b""
    cmds += struct.pack("<II16sQQQQIIII", 0x19, 72 + 80, _name16("__TEXT"), vmaddr, 0x1000, fo, 0x1000, 5, 5, 1, 0)
    cmds += struct.pack("<16s16sQQIIIIIIII", _name16("__text"), _name16("__TEXT"), vmaddr + 0x800, 0x40, fo + 0x800, 2, 0, 0, 0x80000400, 0, 0, 0)
    cmds += struct.pack("<II16sQQQQIIII", 0x19, 72, _name16("__LINKEDIT"), vmaddr + 0x1000, 0x1000, fo + 0x1000, 0x1000, 1, 1, 0, 0)
    cmds += struct.pack("<II", 0x1b, 24) + bytes.fromhex(uuid_hex)
    strtab = b"\0" + sym.encode() + b"\0"
    cmds += struct.pack("<IIIIII", 0x2, 24, fo + 0x1000, 1, fo + 0x1010, len(strtab))
    hdr = struct.pack("<IIIIIIII", 0xfeedfacf, 0x0100000c, 0, 6, 4, len(cmds), 0, 0)
    buf[fo:fo + len(hdr) + len(cmds)] = hdr + cmds
    for i in range(0, 0x40, 4):
        buf[fo + 0x800 + i:fo + 0x804 + i] = struct.pack("<I", 0xd65f03c0)
    buf[fo + 0x1000:fo + 0x1010] = struct.pack("<IBBHQ", 1, 0x0f, 1, 0, vmaddr + 0x800)
    buf[fo + 0x1010:fo + 0x1010 + len(strtab)] = strtab


def build_macho(uuid_hex, sym="_standalone"):
    buf = bytearray(_IMG)
    _macho_image(buf, 0, 0, uuid_hex, sym)
    return bytes(buf)


def build_dyld_cache(images):
    """a single-file dyld shared cache (current header layout, no subcaches) holding [(install path, uuid hex)] images, all mapped by one mapping"""
    hs = 0x1c8
    mo = hs
    io = mo + 32
    po = io + 32 * len(images)
    plen = sum(len(pth) + 1 for pth, _ in images)
    first = (po + plen + 0xfff) & ~0xfff
    flen = first + _IMG * len(images)
    base = 0x180000000
    buf = bytearray(flen)
    buf[0:16] = b"dyld_v1   arm64\0"
    struct.pack_into("<II", buf, 0x10, mo, 1)
    buf[0x58:0x68] = bytes.fromhex("c0c1c2c3c4c5c6c7c8c9cacbcccdcecf")
    struct.pack_into("<II", buf, 0x1c0, io, len(images))
    struct.pack_into("<QQQII", buf, mo, base, flen, 0, 5, 5)
    pc = po
    for i, (pth, uu) in enumerate(images):
        fo = first + i * _IMG
        struct.pack_into("<Q", buf, io + 32 * i, base + fo)
        struct.pack_into("<I", buf, io + 32 * i + 24, pc)
        buf[pc:pc + len(pth)] = pth.encode()
        pc += len(pth) + 1
        _macho_image(buf, fo, base + fo, uu, "_img%d_%s" % (i, uu[:4]))
    return bytes(buf)


def _dyld_spec(desc):
    """'dyld:<path~uuid,...>:<dylib path>' -> ([(path, uuid)], dylib path)"""
    _, spec, dylib = desc.split(":", 2)
    return [tuple(x.split("~")) for x in spec.split(",") if x], dylib


def _dyld_standalone(desc, kind):
    images, dylib = _dyld_spec(desc)
    for pth, uu in images:
        if pth == dylib:
            return ("ok:%s0" % uu.upper()) if kind == "sym" else ("ok:%s0:%s" % (uu.upper(), uu.upper()))
    return "err"


# ---------- materialising candidates ----------
class Scratch:
    def __init__(self):
        self.dir = os.path.join(K.SCRATCH, "c06_%d" % os.getpid())
        shutil.rmtree(self.dir, ignore_errors=True)
        os.makedirs(self.dir)
        self.made = {}

    def path(self, desc):
        """descriptor -> harness token"""
        if desc.startswith("@"):
            return desc
        if desc.startswith("fx:"):
            return os.path.join(FX, desc[3:])
        if desc in self.made:
            return self.made[desc]
        p = os.path.join(self.dir, "d%d" % len(self.made))
        kind, _, rest = desc.partition(":")
        if kind == "dyld":
            images, dylib = _dyld_spec(desc)
            cache = self.path("dyldcache:" + desc.split(":", 2)[1])
            return "dyld=%s=%s" % (cache, dylib)
        if kind == "dyldcache":
            open(p, "wb").write(build_dyld_cache([tuple(x.split("~")) for x in rest.split(",") if x]))
            self.made[desc] = p
            return p
        if kind == "macho":
            open(p, "wb").write(build_macho(rest))
            self.made[desc] = p
            return p
        if kind == "genelf":
            k, bk = rest.split(":", 1)
            if not build_genelf(p, int(k), bk):
                open(p, "wb").write(b"")
            self.made[desc] = p
            return p
        if kind == "flip":
            rel, k, mask = rest.rsplit(":", 2)
            data = bytearray(open(os.path.join(FX, rel), "rb").read())
            loc = elf_build_id_offset(bytes(data))
            if loc is not None and int(k) < loc[1]:
                data[loc[0] + int(k)] ^= int(mask)
            open(p, "wb").write(data)
        elif kind == "trunc":
            rel, n = rest.rsplit(":", 1)
            open(p, "wb").write(open(os.path.join(FX, rel), "rb").read()[:int(n)])
        elif kind == "fat":
            open(p, "wb").write(build_fat([open(os.path.join(FX, r), "rb").read() for r in rest.split(",")]))
        else:
            raise ValueError(desc)
        self.made[desc] = p
        return p

    def close(self):
        shutil.rmtree(self.dir, ignore_errors=True)


def flipped_ids(rel, k, mask):
    data = open(os.path.join(FX, rel), "rb").read()
    loc = elf_build_id_offset(data)
    if loc is None:
        return None
    b = bytearray(data[loc[0]:loc[0] + loc[1]])
    if k < len(b):
        b[k] ^= mask
    return debug_id_from_build_id(bytes(b)), bytes(b).hex()


# ---------- generation ----------
def gen(tier, rng, scale):
    quick = tier == "quick"
    try:
        pool = _pool()
    except K.TieBroken:
        pool = {k: (v[0], v[0], v[1]) for k, v in FALLBACK_POOL.items()}
    files = sorted(pool)
    with_sym = [f for f in files if pool[f][0]]
    with_bin = [f for f in files if pool[f][1] or pool[f][2]]
    flips = [f for f in ELF_FLIP if f in pool]
    thin = [f for f in THIN_MACHO if f in pool]
    fatfx = [f for f in ("macos-ci/firefox",) if f in pool or os.path.exists(os.path.join(FX, f))]
    cases = []

    def dyld_cand(path=None, uuid=None, present=True):
        """a candidate inside a generated shared cache of 1..3 images; `path` is held with `uuid` when present"""
        paths = [p_ for _, p_ in sorted((rng.next(), p_) for p_ in DYLD_PATHS)]
        images = [(q_, rng.choice(DYLD_UUIDS)) for q_ in paths[:rng.range(1, 3)]]
        want = path or rng.choice(DYLD_PATHS)
        images = [(a, b) for a, b in images if a != want]
        if present:
            images.insert(rng.below(len(images) + 1), (want, uuid or rng.choice(DYLD_UUIDS)))
        if not images:
            images = [(rng.choice([q_ for q_ in DYLD_PATHS if q_ != want]), rng.choice(DYLD_UUIDS))]
        return "dyld:%s:%s" % (",".join("%s~%s" % im for im in images), want)

    def some_cands(target, n):
        cs = []
        for _ in range(n):
            r = rng.below(100)
            if r >= 94:
                cs.append(dyld_cand(present=rng.chance(3, 4)) if rng.chance(2, 3) else "macho:" + rng.choice(DYLD_UUIDS))
                continue
            if r >= 90:
                cs.append("genelf:%d:%s" % (rng.below(6), rng.choice(_GENELF_KINDS + ["none-0", "none-1", "none-2", "none-4"])))
                continue
            if r < 30:
                cs.append("fx:" + rng.choice(files))
            elif r < 45 and target:
                cs.append("fx:" + target)
            elif r < 60 and flips:
                cs.append("flip:%s:%d:%d" % (rng.choice(flips + ([target] if target in flips else [])), rng.below(20), 1 << rng.below(8)))
            elif r < 68:
                cs.append(rng.choice(["@missing", "@garbage", "@empty"]))
            elif r < 75:
                f = rng.choice(files)
                cs.append("trunc:%s:%d" % (f, rng.choice([1, 4, 16, 52, 64, 200, 1000, 4096])))
            elif r < 82 and thin:
                cs.append("fat:" + ",".join(rng.choice(thin) for _ in range(rng.range(1, 3))))
            elif r < 88 and fatfx:
                cs.append("fx:" + rng.choice(fatfx))
            else:
                cs.append("fx:" + rng.choice(with_sym))
        return cs

    for ci in range((300 if quick else 6000) * scale):
        r = rng.below(100)
        if r < 40:
            # symbol map by debug id
            target = rng.choice(with_sym)
            req = pool[target][0]
            tdesc = "fx:" + target
            q = rng.below(10)
            if q == 0:
                req = ZERO[:-1] + "0"
                target = None
            elif q == 1 and target in flips:
                k, mask = rng.below(20), 1 << rng.below(8)
                ids = flipped_ids(target, k, mask)
                if ids:
                    req = ids[0]
                    tdesc = "flip:%s:%d:%d" % (target, k, mask)
            elif q == 2 and thin:
                # request the id of a member of a generated fat archive
                target = rng.choice(thin)
                req = pool[target][0]
                ms = [rng.choice(thin) for _ in range(rng.range(0, 2))]
                ms.insert(rng.below(len(ms) + 1), target)
                tdesc = "fat:" + ",".join(ms)
            elif q == 3:
                # same build, different age: lower and higher than the file's (a candidate with a HIGHER age than requested is not the requested build either)
                req = req[:-1] + rng.choice([a for a in ("0", "1", "2", "9", "a", "1f") if a != req[-1].lower()])
                target = None
            dy_extra = []
            if q == 6:
                # an ELF file linked with an explicit 16-byte build id is the requested build; a decoy carries, as its build id, the 16 bytes of the
                # requested debug id as they are printed (i.e. without the little-endian field swap): it is another build
                bid = "%032x" % rng.below(1 << 128)
                req = debug_id_from_build_id(bytes.fromhex(bid))
                target = None
                tdesc = "genelf:%d:0x%s" % (rng.below(6), bid)
                if rng.chance(2, 3):
                    dy_extra.append("genelf:%d:0x%s" % (rng.below(6), req[:32].lower()))
            if q == 7:
                # an ELF file without any build id: its id is a hash of the first 4096 bytes of .text.  Decoys: the same code with one byte changed inside
                # those 4096 bytes (another id: another build) - the changed byte lying beyond the end of the section's first page
                k_, v_ = rng.below(6), rng.choice([0, 2, 4, 6])
                req = text_hash_id(noid_text(k_, v_))
                target = None
                tdesc = "genelf:%d:none-%d" % (k_, v_)
                for w_ in [w for w in (0, 2, 4, 6) if w != v_][:rng.range(1, 3)]:
                    dy_extra.append("genelf:%d:none-%d" % (k_, w_))
            if q in (4, 5):
                # images of a dyld shared cache (CandidatePathInfo::InDyldCache): the requested build is the image the cache holds under that install path
                # (q = 4) or a file on disk while the cache holds ANOTHER build under the same path (q = 5, a recording made before a system update)
                uu = rng.choice(DYLD_UUIDS)
                pth = rng.choice(DYLD_PATHS)
                req = uu.upper() + "0"
                target = None
                tdesc = dyld_cand(pth, uu) if q == 4 else "macho:" + uu
                if q == 5 or rng.chance(1, 2):
                    dy_extra.append(dyld_cand(pth, rng.choice([u_ for u_ in DYLD_UUIDS if u_ != uu])))
                if rng.chance(1, 3):
                    dy_extra.append(dyld_cand(pth, present=False))
            n = rng.choice([0, 1, 2, 3, 3, 4, 5, 7])
            cs = some_cands(target, n)
            for d_ in dy_extra:
                cs.insert(rng.below(len(cs) + 1), d_)
            if rng.chance(1, 4):
                cs = [c for c in cs if c != "fx:%s" % target]      # (most likely) no matching candidate at all: must fail
            else:
                for _ in range(rng.choice([1, 1, 1, 2])):
                    cs.insert(rng.below(len(cs) + 1), tdesc)
            cases.append({"kind": "sym", "req": req, "items": cs})
        elif r < 70:
            target = rng.choice(with_bin)
            _, bd, bc = pool[target]
            form = rng.choice(["debug", "code", "both", "both-mixed"])
            other = pool[rng.choice(with_bin)]
            if form == "debug" and bd:
                req = bd
            elif form == "code" and bc:
                req = "code:" + bc
            elif form == "both" and bd and bc:
                req = bd + "+code:" + bc
            elif form == "both-mixed" and bd and other[2]:
                req = bd + "+code:" + other[2]       # debug id takes precedence; the code id of another build must be ignored
            elif bd:
                req = bd
            else:
                req = "code:" + bc
            tdesc = "fx:" + target
            if rng.chance(1, 6) and target in flips:
                k, mask = rng.below(20), 1 << rng.below(8)
                ids = flipped_ids(target, k, mask)
                if ids:
                    req = rng.choice([ids[0], "code:" + ids[1]])
                    tdesc = "flip:%s:%d:%d" % (target, k, mask)
            if rng.chance(1, 10):
                req = rng.choice([ZERO[:-1] + "0", "code:00112233445566778899aabbccddeeff00112233", "code:5EBA814695000"])
            elif rng.chance(1, 8) and bd:
                req = bd[:-1] + rng.choice([a for a in ("0", "1", "2", "a") if a != bd[-1].lower()])       # the same GUID with another age, lower or higher
                target = None
            dy_extra = []
            if rng.chance(1, 7):
                # binaries inside a dyld shared cache, by debug id or by code id (the LC_UUID in both cases)
                uu = rng.choice(DYLD_UUIDS)
                pth = rng.choice(DYLD_PATHS)
                req = rng.choice([uu.upper() + "0", "code:" + uu.upper(), uu.upper() + "0+code:" + rng.choice(DYLD_UUIDS).upper()])
                target = None
                tdesc = dyld_cand(pth, uu) if rng.chance(1, 2) else "macho:" + uu
                if rng.chance(2, 3):
                    dy_extra.append(dyld_cand(pth, rng.choice([u_ for u_ in DYLD_UUIDS if u_ != uu])))
            n = rng.choice([0, 1, 2, 3, 3, 4, 5, 7])
            cs = some_cands(target, n)
            for d_ in dy_extra:
                cs.insert(rng.below(len(cs) + 1), d_)
            if rng.chance(1, 4):
                cs = [c for c in cs if c != "fx:%s" % target]
            else:
                for _ in range(rng.choice([1, 1, 1, 2])):
                    cs.insert(rng.below(len(cs) + 1), tdesc)
            cases.append({"kind": "bin", "req": req, "items": cs})
        elif r < 85 and thin:
            members = [rng.choice(thin) for _ in range(rng.choice([1, 1, 2, 2, 3, 4]))]
            q = rng.below(10)
            if q < 5:
                req = pool[rng.choice(members)][0]
            elif q < 8:
                req = pool[rng.choice(thin + with_sym)][0]
            else:
                req = "-"
            cases.append({"kind": "fat", "req": req, "items": members})
        else:
            sub = rng.choice(["debuglink", "debuglink-dwp", "sup", "sup"])
            q = rng.below(100)
            if q < 8:
                op = ["none"]
            elif q < 45:
                op = ["noteflip", rng.below(20), 1 << rng.below(8)]
            elif q < 70:
                op = ["xor", rng.below(1 << 20), rng.range(1, 255)]
            elif q < 78:
                op = ["trunc", rng.choice([0, 1, 16, 64, 100, 1000, 5000])]
            elif q < 84:
                op = ["append", rng.range(1, 9)]
            elif q < 92:
                op = ["zero", rng.below(1 << 16), rng.range(1, 64)]
            elif sub.startswith("debuglink") and q < 95:
                # companions above 1 MiB: the .gnu_debuglink CRC is computed chunk by chunk
                op = ["padmatch", rng.choice([1, 2]), rng.choice([1, 4096, 70000])] if rng.chance(1, 2) else ["prefixmatch", rng.choice([1, 2]), rng.choice([1, 4096, 70000]), rng.below(1 << 16)]
            else:
                op = ["swap", rng.choice(["other/ls-linux/260a3e6e46db57abf718f6a3562c6eedccf269.debug", "other/simple-example/out/regular-debuglink/main.dbg",
                                          "other/simple-example/out/dwp-debuglink/main.dbg", "other/ls-linux/coreutils.debug", "other/example-linux"])]
            cases.append({"kind": "comp", "sub": sub, "items": [op]})
    return cases


def with_items(case, items):
    c = {k: v for k, v in case.items() if not k.startswith("_")}
    c["items"] = items
    return c


COMP = {"debuglink": ("other/simple-example/out/regular-debuglink/main", "-", "other/simple-example/out/regular-debuglink/main.dbg"),
        "debuglink-dwp": ("other/simple-example/out/dwp-debuglink/main", "-", "other/simple-example/out/dwp-debuglink/main.dbg"),
        "sup": ("other/ls-linux/ls", "other/ls-linux/260a3e6e46db57abf718f6a3562c6eedccf269.debug", "other/ls-linux/coreutils.debug")}


def _crc_table():
    t = []
    for n in range(256):
        c = n
        for _ in range(8):
            c = (c >> 1) ^ 0xEDB88320 if c & 1 else c >> 1
        t.append(c)
    return t


_CRCT = _crc_table()


def _forge4(prefix, want):
    """four bytes X with crc32(prefix + X) == want (the CRC-32 of zlib / .gnu_debuglink)"""
    import zlib
    reg = zlib.crc32(prefix) ^ 0xFFFFFFFF               # register after the prefix
    target = want ^ 0xFFFFFFFF                          # register wanted after four more bytes
    # walk the table backwards: the top byte of each register identifies the table entry used
    idx = []
    t = target
    for _ in range(4):
        k = next(i for i in range(256) if _CRCT[i] >> 24 == t >> 24)
        idx.append(k)
        t = ((t ^ _CRCT[k]) << 8) & 0xFFFFFFFF
    idx.reverse()
    out = bytearray()
    for k in idx:
        out.append((reg ^ k) & 0xFF)
        reg = (reg >> 8) ^ _CRCT[k]
    assert zlib.crc32(prefix + bytes(out)) == want
    return bytes(out)


def _debuglink_crc(main_path):
    """the CRC stored in the .gnu_debuglink section of an ELF file (last four bytes of the section)"""
    import struct
    d = open(main_path, "rb").read()
    shoff, = struct.unpack_from("<Q", d, 0x28)
    shentsize, shnum, shstrndx = struct.unpack_from("<HHH", d, 0x3A)
    so = shoff + shstrndx * shentsize
    stroff, = struct.unpack_from("<Q", d, so + 0x18)
    for i in range(shnum):
        o = shoff + i * shentsize
        nm, = struct.unpack_from("<I", d, o)
        off, size = struct.unpack_from("<QQ", d, o + 0x18)
        name = d[stroff + nm:d.index(b"\0", stroff + nm)]
        if name == b".gnu_debuglink":
            return struct.unpack_from("<I", d, off + size - 4)[0]
    return None


MIB = 1 << 20


def _corrupt(data, op, main_path=None):
    data = bytearray(data)
    if op[0] == "none":
        pass
    elif op[0] == "padmatch":
        # the genuine debug file, padded beyond one or two MiB (the CRC is computed in 1 MiB chunks) and closed with four bytes that make the CRC
        # of the WHOLE file the expected one: it has to be accepted
        want = _debuglink_crc(main_path)
        body = bytes(data) + bytes(op[1] * MIB + op[2] - len(data) - 4)
        data = bytearray(body + _forge4(body, want))
    elif op[0] == "prefixmatch":
        # another build's debug file (one byte of the genuine one changed), padded to a whole number of MiB whose CRC is the expected one, and
        # more bytes after that: the CRC of the whole file is another one, it has to be refused
        want = _debuglink_crc(main_path)
        data[op[3] % len(data)] ^= 0x40
        body = bytes(data) + bytes(op[1] * MIB - len(data) - 4)
        data = bytearray(body + _forge4(body, want) + bytes([0xA5]) * op[2])
    elif op[0] == "xor":
        if data:
            data[op[1] % len(data)] ^= op[2]
    elif op[0] == "noteflip":
        loc = elf_build_id_offset(bytes(data))
        if loc and op[1] < loc[1]:
            data[loc[0] + op[1]] ^= op[2]
        elif data:
            data[(op[1] * 7919) % len(data)] ^= op[2]
    elif op[0] == "trunc":
        data = data[:op[1]]
    elif op[0] == "append":
        data += bytes([0x5A] * op[1])
    elif op[0] == "zero":
        s = op[1] % max(1, len(data))
        data[s:s + op[2]] = bytes(len(data[s:s + op[2]]))
    elif op[0] == "swap":
        data = bytearray(open(os.path.join(FX, op[1]), "rb").read())
    return bytes(data)


def evaluate(cases):
    if not cases:
        return []
    binp = _bin()
    sc = Scratch()
    stats = _state.setdefault("stats", {"kinds": {}, "selected": 0, "failed": 0, "companion_accepted": 0, "companion_rejected": 0, "cand_count_hist": {}})
    try:
        lines = {"cand": [], "fat": [], "companion": []}
        idx = {"cand": [], "fat": [], "companion": []}
        meta = {}
        notes = {}
        for i, c in enumerate(cases):
            k = c["kind"]
            stats["kinds"][k] = stats["kinds"].get(k, 0) + 1
            if k in ("sym", "bin"):
                toks = [sc.path(d) for d in c["items"]]
                meta[i] = toks
                # what the GNU build-id note of every ELF candidate says, read independently of samply (fixtures are read once)
                nc = _state.setdefault("note_ids", {})
                notes[i] = []
                for t in toks:
                    if t.startswith(("@", "dyld=")):
                        notes[i].append(None)
                    elif t.startswith(FX):
                        if t not in nc:
                            nc[t] = elf_note_ids(t)
                        notes[i].append(nc[t])
                    else:
                        notes[i].append(elf_note_ids(t))
                lines["cand"].append("%s %s %s" % (k, c["req"], " ".join(toks)))
                idx["cand"].append(i)
                h = str(len(toks))
                stats["cand_count_hist"][h] = stats["cand_count_hist"].get(h, 0) + 1
            elif k == "fat":
                if not c["items"]:
                    meta[i] = None
                    continue
                p = sc.path("fat:" + ",".join(c["items"]))
                meta[i] = fat_members(open(p, "rb").read())
                lines["fat"].append("%s %s" % (c["req"], p))
                idx["fat"].append(i)
            else:
                main, first, comp = COMP[c["sub"]]
                op = c["items"][0] if c["items"] else ["none"]
                data = _corrupt(open(os.path.join(FX, comp), "rb").read(), op, os.path.join(FX, main))
                p = os.path.join(sc.dir, "comp%d" % i)
                open(p, "wb").write(data)
                pristine = data == open(os.path.join(FX, comp), "rb").read()
                meta[i] = pristine
                kind = "sup" if c["sub"] == "sup" else "debuglink"
                probes = " 55028 55030" if kind == "sup" else ""
                lines["companion"].append("%s %s %s %s 0 0%s" % (kind, os.path.join(FX, main), os.path.join(FX, first) if first != "-" else "-", p, probes))
                idx["companion"].append(i)
        outs = {}
        for mode in lines:
            if not lines[mode]:
                continue
            rc, outl, err = K.run_lines(binp, [mode], lines[mode], timeout=1800)
            if rc != 0 or len(outl) != len(lines[mode]):
                raise K.TieBroken("h_symbols %s failed (rc=%s, %d/%d): %s" % (mode, rc, len(outl), len(lines[mode]), err[-400:]))
            for i, l in zip(idx[mode], outl):
                outs[i] = l.strip()
    finally:
        sc.close()
    terms = []
    pre = {}
    for i, c in enumerate(cases):
        k = c["kind"]
        I = {}

        def intern(s):
            if s not in I:
                I[s] = len(I) + 1
            return I[s]

        def opt(s):
            return "None" if s in (None, "-") else "(Some %d)" % intern(s.upper())

        if k in ("sym", "bin"):
            left, _, sel = outs[i].rpartition("|")
            st = left.split()
            sel = sel.strip()
            toks = meta[i]
            if len(st) == len(c["items"]):
                # images inside a generated shared cache: which build the cache holds under the path is known from the generator
                st = [_dyld_standalone(d_, k) if s_ == "dyld" else s_ for s_, d_ in zip(st, c["items"])]
            if len(st) != len(toks):
                pre[i] = 1
                continue
            c["_out"] = outs[i][:600]
            # "carries that ID": the id samply reads from an ELF candidate is the one its build-id note stands for
            wrong = None
            for s_, nid, t_ in zip(st, notes.get(i, []), toks):
                if nid and s_.startswith("ok:"):
                    if k == "sym":
                        if s_[3:].upper() != nid[0]:
                            wrong = (t_, s_, nid)
                    else:
                        d_, cid_ = s_[3:].split(":")
                        if (d_ != "-" and d_.upper() != nid[0]) or (cid_ != "-" and (nid[1] is None or cid_.lower() != nid[1])):
                            wrong = (t_, s_, nid)
            if wrong:
                stats["note_id_mismatch"] = stats.get("note_id_mismatch", 0) + 1
                c["_out"] = "samply reads %s from %s whose GNU build-id note stands for debug id %s / code id %s" % (wrong[1], os.path.basename(wrong[0]), wrong[2][0], wrong[2][1])
                pre[i] = 12
                continue
            stats["elf_ids_checked_against_note"] = stats.get("elf_ids_checked_against_note", 0) + sum(1 for s_, nid in zip(st, notes.get(i, [])) if nid and s_.startswith("ok:"))
            if k == "sym":
                cs = K.coq_list(["CErr" if s == "err" else "(COk %d)" % intern(s[3:]) for s in st])
                if sel.startswith("sel:"):
                    _, sid, loc = sel.split(":", 2)
                    locs = [("%s%d" % (t[1:], j)) if t.startswith("@") else t[5:].split("=")[0] if t.startswith("dyld=") else t for j, t in enumerate(toks)]
                    pos = next((j for j, l_ in enumerate(locs) if l_ == loc and st[j] == "ok:" + sid), None)
                    if pos is None:
                        pos = locs.index(loc) if loc in locs else None
                    if pos is None:
                        # the symbol map names a different file as its debug file (e.g. a PDB found next to a DLL): take the first candidate with that id
                        pos = next((j for j, s in enumerate(st) if s == "ok:" + sid), 9999)
                    o = "(Some (%d, %d%%nat))" % (intern(sid), pos)
                    stats["selected"] += 1
                else:
                    o = "None"
                    stats["failed"] += 1
                terms.append((i, "(CSym %d %s %s)" % (intern(c["req"]), cs, o)))
            else:
                req = c["req"]
                if req.startswith("code:"):
                    rq = "(ByCodeId %d)" % intern(req[5:].upper())
                else:
                    rq = "(ByDebugId %d)" % intern(req.split("+code:")[0].upper())
                cl = []
                for s in st:
                    if s == "err":
                        cl.append("BErr")
                    else:
                        d, cid = s[3:].split(":")
                        cl.append("(BOk %s %s)" % (opt(d), opt(cid)))
                if sel.startswith("sel:"):
                    d, cid = sel[4:].split(":")
                    o = "(Some (%s, %s))" % (opt(d), opt(cid))
                    stats["selected"] += 1
                else:
                    o = "None"
                    stats["failed"] += 1
                terms.append((i, "(CBin %s %s %s)" % (rq, K.coq_list(cl), o)))
        elif k == "fat":
            if meta[i] is None:
                pre[i] = 3
                continue
            sym, binr = outs[i].split()
            c["_out"] = outs[i]
            members = K.coq_list([opt(m) for m in meta[i]])
            d = "None" if c["req"] == "-" else "(Some %d)" % intern(c["req"].upper())
            so = "None" if sym == "sym:err" else "(Some %d)" % intern(sym[7:])
            bo = "None" if binr == "bin:err" else "(Some %d)" % intern(binr[7:])
            terms.append((i, "(CFat %s %s %s)" % (d, members, so)))
            terms.append((i, "(CFat %s %s %s)" % (d, members, bo)))
        else:
            o = outs[i]
            c["_out"] = o
            if o.startswith("LOADERR"):
                pre[i] = 3
                continue
            f = dict(x.split("=", 1) for x in o.split())
            if c["sub"] == "sup":
                accepted = int(f["named"]) > 0 or any(x not in ("", "-") for x in f.get("probes", "").split(","))
            else:
                accepted = int(f["frames"]) > 0
            stats["companion_accepted" if accepted else "companion_rejected"] += 1
            terms.append((i, "(CComp %s %s %s)" % ("true" if accepted else "false", "true" if f["idmatch"] == "1" else "false", "true" if meta[i] else "false")))
    shards = [K.case_defs("c06case", [t for _, t in ch]) for ch in K.chunked(terms, K.NCPU)]
    try:
        res = K.coq_eval(PROP, "From SV Require Import Model.Candidates Tie.C06.\nOpen Scope N_scope.", shards)
    except RuntimeError as ex:
        raise K.TieBroken(str(ex))
    flat = [v for r in res for v in r]
    if len(flat) != len(terms):
        raise K.TieBroken("verdict count mismatch %d vs %d" % (len(flat), len(terms)))
    verdicts = [pre.get(i) for i in range(len(cases))]
    rank = {2: 5, 1: 4, 0: 1, 4: 2, 3: 0}
    for (i, _), v in zip(terms, flat):
        cur = verdicts[i]
        if cur is None or rank[v % 10] > rank[cur % 10]:
            verdicts[i] = v if cur is None else (v % 10 + 10 * max(v // 10, cur // 10))
        elif v // 10 > cur // 10:
            verdicts[i] = cur % 10 + 10 * (v // 10)
    return [3 if v is None else v for v in verdicts]


def known(case):
    return None


def describe(case):
    d = {k: v for k, v in case.items() if not k.startswith("_")}
    if "_out" in case:
        d["observed"] = case["_out"]
    return d


def distribution(cases):
    return _state.get("stats", {})


def run(out, tier, seed, replay):
    K.standard_flow(out, sys.modules[__name__], tier, seed, replay)
