# C12 — CPU-time / off-CPU accounting.  Model: coq/Model/ContextSwitch.v; spec: coq/Spec/ContextSwitchSpec.v;
# tie: harness/h_incl (samply/src/shared/context_switch.rs compiled in by #[path]).
import os, sys
from . import common as K

PROP = "C12"
RULE = ("cases = (interval I, event history over switch-in / switch-out / on-CPU sample / consume_cpu_delta with absolute timestamps); "
        "streams: sampled bounded-exhaustive (length <= 7, time steps {0,1,2,5}, I in {1,2,3,10}), random histories up to 400 events with large times "
        "and intervals, a separate tagged outside-hypothesis stream (decreasing timestamps, I = 0) that is only recorded. "
        "Observed per event: returned OffCpuSampleGroup / delta, final accumulators (from the Debug rendering), panics (debug build). "
        "non-trivial = the model emitted at least one off-CPU group AND the history hit an unexpected branch (switch-out while off, or switch-in while on)")
TRUSTED = ["the Debug rendering of ThreadContextSwitchData is used to read the two private accumulators (harness/h_incl/src/cs.rs)"]
ASSUMPTIONS = ["timestamps nondecreasing and I > 0 (as the property states); the converter's construction of the handler with interval 0 for crafted attrs is outside the property",
               "per_cpu.rs reuses the same handler; not exercised separately here"]


def prove():
    return K.prove(PROP, extra_targets=["Tie/C12.vo"])


def gen(tier, rng, scale):
    quick = tier == "quick"
    cases = []
    kinds = ["i", "o", "s", "c"]
    for _ in range((3000 if quick else 40000) * scale):
        n = rng.range(1, 7)
        t = 0
        items = []
        for _ in range(n):
            k = rng.choice(kinds)
            if k == "c":
                items.append(["c"])
            else:
                t += rng.choice([0, 1, 2, 5])
                items.append([k, t])
        cases.append({"I": rng.choice([1, 2, 3, 10]), "items": items})
    for _ in range((400 if quick else 6000) * scale):
        n = rng.range(8, 120 if quick else 400)
        big = rng.chance(1, 4)
        t = rng.choice([0, 0, 10**9, 2**62]) if big else 0
        I = rng.choice([1, 7, 10, 1000, 10**6, 2**40]) if big else rng.choice([1, 2, 3, 5, 10, 25])
        items = []
        for _ in range(n):
            r = rng.below(100)
            if r < 20:
                items.append(["c"])
            else:
                k = "i" if r < 45 else ("o" if r < 72 else "s")
                step = rng.choice([0, 0, 1, 2, 3, 7, I, I + 1, 3 * I, rng.below(50 * I + 1)])
                if rng.chance(1, 12):
                    # one sleep (or run) worth 2^31 .. 2^32 sampling intervals and more: counts at the limits of 32-bit integers
                    step = rng.choice([2**31 - 1, 2**31, 2**31 + 5, 2**32 - 1, 2**32, 2**32 + 1, 2**33 + 7]) * I + rng.below(I)
                t = min(2**64 - 1, t + step)
                items.append([k, t])
        cases.append({"I": I, "items": items})
    # outside-hypothesis stream (recorded only)
    for _ in range(40 * scale):
        n = rng.range(2, 10)
        items = [[rng.choice(["i", "o", "s"]), rng.below(50)] for _ in range(n)]
        cases.append({"I": rng.choice([0, 1, 10]), "items": items, "tag": "outside"})
    return cases


def with_items(case, items):
    c = dict(case)
    c["items"] = items
    return c


def _line(c):
    return str(c["I"]) + " " + " ".join(it[0] + (str(it[1]) if len(it) > 1 else "") for it in c["items"])


def _coq_ev(it):
    return {"i": "SwIn %d", "o": "SwOut %d", "s": "Sample %d"}[it[0]] % it[1] if it[0] != "c" else "Consume"


def _coq_out(tok):
    if tok == "-":
        return "ONothing"
    if tok.startswith("g:"):
        _, b, e, c = tok.split(":")
        return "OGroup %s %s %s" % (b, e, c)
    if tok.startswith("d:"):
        return "ODelta %s" % tok[2:]
    raise ValueError(tok)


def evaluate(cases):
    if not cases:
        return []
    ok, log, bindir = K.cargo_build("h_incl")
    if not ok:
        raise K.TieBroken("harness h_incl does not build against the current tree:\n" + log[-1500:])
    rc, outl, err = K.run_lines(os.path.join(bindir, "h_incl"), ["cs"], [_line(c) for c in cases])
    if rc != 0 or len(outl) != len(cases):
        raise K.TieBroken("h_incl cs failed (rc=%s, %d/%d lines): %s" % (rc, len(outl), len(cases), err[-500:]))
    terms = []
    for c, l in zip(cases, outl):
        toks = l.split()
        panicked = "P" in toks
        fin_on = fin_off = 0
        outs = []
        if "|" in toks:
            i = toks.index("|")
            outs = toks[:i]
            fin_on, fin_off = int(toks[i + 1]), int(toks[i + 2])
        else:
            outs = [t for t in toks if t != "P"]
        terms.append("(%d, %s, %s, %d, %d, %s)" % (c["I"], K.coq_list([_coq_ev(it) for it in c["items"]]),
                                                   K.coq_list([_coq_out(t) for t in outs]), fin_on, fin_off,
                                                   "true" if panicked else "false"))
    shards = ["Definition cases : list (N * list ev * list out * N * N * bool) := %s.\nEval vm_compute in (map verdict cases).\n"
              % K.coq_list(ch) for ch in K.chunked(terms, K.NCPU)]
    try:
        res = K.coq_eval(PROP, "From SV Require Import Model.ContextSwitch Spec.ContextSwitchSpec Tie.C12.\nOpen Scope N_scope.", shards)
    except RuntimeError as ex:
        raise K.TieBroken(str(ex))
    flat = [v for r in res for v in r]
    if len(flat) != len(cases):
        raise K.TieBroken("verdict count mismatch %d vs %d" % (len(flat), len(cases)))
    return flat


def known(case):
    return None


def describe(case):
    return {"I": case["I"], "events": _line(case)[:300]}


def distribution(cases):
    d = {"kinds": {}, "len_hist": {}, "intervals": {}}
    for c in cases:
        b = min(len(c["items"]) // 10 * 10, 400)
        d["len_hist"][str(b)] = d["len_hist"].get(str(b), 0) + 1
        d["intervals"][str(c["I"])] = d["intervals"].get(str(c["I"]), 0) + 1
        for it in c["items"]:
            d["kinds"][it[0]] = d["kinds"].get(it[0], 0) + 1
    return d


def run(out, tier, seed, replay):
    K.standard_flow(out, sys.modules[__name__], tier, seed, replay)
