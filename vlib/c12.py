# C12 — CPU-time / off-CPU accounting.  Model: coq/Model/ContextSwitch.v; spec: coq/Spec/ContextSwitchSpec.v;
# tie: harness/h_incl (samply/src/shared/context_switch.rs compiled in by #[path]).
import json, os, shutil, subprocess, sys
from concurrent.futures import ThreadPoolExecutor
from . import common as K
from . import perfdata as P

PROP = "C12"
RULE = ("cases = (interval I, event history over switch-in / switch-out / on-CPU sample / consume_cpu_delta with absolute timestamps); "
        "streams: sampled bounded-exhaustive (length <= 7, time steps {0,1,2,5}, I in {1,2,3,10}), random histories up to 400 events with large times "
        "and intervals, a separate tagged outside-hypothesis stream (decreasing timestamps, I = 0) that is only recorded. "
        "Observed per event: returned OffCpuSampleGroup / delta, final accumulators (from the Debug rendering), panics (debug build). "
        "a further stream goes end to end through `samply import`: recordings with PERF_RECORD_SWITCH records (in / out / out with the preempted flag) and samples of one thread, observed: the CPU delta serialized with each sample. "
        "non-trivial = the model emitted at least one off-CPU group AND the history hit an unexpected branch (switch-out while off, or switch-in while on); end to end: a switch-out precedes a sample")
TRUSTED = ["the Debug rendering of ThreadContextSwitchData is used to read the two private accumulators (harness/h_incl/src/cs.rs)"]
ASSUMPTIONS = ["timestamps nondecreasing and I > 0 (as the property states); the converter's construction of the handler with interval 0 for crafted attrs is outside the property",
               "per_cpu.rs reuses the same handler; not exercised separately here",
               "the end-to-end stream observes CPU deltas only: off-CPU samples are emitted by the converter only when a sched:sched_switch event supplies their stack, which the generated recordings do not have"]


def prove():
    return K.prove(PROP, extra_targets=["Tie/C12.vo"])


def gen(tier, rng, scale):
    quick = tier == "quick"
    cases = []
    kinds = ["i", "o", "s", "c"]
    for _ in range((3000 if quick else 40000) * scale):
        n = rng.range(1, 7)
        t = 0
        items = []
        for _ in range(n):
            k = rng.choice(kinds)
            if k == "c":
                items.append(["c"])
            else:
                t += rng.choice([0, 1, 2, 5])
                items.append([k, t])
        cases.append({"I": rng.choice([1, 2, 3, 10]), "items": items})
    for _ in range((400 if quick else 6000) * scale):
        n = rng.range(8, 120 if quick else 400)
        big = rng.chance(1, 4)
        t = rng.choice([0, 0, 10**9, 2**62]) if big else 0
        I = rng.choice([1, 7, 10, 1000, 10**6, 2**40]) if big else rng.choice([1, 2, 3, 5, 10, 25])
        items = []
        for _ in range(n):
            r = rng.below(100)
            if r < 20:
                items.append(["c"])
            else:
                k = "i" if r < 45 else ("o" if r < 72 else "s")
                step = rng.choice([0, 0, 1, 2, 3, 7, I, I + 1, 3 * I, rng.below(50 * I + 1)])
                if rng.chance(1, 12):
                    # one sleep (or run) worth 2^31 .. 2^32 sampling intervals and more: counts at the limits of 32-bit integers
                    step = rng.choice([2**31 - 1, 2**31, 2**31 + 5, 2**32 - 1, 2**32, 2**32 + 1, 2**33 + 7]) * I + rng.below(I)
                t = min(2**64 - 1, t + step)
                items.append([k, t])
        cases.append({"I": I, "items": items})
    # outside-hypothesis stream (recorded only)
    for _ in range(40 * scale):
        n = rng.range(2, 10)
        items = [[rng.choice(["i", "o", "s"]), rng.below(50)] for _ in range(n)]
        cases.append({"I": rng.choice([0, 1, 10]), "items": items, "tag": "outside"})
    # end to end through the converter: a recording with context-switch records (attr.context_switch) of one thread - switch-in, switch-out (plain, or
    # with the kernel's "was preempted" flag: the thread left the CPU all the same) and main-event samples, strictly increasing times in whole
    # microseconds; what is observed is the CPU delta serialized with each sample
    erng = rng.fork("e2e")
    for _ in range((60 if quick else 1200) * scale):
        t = E2E_ORIGIN + 1000 * erng.range(1, 50)
        items = []
        for _ in range(erng.range(3, 40)):
            t += 1000 * erng.choice([1, 2, 5, 10, 700, 1000, 3000, 250000])
            items.append([erng.choice(["i", "i", "o", "p", "s", "s", "s"]), t])
        cases.append({"I": 1000000, "items": items, "kind": "e2e"})
    # the converter's other off-CPU mode: no context-switch records, but a sched:sched_switch tracepoint event recorded next to the main event; a
    # sched_switch sample ("o") is the thread's switch-out, the next main-event sample ("s") ends the sleep.  Every sample of the thread's table is
    # observed: time, CPU delta, weight (the off-CPU samples reach the profile in this mode)
    srng = rng.fork("e2e-sched")
    for _ in range((50 if quick else 1000) * scale):
        t = E2E_ORIGIN + 1000 * srng.range(1, 50)
        items = []
        for _ in range(srng.range(3, 40)):
            t += 1000 * srng.choice([1, 2, 5, 10, 700, 1000, 1000, 3000, 250000])
            items.append([srng.choice(["o", "o", "s", "s", "s"]), t])
        cases.append({"I": 1000000, "items": items, "kind": "e2e", "mode": "sched"})
    return cases


def with_items(case, items):
    c = dict(case)
    c["items"] = items
    return c


def _line(c):
    return str(c["I"]) + " " + " ".join(it[0] + (str(it[1]) if len(it) > 1 else "") for it in c["items"])


def _coq_ev(it):
    return {"i": "SwIn %d", "o": "SwOut %d", "s": "Sample %d"}[it[0]] % it[1] if it[0] != "c" else "Consume"


def _coq_out(tok):
    if tok == "-":
        return "ONothing"
    if tok.startswith("g:"):
        _, b, e, c = tok.split(":")
        return "OGroup %s %s %s" % (b, e, c)
    if tok.startswith("d:"):
        return "ODelta %s" % tok[2:]
    raise ValueError(tok)


E2E_ORIGIN = 10 ** 9
_plock = __import__("threading").Lock()


def _e2e_one(samply, case, d):
    """-> the CPU deltas (ns) of the samples of thread 100 in time order, or None when the import failed"""
    with _plock:          # the writer's layout is module state
        P.set_layout(True, True)
        recs = [P.comm(100, 100, "cs", E2E_ORIGIN + 1, True)]
        last = E2E_ORIGIN
        for k, t in case["items"]:
            last = t
            if k == "s":
                recs.append(P.sample(100, 100, t, 0x401160, None))
            else:
                recs.append(P.switch(100, 100, t, 0, k != "i", preempt=(k == "p")))
        recs.append(P.finished_round())
        data = P.build(recs, first_time=E2E_ORIGIN, last_time=last, context_switch=True)
    pd = os.path.join(d, "rec.perf.data")
    open(pd, "wb").write(data)
    outp = os.path.join(d, "out.json")
    r = subprocess.run([samply, "import", pd, "--save-only", "-o", outp], capture_output=True, text=True, timeout=300)
    if r.returncode != 0 or not os.path.exists(outp):
        return None
    prof = json.load(open(outp))
    th = [x for x in prof["threads"] if str(x["tid"]).split(".")[0] == "100"]
    if len(th) != 1:
        return None
    sm = th[0]["samples"]
    deltas = sm.get("threadCPUDelta") or [0] * sm["length"]
    unit = (prof["meta"].get("sampleUnits") or {}).get("threadCPUDelta", "µs")
    mul = {"ns": 1, "µs": 1000, "us": 1000}.get(unit)
    if mul is None or len(deltas) != sum(1 for k, _ in case["items"] if k == "s"):
        return None
    return [int(round((x or 0) * mul)) for x in deltas]


def _e2e_sched_one(samply, case, d):
    """-> every sample of thread 100 as (time ns, CPU delta ns, weight), sorted, or None when the import failed"""
    with _plock:
        P.set_layout(True, True)
        P.set_task_event(0)
        P.set_second_event("sched_switch")
        try:
            recs = [P.comm(100, 100, "cs", E2E_ORIGIN + 1, True)]
            last = E2E_ORIGIN
            for k, t in case["items"]:
                last = t
                recs.append(P.sample(100, 100, t, 0x401160, None, second=(k != "s")))
            recs.append(P.finished_round())
            data = P.build(recs, first_time=E2E_ORIGIN, last_time=last)
        finally:
            P.set_layout(True, True)
    pd = os.path.join(d, "rec.perf.data")
    open(pd, "wb").write(data)
    outp = os.path.join(d, "out.json")
    r = subprocess.run([samply, "import", pd, "--save-only", "-o", outp], capture_output=True, text=True, timeout=300)
    if r.returncode != 0 or not os.path.exists(outp):
        return None
    prof = json.load(open(outp))
    th = [x for x in prof["threads"] if str(x["tid"]).split(".")[0] == "100"]
    if len(th) != 1:
        return None
    sm = th[0]["samples"]
    n = sm["length"]
    deltas = sm.get("threadCPUDelta") or [0] * n
    weights = sm.get("weight") or [1] * n
    unit = (prof["meta"].get("sampleUnits") or {}).get("threadCPUDelta", "\u00b5s")
    mul = {"ns": 1, "\u00b5s": 1000, "us": 1000}.get(unit)
    if mul is None:
        return None
    if "time" in sm:
        times = sm["time"]
    else:
        times, acc = [], 0.0
        for x in sm["timeDeltas"]:
            acc += x
            times.append(acc)
    out = []
    for tm, dl, w in zip(times, deltas, weights):
        if w is None or w < 0:
            return None
        out.append((E2E_ORIGIN + int(round(tm * 1e6)), int(round((dl or 0) * mul)), int(w)))
    return sorted(out)


def _evaluate_e2e_sched(cases):
    ok, log, samply = K.cargo_build_samply()
    if not ok:
        raise K.TieBroken("samply does not build:\n" + log[-1500:])
    base = os.path.join(K.SCRATCH, "c12s_%d" % os.getpid())
    shutil.rmtree(base, ignore_errors=True)
    os.makedirs(base)

    def one(i):
        d = os.path.join(base, "h%d" % i)
        os.makedirs(d)
        try:
            return _e2e_sched_one(samply, cases[i], d)
        finally:
            shutil.rmtree(d, ignore_errors=True)
    try:
        with ThreadPoolExecutor(max_workers=K.NCPU) as ex:
            results = list(ex.map(one, range(len(cases))))
    finally:
        shutil.rmtree(base, ignore_errors=True)
    terms = []
    for c, obs in zip(cases, results):
        items = c["items"]
        lastsample = max([j for j, it in enumerate(items) if it[0] == "s"] + [-1])
        evs = [("Sample %d" if it[0] == "s" else "SwOut %d") % it[1] for it in items[:lastsample + 1]]
        c["_obs"] = obs
        terms.append("(%d, %s, %s, %s)" % (c["I"], K.coq_list(evs), K.coq_list(["(%d, %d, %d)" % x for x in (obs or [])]), "true" if obs is None else "false"))
    shards = ["Definition cases : list (N * list ev * list obs3 * bool) := %s.\nEval vm_compute in (map verdict_e2e_sched cases).\n" % K.coq_list(ch) for ch in K.chunked(terms, K.NCPU)]
    try:
        res = K.coq_eval(PROP, "From SV Require Import Model.ContextSwitch Spec.ContextSwitchSpec Tie.C12.\nOpen Scope N_scope.", shards)
    except RuntimeError as ex:
        raise K.TieBroken(str(ex))
    return [v for r in res for v in r]


def _evaluate_e2e(cases):
    ok, log, samply = K.cargo_build_samply()
    if not ok:
        raise K.TieBroken("samply does not build:\n" + log[-1500:])
    base = os.path.join(K.SCRATCH, "c12e_%d" % os.getpid())
    shutil.rmtree(base, ignore_errors=True)
    os.makedirs(base)

    def one(i):
        d = os.path.join(base, "h%d" % i)
        os.makedirs(d)
        try:
            return _e2e_one(samply, cases[i], d)
        finally:
            shutil.rmtree(d, ignore_errors=True)
    try:
        with ThreadPoolExecutor(max_workers=K.NCPU) as ex:
            results = list(ex.map(one, range(len(cases))))
    finally:
        shutil.rmtree(base, ignore_errors=True)
    terms = []
    for c, obs in zip(cases, results):
        evs = []
        items = c["items"]
        lastsample = max([j for j, it in enumerate(items) if it[0] == "s"] + [-1])
        for it in items[:lastsample + 1]:
            evs.append({"i": "SwIn %d", "o": "SwOut %d", "p": "SwOut %d", "s": "Sample %d"}[it[0]] % it[1])
            if it[0] == "s":
                evs.append("Consume")
        c["_obs"] = obs
        terms.append("(%d, %s, %s, %s)" % (c["I"], K.coq_list(evs), K.coq_list([str(x) for x in (obs or [])]), "true" if obs is None else "false"))
    shards = ["Definition cases : list (N * list ev * list N * bool) := %s.\nEval vm_compute in (map verdict_e2e cases).\n" % K.coq_list(ch) for ch in K.chunked(terms, K.NCPU)]
    try:
        res = K.coq_eval(PROP, "From SV Require Import Model.ContextSwitch Spec.ContextSwitchSpec Tie.C12.\nOpen Scope N_scope.", shards)
    except RuntimeError as ex:
        raise K.TieBroken(str(ex))
    return [v for r in res for v in r]


def evaluate(cases):
    if not cases:
        return []
    sched = [i for i, c in enumerate(cases) if c.get("kind") == "e2e" and c.get("mode") == "sched"]
    if sched:
        sv = _evaluate_e2e_sched([cases[i] for i in sched])
        rest = [i for i in range(len(cases)) if i not in set(sched)]
        rv = evaluate([cases[i] for i in rest])
        out = [None] * len(cases)
        for i, v in zip(sched, sv):
            out[i] = v
        for i, v in zip(rest, rv):
            out[i] = v
        return out
    e2e = [i for i, c in enumerate(cases) if c.get("kind") == "e2e"]
    if e2e:
        ev = _evaluate_e2e([cases[i] for i in e2e])
        rest = [i for i in range(len(cases)) if cases[i].get("kind") != "e2e"]
        rv = evaluate([cases[i] for i in rest])
        out = [None] * len(cases)
        for i, v in zip(e2e, ev):
            out[i] = v
        for i, v in zip(rest, rv):
            out[i] = v
        return out
    ok, log, bindir = K.cargo_build("h_incl")
    if not ok:
        raise K.TieBroken("harness h_incl does not build against the current tree:\n" + log[-1500:])
    rc, outl, err = K.run_lines(os.path.join(bindir, "h_incl"), ["cs"], [_line(c) for c in cases])
    if rc != 0 or len(outl) != len(cases):
        raise K.TieBroken("h_incl cs failed (rc=%s, %d/%d lines): %s" % (rc, len(outl), len(cases), err[-500:]))
    terms = []
    for c, l in zip(cases, outl):
        toks = l.split()
        panicked = "P" in toks
        fin_on = fin_off = 0
        outs = []
        if "|" in toks:
            i = toks.index("|")
            outs = toks[:i]
            fin_on, fin_off = int(toks[i + 1]), int(toks[i + 2])
        else:
            outs = [t for t in toks if t != "P"]
        terms.append("(%d, %s, %s, %d, %d, %s)" % (c["I"], K.coq_list([_coq_ev(it) for it in c["items"]]),
                                                   K.coq_list([_coq_out(t) for t in outs]), fin_on, fin_off,
                                                   "true" if panicked else "false"))
    shards = ["Definition cases : list (N * list ev * list out * N * N * bool) := %s.\nEval vm_compute in (map verdict cases).\n"
              % K.coq_list(ch) for ch in K.chunked(terms, K.NCPU)]
    try:
        res = K.coq_eval(PROP, "From SV Require Import Model.ContextSwitch Spec.ContextSwitchSpec Tie.C12.\nOpen Scope N_scope.", shards)
    except RuntimeError as ex:
        raise K.TieBroken(str(ex))
    flat = [v for r in res for v in r]
    if len(flat) != len(cases):
        raise K.TieBroken("verdict count mismatch %d vs %d" % (len(flat), len(cases)))
    return flat


def known(case):
    return None


def describe(case):
    if case.get("kind") == "e2e":
        return {"recording": "one thread; i = switch-in, o = switch-out, p = switch-out with the preempted flag, s = main-event sample; times in ns",
                "events": _line(case)[:600], "cpu deltas of the samples as serialized (ns)": case.get("_obs")}
    return {"I": case["I"], "events": _line(case)[:300]}


def distribution(cases):
    d = {"kinds": {}, "len_hist": {}, "intervals": {}}
    for c in cases:
        b = min(len(c["items"]) // 10 * 10, 400)
        d["len_hist"][str(b)] = d["len_hist"].get(str(b), 0) + 1
        d["intervals"][str(c["I"])] = d["intervals"].get(str(c["I"]), 0) + 1
        for it in c["items"]:
            d["kinds"][it[0]] = d["kinds"].get(it[0], 0) + 1
    return d


def run(out, tier, seed, replay):
    K.standard_flow(out, sys.modules[__name__], tier, seed, replay)
