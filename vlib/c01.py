# C01 — perf.data import conserves samples.  Model: coq/Model/Converter.v; tie: generated perf.data -> `samply import --save-only` -> out.json (vlib/conv_e2e.py).
import sys
from . import common as K
from . import conv_e2e as E

PROP = "C01"
RULE = ("cases = record histories of 8..90 records over up to 6 processes: FORK / EXIT / COMM / EXEC / SAMPLE / MMAP2 in arbitrary interleavings (not restricted to the kernel's grammar), pid and tid reuse after exit, "
        "threads and processes first seen through a sample, a COMM or an mmap, samples of the idle thread 0, exact same-thread same-timestamp repeats, group leaders that exit before their threads; "
        "written as perf.data (time-ordered, or physically shuffled inside FINISHED_ROUND rounds; the main event with and without PERF_SAMPLE_PERIOD / PERF_SAMPLE_CPU), converted by `samply import --save-only` with default options. Observed: per thread entry the pid/tid "
        "strings and the sample times and weights. Decided in Coq: the multiset of (pid, tid, time) of all output samples equals the accepted input samples (specification independent of the model), all "
        "weights 1; conformance: every entry holds exactly the samples the model puts there. Third stream: the same histories with CONTEXT_SWITCH records (in / out, of live, unknown and idle threads; attr.context_switch set): "
        "every accepted input sample appears exactly once with weight 1 on its (pid, tid) (further samples would be allowed there), and the entries are the model's. non-trivial = the history contains an EXIT or EXEC and at least two samples")
TRUSTED = ["vlib/perfdata.py (perf.data writer) and linux-perf-data's parsing and per-round sorting", "vlib/conv_e2e.py::view (reading out.json back)",
           "times are compared in integer nanoseconds after rounding the JSON's millisecond floats"]
ASSUMPTIONS = ["the model covers default options; runs with --reuse-threads and / or --fold-recursive-prefix are decided by the model-free specification only (with --reuse-threads on the multiset of sample times, since samples may be merged into earlier entries)",
               "'no other samples' is only demanded of recordings without context-switch records, as the property says; recordings with CONTEXT_SWITCH records but without sched_switch samples are modelled (they add no samples)", "all record times are >= the SAMPLE_TIME origin (files without the SAMPLE_TIME feature have origin 0)"]
_state = {}


def prove():
    return K.prove(PROP, extra_targets=["Tie/C01.vo"])


def gen(tier, rng, scale):
    cases = []
    for _ in range((160 if tier == "quick" else 3000) * scale):
        recs = E.gen_history(rng, grammar=rng.chance(1, 3))
        c = {"items": recs}
        if rng.chance(1, 3):
            c["shuffle"] = rng.next()
        if rng.chance(1, 3):
            # the main event records no PERF_SAMPLE_PERIOD and / or no PERF_SAMPLE_CPU (e.g. `perf record -c N`): every CPU delta is then 0
            c["layout"] = rng.choice([[True, False], [False, True], [False, False]])
        if rng.chance(1, 6):
            c["origin"] = 0          # no SAMPLE_TIME feature in the file: the profile's time origin is 0 and the times stay absolute
        cases.append(c)
    # the same kind of histories converted with --reuse-threads and / or --fold-recursive-prefix (decided by the specification alone)
    frng = rng.fork("flags")
    for _ in range((60 if tier == "quick" else 1200) * scale):
        recs = E.gen_history(frng, grammar=frng.chance(1, 2))
        cases.append({"items": recs, "flags": frng.choice([["--reuse-threads"], ["--fold-recursive-prefix"], ["--reuse-threads", "--fold-recursive-prefix"]])})
    # recordings that also carry CONTEXT_SWITCH records (attr.context_switch set): every recorded sample still appears exactly once, on its thread
    srng = rng.fork("switches")
    for _ in range((60 if tier == "quick" else 1200) * scale):
        recs = E.gen_history(srng, grammar=srng.chance(1, 2), switches=True)
        c = {"items": recs, "sw": True}
        if srng.chance(1, 3):
            c["shuffle"] = srng.next()
        if srng.chance(1, 3):
            # two events recorded together, both with samples (`perf record -e cycles -e instructions`, the two PMUs of a hybrid CPU, a software event
            # next to the main one): the places of the switch records are taken by samples of the SECOND event - markers, never samples of a thread
            main = srng.choice(["cpu-clock", "cycles", "cycles"])
            c["layout"] = [True, True, True, True, "std", srng.choice([0, 1]), False, main, srng.choice(["instructions", "cycles", "page-faults"])]
            del c["sw"]              # no context-switch records in such a file, hence no off-CPU samples: the profile holds the main event's samples and nothing else
        cases.append(c)
    # sample records of unusual but legal shape: no PERF_SAMPLE_IP and / or no PERF_SAMPLE_CALLCHAIN in the event's sample_type, call chains
    # that are empty or hold context markers only - a sample without a single frame is still a sample of its thread
    crng = rng.fork("chains")
    for _ in range((50 if tier == "quick" else 1000) * scale):
        recs = E.gen_history(crng, grammar=crng.chance(1, 2))
        c = {"items": recs, "layout": [crng.chance(1, 2), crng.chance(1, 2), crng.chance(1, 3), crng.chance(3, 4), crng.choice(["mixed", "mixed", "std"])]}
        TP = ["kmem:rss_stat", "kmem:mm_page_alloc", "exceptions:page_fault_user", "syscalls:sys_enter_mmap", "sched:sched_stat_runtime"]
        if crng.chance(1, 3):
            c["layout"].append(crng.choice([0, 1]))        # two events recorded together; the task records belong to the first or the second
            if crng.chance(1, 3):
                c["layout"] += [False, crng.choice(TP)]    # ... the main event being a tracepoint (among them the ones the converter also turns into markers)
        elif crng.chance(1, 2):
            # `perf record -e cycles -c N`: a hardware event with a fixed period; `perf record -e <tracepoint>`: a sample per event - every sample of the
            # main event is a sample of its thread, whatever else the converter derives from that event
            c["layout"] += [None, False, crng.choice(["cycles"] + TP)]
        if crng.chance(1, 3):
            c["shuffle"] = crng.next()
        if crng.chance(1, 4):
            c["flags"] = crng.choice([["--reuse-threads"], ["--fold-recursive-prefix"]])
        cases.append(c)
    return cases


def with_items(case, items):
    c = {k: v for k, v in case.items() if not k.startswith("_")}
    c["items"] = items
    return c


def evaluate(cases):
    if not cases:
        return []
    plain = [(i, c) for i, c in enumerate(cases) if not c.get("flags") and not c.get("sw")]
    sw = [(i, c) for i, c in enumerate(cases) if c.get("sw")]
    flagged = [(i, c) for i, c in enumerate(cases) if c.get("flags")]
    out = [None] * len(cases)
    st = _state.setdefault("stats", {})
    if plain:
        for (i, _), v in zip(plain, E.evaluate(PROP, "verdict_c01", [c for _, c in plain], st)):
            out[i] = v
    if sw:
        for (i, _), v in zip(sw, E.evaluate(PROP, "verdict_c01_sw", [c for _, c in sw], st.setdefault("with_context_switches", {}))):
            out[i] = v
    if flagged:
        fst = st.setdefault("with_flags", {})
        vs = E.evaluate(PROP, "verdict_c01_flags", [c for _, c in flagged], fst, extra_args_of=lambda c: c["flags"],
                        wrap=lambda c, t: "(%s, %s)" % ("true" if "--reuse-threads" in c["flags"] else "false", t),
                        case_type="(bool * (N * list record * list oentry))")
        for (i, _), v in zip(flagged, vs):
            out[i] = v
    return out


def known(case):
    return None


def describe(case):
    d = {"records": case["items"][:120], "shuffled_in_rounds": "shuffle" in case, "options": case.get("flags", []), "sample_fields_cpu_period": case.get("layout", [True, True]),
         "context_switch_records": bool(case.get("sw"))}
    if "_view" in case:
        d["observed_entries"] = [{k: (v if k != "samples" else v[:20]) for k, v in e.items()} for e in case["_view"][:12]]
    if "_out" in case:
        d["error"] = case["_out"]
    return d


def distribution(cases):
    return _state.get("stats", {})


def run(out, tier, seed, replay):
    K.standard_flow(out, sys.modules[__name__], tier, seed, replay)
