# C01 — perf.data import conserves samples.  Model: coq/Model/Converter.v; tie: generated perf.data -> `samply import --save-only` -> out.json (vlib/conv_e2e.py).
import sys
from . import common as K
from . import conv_e2e as E

PROP = "C01"
RULE = ("cases = record histories of 8..90 records over up to 6 processes: FORK / EXIT / COMM / EXEC / SAMPLE / MMAP2 in arbitrary interleavings (not restricted to the kernel's grammar), pid and tid reuse after exit, "
        "threads and processes first seen through a sample, a COMM or an mmap, samples of the idle thread 0, exact same-thread same-timestamp repeats, group leaders that exit before their threads; "
        "written as perf.data (time-ordered, or physically shuffled inside FINISHED_ROUND rounds), converted by `samply import --save-only` with default options. Observed: per thread entry the pid/tid "
        "strings and the sample times and weights. Decided in Coq: the multiset of (pid, tid, time) of all output samples equals the accepted input samples (specification independent of the model), all "
        "weights 1; conformance: every entry holds exactly the samples the model puts there. non-trivial = the history contains an EXIT or EXEC and at least two samples")
TRUSTED = ["vlib/perfdata.py (perf.data writer) and linux-perf-data's parsing and per-round sorting", "vlib/conv_e2e.py::view (reading out.json back)",
           "times are compared in integer nanoseconds after rounding the JSON's millisecond floats"]
ASSUMPTIONS = ["default options only: --reuse-threads and --fold-recursive-prefix are not modelled (the conservation check on (pid, tid, time) is still run with --reuse-threads in the thorough tier)",
               "recordings without context-switch records (the property's 'no other samples' clause)", "all record times are >= the SAMPLE_TIME origin"]
_state = {}


def prove():
    return K.prove(PROP, extra_targets=["Tie/C01.vo"])


def gen(tier, rng, scale):
    cases = []
    for _ in range((160 if tier == "quick" else 3000) * scale):
        recs = E.gen_history(rng, grammar=rng.chance(1, 3))
        c = {"items": recs}
        if rng.chance(1, 3):
            c["shuffle"] = rng.next()
        cases.append(c)
    return cases


def with_items(case, items):
    c = {k: v for k, v in case.items() if not k.startswith("_")}
    c["items"] = items
    return c


def evaluate(cases):
    if not cases:
        return []
    return E.evaluate(PROP, "verdict_c01", cases, _state.setdefault("stats", {}))


def known(case):
    return None


def describe(case):
    d = {"records": case["items"][:120], "shuffled_in_rounds": "shuffle" in case}
    if "_view" in case:
        d["observed_entries"] = [{k: (v if k != "samples" else v[:20]) for k, v in e.items()} for e in case["_view"][:12]]
    if "_out" in case:
        d["error"] = case["_out"]
    return d


def distribution(cases):
    return _state.get("stats", {})


def run(out, tier, seed, replay):
    K.standard_flow(out, sys.modules[__name__], tier, seed, replay)
