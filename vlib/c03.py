# C03 — every serialized profile is internally consistent.  Model: coq/Model/ProfileTables.v; tie: harness/h_fxprof prof mode
# (random interleavings of the profile-building API -> serde_json -> tables), checker and model evaluated in Coq (Tie/C03.v).
import json, os, sys
from . import common as K

PROP = "C03"
RULE = ("cases = API call sequences over 1..4 processes (pids 100..999, duplicates allowed, equal and unordered start times, thread-less processes) and 0..4 threads each (tids duplicated across and "
        "inside processes, several or no main threads, threads registered before their process's main thread, named and unnamed), 0..3 libraries with mappings, 5..60 further calls: add_sample with "
        "stacks of 0..6 frames built frame by frame from label frames (with and without source location), instruction-pointer and return-address frames inside and outside the mapped libraries, "
        "native-symbol handles (repeated keys, several names) and already symbolicated frames with inline depth 0..2, own name / file / line / column or none, address inside or outside a library, with repeated and shared frames, "
        "prefixes and whole stacks; Text markers (static schema) and markers of 0..3 runtime-registered types with 0..4 fields (unique-string, plain string, number; types registered up front or late, "
        "between markers of other types; all four timings) with and without stacks; counters on processes with and without threads; initial visible / selected threads. Observed: every table of every thread of "
        "the JSON (column lengths, index columns with their target table, stack prefix column), the thread order, tid/pid strings, meta.initialVisibleThreads / initialSelectedThreads, "
        "counters[].mainThreadIndex, the frames obtained by walking each sample's and marker's stack, every marker's name and field values (unique-string fields read back through the thread's string table). "
        "non-trivial = at least two threads and one sample")
TRUSTED = ["harness h_fxprof/src/prof.rs (calls the public API, prints serde_json::to_string)", "vlib/c03.py: which JSON column points into which table (the index-column catalogue below), "
           "the rendering of frames as content ids (label text / library name + relative address), the expected resolution of addresses against the mappings added at process creation (C11 covers mapping semantics)",
           "pids, tids and names are generated with fixed digit widths so that the crate's string comparisons agree with the numeric comparisons of the model"]
ASSUMPTIONS = ["the handle discipline the API documents: handles are used with the thread / process they were created for", "counters and allocation samples only where the format allows them; allocation samples on the first thread of a process (elsewhere: known finding F-C03a)"]
_state = {}


def prove():
    return K.prove(PROP, extra_targets=["Tie/C03.vo"])


_case_no = [0]


def gen(tier, rng, scale):
    cases = []
    for _ in range((200 if tier == "quick" else 4000) * scale):
        ops = []
        nproc = rng.range(1, 4)
        nlib = rng.range(0, 3)
        symtab = {}
        pmaps = {}
        for l in range(nlib):
            # two libraries may share their file name (different directories and debug ids): they stay different libraries
            if l and rng.chance(1, 4):
                # the very same library registered once more (one shared object loaded by two processes; converters call add_lib per mapping):
                # equal LibraryInfo, so the same library - whatever handle comes back must denote it
                ops.append(list(next(o for o in ops if o[0] == "L")) if rng.chance(1, 2) else list([o for o in ops if o[0] == "L"][-1]))
                dup_of = [o for o in ops if o[0] == "L"].index(ops[-1])
                if dup_of in symtab:
                    symtab[l] = symtab[dup_of]
                continue
            ops.append(["L", "lib%d" % (l if not (l and rng.chance(1, 3)) else rng.below(l)), "v%d" % l])
            if rng.chance(1, 2):
                syms = []
                symtab[l] = []
                a = rng.below(0x400)
                for k in range(rng.range(1, 6)):
                    size = rng.choice([0, 16, 64, 0x300, 0x1000])
                    syms.append("%d:%d:sym%d_%d" % (a, size, l, k))
                    symtab[l].append((a, size))
                    a += rng.choice([16, 0x100, 0x800, 0x2000])
                ops.append(["Y", l] + syms)
        procs = []
        threads = []
        pid_pool = [rng.range(100, 999) for _ in range(3)]
        tid_pool = [rng.range(100, 999) for _ in range(5)]
        for p in range(nproc):
            pid = rng.choice(pid_pool)
            ops.append(["P", pid, rng.choice([0, 0, 5, 10, rng.below(50)]), "pn%02d" % rng.below(100)])
            procs.append(pid)
            base = 0x10000 * (p + 1)
            for l in range(nlib):
                if rng.chance(2, 3):
                    # (relative addresses are u32: ranges that straddle 2^31 and that end at 2^32 are as legal as small ones)
                    m = [p, l, base + 0x1000 * (2 * l), base + 0x1000 * (2 * l + 1), rng.choice([0, 0x100, 0x2000, 0x2000, 0x7FFFF800, 0x80000000, 0xFFFFF000])]
                    ops.append(["M"] + m)
                    pmaps.setdefault(p, []).append(m[1:])
        # threads are registered in arbitrary order relative to other processes' threads
        plan = []
        for p in range(nproc):
            for _ in range(rng.choice([0, 1, 1, 2, 3, 4])):
                plan.append(p)
        for i in range(len(plan) - 1, 0, -1):
            j = rng.below(i + 1)
            plan[i], plan[j] = plan[j], plan[i]
        for p in plan:
            ops.append(["T", p, rng.choice(tid_pool), rng.choice([0, 0, 3, 7, rng.below(40)]), 1 if rng.chance(1, 3) else 0])
            threads.append(p)
            if rng.chance(1, 2):
                ops.append(["N", len(threads) - 1, "tn%02d" % rng.below(100)])
        counters = 0
        frames_pool = ["l" + rng.choice(["foo", "bar", "baz", "qux", "0x100", "~"]) for _ in range(3)]      # "~" = the empty string
        for p in range(nproc):
            base = 0x10000 * (p + 1)
            for _ in range(4):
                frames_pool.append(rng.choice("ar") + "%x" % (base + rng.below(0x6000)))
            # addresses aimed at symbols of mapped libraries: start, inside, last byte, one past the end
            for (l, st, en, rel) in pmaps.get(p, []):
                for (a, size) in symtab.get(l, []):
                    for target in (a, a + (size or 8) // 2, a + max(size, 1) - 1, a + max(size, 1)):
                        x = st + (target - rel)
                        if st <= x < en and rng.chance(1, 2):
                            frames_pool.append("a%x" % x)
                            frames_pool.append("r%x" % (x + 1))
        stacks_pool = []
        times = {}
        used_times = set()
        # native symbol handles (per thread) and already symbolicated frames that use them; label frames with source locations
        nsyms = []
        spool = {}
        for th, p in enumerate(threads):
            if not pmaps.get(p) or not rng.chance(2, 3):
                continue
            for _ in range(rng.range(1, 3)):
                (l, st, en, rel) = rng.choice(pmaps[p])
                sa = rel + rng.choice([0, 16, 0x40, 0x100])
                if nsyms and rng.chance(1, 4):
                    sa = nsyms[-1][2]                                  # the same (lib, address) key again, possibly under another name
                ops.append(["H", th, l, sa, rng.choice([0, 32, 0x200]), "ns%d" % rng.below(4)])
                nsyms.append((th, l, sa))
                k = len(nsyms) - 1
                for _ in range(rng.range(1, 4)):
                    inside = st + (sa - rel) + rng.choice([0, 1, 8, 31])
                    x = inside if (st <= inside < en and rng.chance(4, 5)) else rng.choice([0x10, 0x7fff0000 + rng.below(64)])
                    nm = rng.choice(["-", "-", "inl%d" % rng.below(3), "foo"])
                    fl = rng.choice(["-", "-", "f%d.c" % rng.below(3), "foo"])
                    tok = "%s%x|%d|%s|%s|%s|%s|%d" % (rng.choice("yyz"), x, k, nm, fl, rng.choice(["-", str(rng.below(50))]), rng.choice(["-", "-", str(rng.below(9))]), rng.choice([0, 0, 1, 2]))
                    spool.setdefault(th, []).append(tok)
        for _ in range(rng.range(0, 3)):
            frames_pool.append("L%s|%s|%s|%s" % (rng.choice(["foo", "bar", "jsfn"]), rng.choice(["-", "f0.c", "g.js", "foo"]), rng.choice(["-", str(rng.below(50))]), rng.choice(["-", str(rng.below(9))])))

        # categories and subcategories: obtained as handles (Q / U ops, the same value again gives the same handle) or passed by value
        # where a frame is made; two categories may share a name (different colour), subcategory names repeat across categories
        catvals = [("Other", "grey"), ("Other", "blue"), ("JS", "yellow"), ("Layout", "blue"), ("JS", "green")]
        subnames = ["Other", "Parse", "GC", "JIT"]
        nq = [0, 0]                                     # number of Q and U ops so far
        use_cats = rng.chance(2, 3)

        def cat_op():
            if nq[0] and rng.chance(1, 2):
                ops.append(["U", rng.below(nq[0]), rng.choice(subnames)])
                nq[1] += 1
            else:
                cv = rng.choice(catvals)
                ops.append(["Q", cv[0], cv[1]])
                nq[0] += 1
        if use_cats:
            for _ in range(rng.range(0, 4)):
                cat_op()

        use_flags = rng.chance(1, 3)

        def with_sc(tok):
            tok = _with_sc(tok)
            if use_flags and rng.chance(1, 3):
                tok += "!%d" % rng.choice([1, 2, 3])       # FrameFlags: IS_JS, IS_RELEVANT_FOR_JS, both
            return tok

        def _with_sc(tok):
            if not use_cats or not rng.chance(1, 3):
                return tok
            r = rng.below(4)
            if r == 0 and nq[0]:
                return "%s^c%d" % (tok, rng.below(nq[0]))
            if r == 1 and nq[1]:
                return "%s^s%d" % (tok, rng.below(nq[1]))
            cv = rng.choice(catvals)
            if r == 2:
                return "%s^C%s,%s" % (tok, cv[0], cv[1])
            return "%s^S%s,%s,%s" % (tok, cv[0], cv[1], rng.choice(subnames))

        def pick_frames(th, lo, hi):
            out = []
            for _ in range(rng.range(lo, hi)):
                if spool.get(th) and rng.chance(1, 3):
                    out.append(with_sc(rng.choice(spool[th])))
                    if rng.chance(1, 3):
                        out.append(with_sc(rng.choice(spool[th])))                  # inline chains: several frames for one address
                else:
                    out.append(with_sc(rng.choice(frames_pool)))
            return out
        # allocation samples: 0 = none, 1 = on first threads only, 2 = on any thread (the known finding F-C03a when it is not the first thread)
        alloc_mode = rng.choice([0, 0, 1, 1, 1, 1]) if _case_no[0] % 12 != 11 else 2
        _case_no[0] += 1
        gkinds = []
        for g in range(rng.choice([0, 1, 2, 2, 3])):
            kinds = "".join(rng.choice("uuspznn") for _ in range(rng.choice([0, 1, 1, 2, 3, 4])))
            gkinds.append(kinds)
            if rng.chance(1, 2):
                ops.append(["G", "Ty%d" % g, kinds or "-"] + (["c%d" % rng.below(nq[0])] if nq[0] and rng.chance(1, 2) else []))
        pending_g = [g for g in range(len(gkinds)) if not any(o[0] == "G" and o[1] == "Ty%d" % g for o in ops)]
        registered = [g for g in range(len(gkinds)) if g not in pending_g]
        for _ in range(rng.range(5, 60)):
            r = rng.below(100)
            if use_cats and rng.chance(1, 8):
                cat_op()
            if r < 60 and threads:
                th = rng.below(len(threads))
                t = times.get(th, 100) + rng.range(1, 50)
                if rng.chance(1, 5) and times.get(th, 100) > 160:
                    # a late sample: its time lies before samples that were added earlier (the table is then serialized through a sort permutation);
                    # even offsets below, odd-free: sample times of a thread stay distinct
                    t = times[th] - rng.range(1, 60)
                    while (th, t) in used_times:
                        t -= 1
                else:
                    times[th] = t
                used_times.add((th, t))
                own = [x for x in stacks_pool if x[0] == th or not any(f[0] in "yz" for f in x[1])]      # (subcategory suffixes stay valid: handles are never revoked)
                if own and rng.chance(1, 3):
                    fr = list(rng.choice(own)[1])
                    if rng.chance(1, 2) and fr:
                        fr = fr[:rng.range(0, len(fr))] + pick_frames(th, 1, 1)
                else:
                    fr = pick_frames(th, 0, 6)
                stacks_pool.append((th, fr))
                # one sample in five builds its stack with a single handle_for_stack_frames call
                ops.append(["S2" if rng.chance(1, 5) else "S", th, t, rng.choice([1, 1, 2]), ] + fr)
            elif r < 66 and threads:
                th = rng.below(len(threads))
                t = times.get(th, 100) + rng.range(1, 50)
                fr = pick_frames(th, 0, 4) if rng.chance(1, 2) else []
                ops.append(["K", th, t, rng.choice(["mk", "foo", "gc", "~"]), rng.choice(["txt", "foo", "x", "~"])] + fr)
            elif r < 72 and threads and (registered or pending_g):
                if pending_g and (not registered or rng.chance(1, 2)):
                    g = pending_g.pop(0)           # a type registered late, between markers of other types
                    ops.append(["G", "Ty%d" % g, gkinds[g] or "-"] + (["c%d" % rng.below(nq[0])] if nq[0] and rng.chance(1, 2) else []))
                    registered.append(g)
                g = rng.choice(registered)
                # the k-th G op in the line defines runtime type #k
                tyno = [o[1] for o in ops if o[0] == "G"].index("Ty%d" % g)
                th = rng.below(len(threads))
                t = times.get(th, 100) + rng.range(1, 50)
                vals = [str(rng.below(1000)) if k == "n" else rng.choice(["foo", "bar", "txt", "v%d" % rng.below(5), "mk", "~"]) for k in gkinds[g]]
                fr = pick_frames(th, 0, 4) if rng.chance(1, 3) else []
                ops.append(["R", th, rng.choice("IVBE"), t, t + rng.below(20), tyno, rng.choice(["mk", "rm", "foo", "~"]), ",".join(vals) or "-"] + fr)
            elif r < 74 and threads and use_cats:
                th = rng.below(len(threads))
                t = times.get(th, 100) + rng.range(1, 50)
                times[th] = t
                ops.append(["J", th, t, rng.choice(["mk", "lay", "~"]), rng.choice(["txt", "foo", "~"])])       # a static marker type with a category of its own
            elif r < 76 and threads and alloc_mode:
                # an allocation sample; by default on the first thread of its process (where the samples of the whole process are kept)
                firsts = [i for i, p in enumerate(threads) if threads.index(p) == i]
                th = rng.choice(firsts) if alloc_mode == 1 else rng.below(len(threads))
                t = times.get(th, 100) + rng.range(1, 50)
                times[th] = t
                fr = pick_frames(th, 0, 5)
                ops.append(["B", th, t, 4096 * rng.range(1, 100), rng.choice([16, 64, -64, 4096])] + fr)
            elif r < 80:
                p = rng.below(nproc)
                ops.append(["C", p, "ctr%d" % counters])
                counters += 1
            elif r < 86 and counters:
                ops.append(["D", rng.below(counters), 100 + rng.below(1000), rng.below(100), 1])
            elif r < 93 and threads:
                ops.append(["V", rng.below(len(threads))])
            elif threads:
                ops.append(["W", rng.below(len(threads))])
        cases.append({"items": ops})
    return cases


def _valid(ops):
    """drop calls whose handles no longer exist after shrinking"""
    np = nt = nl = nc = 0
    gk = []
    hs = []
    out = []

    nq = [0, 0]

    def sc_ok(f):
        if not isinstance(f, str) or "^" not in f:
            return True
        sc = f.split("^", 1)[1].split("!", 1)[0]
        if sc[0] == "c":
            return int(sc[1:]) < nq[0]
        if sc[0] == "s":
            return int(sc[1:]) < nq[1]
        return True

    def frames_ok(th, fr):
        # a symbolicated frame must use a native symbol handle of its own thread (the API asserts it); category / subcategory handles must exist
        return [f for f in fr if sc_ok(f) and (not (isinstance(f, str) and f[:1] in "yz") or (int(f.split("|")[1]) < len(hs) and hs[int(f.split("|")[1])] == th))]
    for o in ops:
        k = o[0]
        if k == "Q":
            nq[0] += 1
        elif k == "U":
            if o[1] >= nq[0]:
                continue
            nq[1] += 1
        elif k == "H":
            if o[1] >= nt or o[2] >= nl:
                continue
            hs.append(o[1])
        elif k in ("S", "S2"):
            if o[1] >= nt:
                continue
            o = o[:4] + frames_ok(o[1], o[4:])
        elif k == "B":
            if o[1] >= nt:
                continue
            o = o[:5] + frames_ok(o[1], o[5:])
        elif k == "K":
            if o[1] >= nt:
                continue
            o = o[:5] + frames_ok(o[1], o[5:])
        elif k == "G":
            gk.append("" if o[2] == "-" else o[2])
            if len(o) > 3 and int(o[3][1:]) >= nq[0]:
                o = o[:3]
        elif k == "J":
            if o[1] >= nt:
                continue
        elif k == "R":
            if o[1] >= nt or o[5] >= len(gk):
                continue
            vals = [] if o[7] == "-" else o[7].split(",")
            kinds = gk[o[5]]
            if len(vals) != len(kinds) or any(kd == "n" and not v.isdigit() for kd, v in zip(kinds, vals)):
                continue
            o = o[:8] + frames_ok(o[1], o[8:])
        elif k == "P":
            np += 1
        elif k == "L":
            nl += 1
        elif k == "T":
            if o[1] >= np:
                continue
            nt += 1
        elif k == "Y":
            if o[1] >= nl:
                continue
        elif k == "M":
            if o[1] >= np or o[2] >= nl:
                continue
        elif k in ("N", "V", "W", "E"):
            if o[1] >= nt:
                continue
        elif k == "C":
            if o[1] >= np:
                continue
            nc += 1
        elif k == "D":
            if o[1] >= nc:
                continue
        out.append(o)
    return out


def with_items(case, items):
    return {"items": _valid(items)}


# which column of which table is an index into which table (JSON names)
IDX = {"stackTable": [("prefix", "stackTable"), ("frame", "frameTable")],
       "frameTable": [("func", "funcTable"), ("nativeSymbol", "nativeSymbols"), ("category", "@categories")],
       "funcTable": [("name", "@strings"), ("resource", "resourceTable"), ("fileName", "@strings")],
       "resourceTable": [("lib", "@libs"), ("name", "@strings")],
       "nativeSymbols": [("libIndex", "@libs"), ("name", "@strings")],
       "samples": [("stack", "stackTable")],
       "nativeAllocations": [("stack", "stackTable")],
       "markers": [("name", "@strings"), ("category", "@categories")]}
BAD = 999999999
_SANS_F03A = [False]          # True while a case is encoded for verdict_sans_f03a: the range of nativeAllocations.stack is then not part of well-formedness


def _kinds_by_type(ops):
    kb = {"Text": (["name"], "u"), "LayoutText": (["name"], "u")}
    for o in ops:
        if o[0] == "G":
            kinds = "" if o[2] == "-" else o[2]
            kb[o[1]] = (["f%d" % i for i in range(len(kinds))], kinds)
    return kb


def _opt(v):
    return "None" if v is None or (isinstance(v, int) and v < 0) else "(Some %d%%nat)" % v


def _thread_json(th, nlibs, ncats, kb):
    def tlen(name):
        if name == "@strings":
            return len(th["stringArray"])
        if name == "@libs":
            return nlibs
        if name == "@categories":
            return ncats
        return th[name]["length"]
    tables = []
    for name, idxcols in IDX.items():
        if name not in th:
            continue                  # nativeAllocations only exists on threads that hold allocation samples
        tb = th[name]
        cols = [len(v) for k, v in tb.items() if isinstance(v, list)]
        idx = []
        for col, target in idxcols:
            if name == "nativeAllocations" and _SANS_F03A[0]:
                continue
            if col in tb:
                idx.append("(%s, %d%%nat)" % (K.coq_list([_opt(v) if not isinstance(v, bool) else "None" for v in tb[col]]), tlen(target)))
        if name == "markers":
            # marker payloads: string fields and cause stacks
            strs, stacks = [], []
            for dta in tb["data"]:
                if isinstance(dta, dict):
                    keys, kinds = kb.get(dta.get("type"), ([], ""))
                    for key, kd in zip(keys, kinds):
                        if kd == "u" and isinstance(dta.get(key), int) and not isinstance(dta.get(key), bool):
                            strs.append(dta[key])
                    if isinstance(dta.get("cause"), dict) and isinstance(dta["cause"].get("stack"), int):
                        stacks.append(dta["cause"]["stack"])
            idx.append("(%s, %d%%nat)" % (K.coq_list([_opt(v) for v in strs]), tlen("@strings")))
            idx.append("(%s, %d%%nat)" % (K.coq_list([_opt(v) for v in stacks]), tlen("stackTable")))
        tables.append("(mkTbl %d%%nat %s %s)" % (tb["length"], K.coq_list(["%d%%nat" % c for c in cols]), K.coq_list(idx)))
    return "(mkTJ %s %s)" % (K.coq_list(tables), K.coq_list([_opt(v) for v in th["stackTable"]["prefix"]]))


def _id(v):
    s = str(v)
    if "." in s:
        a, b = s.split(".", 1)
        return "(%d, %d)" % (int(a), int(b))
    return "(%d, 0)" % int(s)


def _e(x):
    """the harness's spelling of the empty string"""
    return "" if x == "~" else x


class Intern:
    def __init__(self):
        self.d = {}

    def __call__(self, x):
        if x not in self.d:
            self.d[x] = len(self.d)
        return self.d[x]


def _coq_case(ops, prof):
    I = Intern()
    _S = Intern()         # string contents

    def S(x):
        return _S(_e(x) if isinstance(x, str) else x)
    procs, threads, libs, maps = [], [], [], {}
    lpaths = []          # the identity of a library in the content ids is its path (names may repeat)
    canon = []
    samples, mstacks, visible, selected, counters = [], [], [], [], []
    mops, nschemas, gtypes, text_ty = [], 0, [], None
    mcats, layout_ty = [], [None]
    allocs = []
    kb = _kinds_by_type(ops)
    KIND = {"u": "KUnique", "s": "KStr", "p": "KStr", "z": "KStr", "n": "KNum"}
    symtabs = {}

    def sym_lookup(lib, rel):
        """SymbolTable::lookup: last symbol starting at or before rel; a sized symbol only covers [address, address + size)"""
        tab = symtabs.get(lib)
        if not tab:
            return None
        best = None
        for a, size, name in tab:
            if a <= rel:
                best = (a, size, name)
        if best is None:
            return None
        if best[1] and not rel < min(best[0] + best[1], 2 ** 32 - 1 if best[0] + best[1] > 2 ** 32 - 1 else best[0] + best[1]):
            return None
        return best

    nsh = []            # native symbol handles: (thread, lib, address)
    ns_first = {}       # (thread, lib, address) -> name of the first registration

    def _o(v, fmt="%d"):
        return "None" if v is None else "(Some " + (fmt % v) + ")"

    def resolve(p, f):
        """(x, hit) for an address frame token"""
        a = int(f[1:].split("|")[0], 16)
        x = a if f[0] in "ay" else max(a - 1, 0)
        hit = None
        for (l, s0, e0, rel) in maps.get(p, []):
            # later mappings that overlap evict earlier ones (C11); the generator never overlaps them
            if s0 <= x < e0:
                hit = (l, rel + (x - s0))
        return x, hit

    def parse_sym(f):
        q = f[1:].split("|")
        opt = lambda v: None if v == "-" else v
        return int(q[1]), opt(q[2]), opt(q[3]), (None if q[4] == "-" else int(q[4])), (None if q[5] == "-" else int(q[5])), int(q[6])

    COLORS = ["transparent", "lightblue", "red", "lightred", "orange", "blue", "green", "purple", "yellow", "brown", "magenta", "lightgreen", "grey", "darkgray"]
    cops, qmap, umap, qvals, uvals = [], [], [], [], []      # category requests in call order; Q# / U# -> index of its request; what they named

    def sc_request(sc):
        """index of the category request whose result the frame is given (None = CategoryHandle::OTHER); by-value forms are requests of their own"""
        if sc is None:
            return None
        if sc[0] == "c":
            return qmap[int(sc[1:])]
        if sc[0] == "s":
            return umap[int(sc[1:])]
        q = sc[1:].split(",")
        if sc[0] == "C":
            cops.append("(CCat %d %d)" % (S(q[0]), COLORS.index(q[1])))
        else:
            cops.append("(CSubVal %d %d %d)" % (S(q[0]), COLORS.index(q[1]), S(q[2])))
        return len(cops) - 1

    def sc_named(sc):
        """(category name, colour, subcategory name) the caller named"""
        if sc is None:
            return ("Other", "grey", "Other")
        if sc[0] == "c":
            return qvals[int(sc[1:])] + ("Other",)
        if sc[0] == "s":
            return uvals[int(sc[1:])]
        q = sc[1:].split(",")
        return (q[0], q[1], "Other") if sc[0] == "C" else (q[0], q[1], q[2])

    class ReqList(list):
        def append(self, x, sc=None):
            list.append(self, x)
            req_sc.append(sc)
            req_fl.append(0)
    req_sc = []
    req_fl = []
    reqs = ReqList()

    def request(th, p, f):
        """the table request a frame causes (same resolution as `expect`)"""
        f, _, fl = f.partition("!")
        f, _, sc = f.partition("^")
        scj = sc_request(sc or None)
        _request(th, p, f)
        req_sc[-1] = scj
        req_fl[-1] = int(fl or 0)

    def _request(th, p, f):
        if f[0] == "l":
            reqs.append("(%d%%nat, FLabel %d)" % (th, S(f[1:])))
            return
        if f[0] == "L":
            q = f[1:].split("|")
            reqs.append("(%d%%nat, FLabelLoc %d %s %s %s)" % (th, S(q[0]), _o(None if q[1] == "-" else S(q[1])), _o(None if q[2] == "-" else int(q[2])), _o(None if q[3] == "-" else int(q[3]))))
            return
        x, hit = resolve(p, f)
        if f[0] in "yz":
            k, nm, fl, ln, cl, depth = parse_sym(f)
            (_, nslib, nsaddr) = nsh[k]
            reqs.append("(%d%%nat, FSymbolicated %s %d %d%%nat %d %s %s %s %s %d %d)" % (
                th, "None" if hit is None else "(Some (%d%%nat, %d))" % hit, S("0x%x" % x), nslib, nsaddr,
                _o(None if nm is None else S(nm)), _o(None if fl is None else S(fl)), _o(ln), _o(cl), depth, 0 if hit is None else S(libs[hit[0]])))
            return
        if hit is None:
            reqs.append("(%d%%nat, FLabel %d)" % (th, S("0x%x" % x)))
        else:
            sy = sym_lookup(hit[0], hit[1])
            if sy is None:
                reqs.append("(%d%%nat, FNative %d%%nat %d %d %d)" % (th, hit[0], hit[1], S("0x%x" % hit[1]), S(libs[hit[0]])))
            else:
                reqs.append("(%d%%nat, FNativeSym %d%%nat %d %d %d %d)" % (th, hit[0], hit[1], sy[0], S(sy[2]), S(libs[hit[0]])))

    def expect(th, p, f):
        """content id of the frame the caller named: (function name, library, relative address, file, line, column, inline depth, native symbol) and
        the category, colour and subcategory names"""
        f, _, fl = f.partition("!")
        f, _, sc = f.partition("^")
        return I(("FC", _expect(th, p, f), sc_named(sc or None), int(fl or 0)))

    def _expect(th, p, f):
        if f[0] == "l":
            return I(("F", _e(f[1:]), None, None, None, None, None, 0, None))
        if f[0] == "L":
            q = f[1:].split("|")
            return I(("F", q[0], None, None, None if q[1] == "-" else q[1], None if q[2] == "-" else int(q[2]), None if q[3] == "-" else int(q[3]), 0, None))
        x, hit = resolve(p, f)
        if f[0] in "yz":
            k, nm, fl, ln, cl, depth = parse_sym(f)
            (_, nslib, nsaddr) = nsh[k]
            if hit is None:
                return I(("F", nm if nm is not None else "0x%x" % x, None, None, fl, ln, cl, 0, None))
            return I(("F", nm if nm is not None else ns_first[(th, nslib, nsaddr)], lpaths[hit[0]], hit[1], fl, ln, cl, depth, (lpaths[nslib], nsaddr)))
        if hit is None:
            return I(("F", "0x%x" % x, None, None, None, None, None, 0, None))
        sy = sym_lookup(hit[0], hit[1])
        if sy is None:
            return I(("F", "0x%x" % hit[1], lpaths[hit[0]], hit[1], None, None, None, 0, None))
        # the thread's native-symbol row for (library, symbol address) keeps the name it was first created with - by an earlier
        # handle_for_native_symbol call or an earlier frame - and the frame's function is named after that row
        nm = ns_first.setdefault((th, hit[0], sy[0]), sy[2])
        return I(("F", nm, lpaths[hit[0]], hit[1], None, None, None, 0, (lpaths[hit[0]], sy[0])))

    for o in ops:
        k = o[0]
        if k == "P":
            procs.append((o[1], o[2]))
        elif k == "L":
            libs.append(o[1])
            lpaths.append("/lib/%s/%s" % (o[2], o[1]) if len(o) > 2 else "/lib/%s" % o[1])
            # add_lib of a LibraryInfo equal to an earlier one denotes that earlier library (the table is a set): the slot stands for the first equal one
            canon.append(lpaths.index(lpaths[-1]))
        elif k == "Y":
            tab = []
            for x in o[2:]:
                a, sz, nm = x.split(":")
                tab.append((int(a), int(sz), nm))
            tab.sort()
            ded = []
            for e in tab:
                if not ded or ded[-1][0] != e[0]:
                    ded.append(e)
            symtabs[canon[o[1]]] = ded
        elif k == "M":
            maps.setdefault(o[1], []).append((canon[o[2]], o[3], o[4], o[5]))
        elif k == "T":
            threads.append([o[1], o[2], o[3], o[4], None])
        elif k == "N":
            threads[o[1]][4] = int(o[2][2:])
        elif k == "Q":
            cops.append("(CCat %d %d)" % (S(o[1]), COLORS.index(o[2])))
            qmap.append(len(cops) - 1)
            qvals.append((o[1], o[2]))
        elif k == "U":
            cops.append("(CSub %d%%nat %d)" % (qmap[o[1]], S(o[2])))
            umap.append(len(cops) - 1)
            uvals.append(qvals[o[1]] + (o[2],))
        elif k == "H":
            nsh.append((o[1], canon[o[2]], o[3]))
            ns_first.setdefault((o[1], canon[o[2]], o[3]), o[5])
            reqs.append("(%d%%nat, FNs %d%%nat %d %d)" % (o[1], canon[o[2]], o[3], S(o[5])))
        elif k in ("S", "S2"):
            samples.append((o[1], o[2], [expect(o[1], threads[o[1]][0], f) for f in o[4:]]))
            for f in o[4:]:
                request(o[1], threads[o[1]][0], f)
        elif k == "B":
            allocs.append((o[1], o[2], [expect(o[1], threads[o[1]][0], f) for f in o[5:]]))
            for f in o[5:]:
                request(o[1], threads[o[1]][0], f)
        elif k == "G":
            kinds = "" if o[2] == "-" else o[2]
            mops.append("(None, 0, MReg %s)" % K.coq_list([KIND[x] for x in kinds]))
            gtypes.append((nschemas, kinds, qmap[int(o[3][1:])] if len(o) > 3 else None))
            nschemas += 1
        elif k == "J":
            if layout_ty[0] is None:
                # the first marker of the type: its schema is registered and its CATEGORY looked up by value
                mops.append("(None, 0, MReg [KUnique])")
                cops.append("(CCat %d %d)" % (S("Layout"), COLORS.index("blue")))
                layout_ty[0] = (nschemas, len(cops) - 1)
                nschemas += 1
            mops.append("(Some %d%%nat, %d, MAdd %d%%nat [%d])" % (o[1], S(o[3]), layout_ty[0][0], S(o[4])))
            reqs.append("(%d%%nat, FString %d)" % (o[1], S(o[3])))
            reqs.append("(%d%%nat, FString %d)" % (o[1], S(o[4])))
            mcats.append((o[1], layout_ty[0][1]))
        elif k == "R":
            ty, kinds, gcat = gtypes[o[5]]
            mcats.append((o[1], gcat))
            vals = [] if o[7] == "-" else o[7].split(",")
            reqs.append("(%d%%nat, FString %d)" % (o[1], S(o[6])))
            for kd, v in zip(kinds, vals):
                if kd == "u":
                    reqs.append("(%d%%nat, FString %d)" % (o[1], S(v)))
            mops.append("(Some %d%%nat, %d, MAdd %d%%nat %s)" % (o[1], S(o[6]), ty, K.coq_list([str(int(v)) if kd == "n" else str(S(v)) for kd, v in zip(kinds, vals)])))
            if len(o) > 8:
                mstacks.append((o[1], [expect(o[1], threads[o[1]][0], f) for f in o[8:]]))
                for f in o[8:]:
                    request(o[1], threads[o[1]][0], f)
        elif k == "K":
            if text_ty is None:
                mops.append("(None, 0, MReg [KUnique])")
                text_ty = nschemas
                nschemas += 1
            mops.append("(Some %d%%nat, %d, MAdd %d%%nat [%d])" % (o[1], S(o[3]), text_ty, S(o[4])))
            mcats.append((o[1], None))
            reqs.append("(%d%%nat, FString %d)" % (o[1], S(o[3])))
            reqs.append("(%d%%nat, FString %d)" % (o[1], S(o[4])))
            if len(o) > 5:
                mstacks.append((o[1], [expect(o[1], threads[o[1]][0], f) for f in o[5:]]))
                for f in o[5:]:
                    request(o[1], threads[o[1]][0], f)
        elif k == "C":
            counters.append(o[1])
        elif k == "V":
            visible.append(o[1])
        elif k == "W":
            selected.append(o[1])
    nlibs = len(prof["libs"])
    ncats = len(prof["meta"]["categories"])
    oth = []
    for th in prof["threads"]:
        strings = th["stringArray"]
        ft, fu, rt = th["frameTable"], th["funcTable"], th["resourceTable"]
        fids = []
        nst = th["nativeSymbols"]
        for i in range(ft["length"]):
            try:
                f = ft["func"][i]
                name = strings[fu["name"][f]]
                r = fu["resource"][f]
                lib = None if (r is None or r < 0) else prof["libs"][rt["lib"][r]]["path"]
                addr = ft["address"][i]
                addr = None if (addr is None or addr < 0) else addr
                fl = fu["fileName"][f]
                fl = None if fl is None else strings[fl]
                ns = ft["nativeSymbol"][i]
                ns = None if ns is None else (prof["libs"][nst["libIndex"][ns]]["path"], nst["address"][ns])
                ci, si = ft["category"][i], ft["subcategory"][i]
                if not (isinstance(ci, int) and isinstance(si, int) and ci >= 0 and si >= 0):
                    raise ValueError("category")
                cat = prof["meta"]["categories"][ci]
                flags = (1 if fu["isJS"][f] else 0) | (2 if fu["relevantForJS"][f] else 0)
                fids.append(I(("FC", I(("F", name, lib, addr, fl, ft["line"][i], ft["column"][i], ft["inlineDepth"][i], ns)), (cat["name"], cat["color"], cat["subcategories"][si]), flags)))
            except Exception:
                fids.append(I(("BAD", i)))
        st = th["stackTable"]
        stack_keys = []
        for i in range(min(len(st["prefix"]), len(st["frame"]))):
            fr = st["frame"][i]
            stack_keys.append("(%s, %d%%nat)" % (_opt(st["prefix"][i]), fids[fr] if isinstance(fr, int) and 0 <= fr < len(fids) else I(("BADF", fr))))
        sm = th["samples"]
        acc, rows = 0.0, []
        tcol = sm.get("time")
        for j in range(sm["length"]):
            if tcol is not None:
                t = tcol[j]
            else:
                acc += sm["timeDeltas"][j]
                t = acc
            rows.append("(%d, %s)" % (int(round(t * 1e6)), _opt(sm["stack"][j] if j < len(sm["stack"]) else None)))
        mst = []
        for dta in th["markers"]["data"]:
            if isinstance(dta, dict) and isinstance(dta.get("cause"), dict):
                mst.append(_opt(dta["cause"].get("stack")))
        oth.append("(%s, %s, %s, %s, %s, %s, %s)" % (_id(th["pid"]), _id(th["tid"]), "true" if th["isMainThread"] else "false", _thread_json(th, nlibs, ncats, kb),
                                                     K.coq_list(stack_keys), K.coq_list(rows), K.coq_list(mst)))
    otables = []
    for th in prof["threads"]:
        ft, fu, rt = th["frameTable"], th["funcTable"], th["resourceTable"]
        oN = lambda l: K.coq_list(["None" if x is None else "(Some %d)" % x for x in l])
        otables.append("(%s, %s, %s, %s, %s, %s, %s, %s, %s, %s, %s, (%s, %s, %s, %s), (%s, %s), (%s, %s))" % (
            K.coq_list([str(S(x)) for x in th["stringArray"]]),
            K.coq_list(["%d%%nat" % x for x in rt["lib"]]), K.coq_list(["%d%%nat" % x for x in rt["name"]]),
            K.coq_list(["%d%%nat" % x for x in fu["name"]]), K.coq_list([_opt(x) for x in fu["resource"]]),
            K.coq_list(["%d%%nat" % x for x in ft["func"]]),
            K.coq_list(["None" if (x is None or x < 0) else "(Some %d)" % x for x in ft["address"]]),
            K.coq_list([_opt(x) for x in ft["nativeSymbol"]]),
            K.coq_list(["%d%%nat" % x for x in th["nativeSymbols"]["libIndex"]]), K.coq_list([str(x) for x in th["nativeSymbols"]["address"]]),
            K.coq_list(["%d%%nat" % x for x in th["nativeSymbols"]["name"]]),
            K.coq_list([_opt(x) for x in fu["fileName"]]), oN(ft["line"]), oN(ft["column"]), K.coq_list([str(x) for x in ft["inlineDepth"]]),
            K.coq_list(["%d%%nat" % (x if isinstance(x, int) and x >= 0 else BAD) for x in ft["category"]]),
            K.coq_list(["%d%%nat" % (x if isinstance(x, int) and x >= 0 else BAD) for x in ft["subcategory"]]),
            K.coq_list(["true" if x else "false" for x in fu["isJS"]]), K.coq_list(["true" if x else "false" for x in fu["relevantForJS"]])))
    obmarkers = []
    for th in prof["threads"]:
        strings = th["stringArray"]
        mk = th["markers"]
        rows = []
        for i in range(mk["length"]):
            try:
                nm = S(strings[mk["name"][i]])
            except Exception:
                nm = BAD
            dta = mk["data"][i] if i < len(mk["data"]) else None
            vals = []
            if isinstance(dta, dict) and dta.get("type") in kb:
                keys, kinds = kb[dta["type"]]
                extra = [x for x in dta if x not in keys and x not in ("type", "cause")]
                for key, kd in zip(keys, kinds):
                    v = dta.get(key)
                    if kd == "u":
                        vals.append(S(strings[v]) if isinstance(v, int) and not isinstance(v, bool) and 0 <= v < len(strings) else BAD)
                    elif kd in "spz":
                        vals.append(S(v) if isinstance(v, str) else BAD)
                    else:
                        vals.append(int(v) if isinstance(v, (int, float)) and not isinstance(v, bool) and float(v) == int(v) and v >= 0 else BAD)
                if extra:
                    vals.append(BAD)
            else:
                vals = [BAD]
            rows.append("(%d, %s)" % (nm, K.coq_list([str(x) for x in vals])))
        obmarkers.append(K.coq_list(rows))
    oblibs = []
    for l in prof["libs"]:
        nm = l["path"]
        oblibs.append("%d%%nat" % (lpaths.index(nm) if nm in lpaths else 999))
    meta = prof["meta"]
    obc = ["(%d%%nat, %s)" % (c["mainThreadIndex"], _id(c["pid"])) for c in prof.get("counters", [])]
    nat = lambda l: K.coq_list(["%d%%nat" % x for x in l])
    obcats = []
    for c in meta.get("categories", []):
        col = c.get("color")
        obcats.append("(%d, %d, %s)" % (S(c.get("name")), COLORS.index(col) if col in COLORS else BAD, K.coq_list([str(S(x)) for x in c.get("subcategories", [])])))
    assert len(req_sc) == len(reqs)
    obmcats = [K.coq_list(["%d%%nat" % (x if isinstance(x, int) and x >= 0 else BAD) for x in th["markers"]["category"]]) for th in prof["threads"]]
    oballocs = []
    for th in prof["threads"]:
        na = th.get("nativeAllocations")
        rows = []
        if isinstance(na, dict):
            for j in range(na.get("length", 0)):
                try:
                    rows.append("(%d, %s)" % (int(round(na["time"][j] * 1e6)), _opt(na["stack"][j])))
                except Exception:
                    rows.append("(0, Some %d%%nat)" % BAD)
        oballocs.append(K.coq_list(rows))
    return "(mkCase %s %s %s %s %s %s %s %s %s %s %s %s %s %s %s %s %d 12 %s %s %s %s %s %s %s %s)" % (
        K.coq_list(["(%d, %d)" % p for p in procs]),
        K.coq_list(["(%d%%nat, %d, %d, %s, %s)" % (t[0], t[1], t[2], "true" if t[3] else "false", "None" if t[4] is None else "(Some %d)" % t[4]) for t in threads]),
        K.coq_list(["(%d%%nat, %d, %s)" % (h, t, nat(fr)) for h, t, fr in samples]),
        K.coq_list(["(%d%%nat, %s)" % (h, nat(fr)) for h, fr in mstacks]),
        nat(visible), nat(selected), nat(counters), K.coq_list(oth),
        nat(meta.get("initialVisibleThreads", [])), nat(meta.get("initialSelectedThreads", [])), K.coq_list(obc),
        K.coq_list(reqs), K.coq_list(oblibs), K.coq_list(otables), K.coq_list(mops), K.coq_list(obmarkers),
        S("Other"), K.coq_list(cops), K.coq_list(["None" if x is None else "(Some %d%%nat)" % x for x in req_sc]), K.coq_list(obcats),
        K.coq_list(["(%d%%nat, %s)" % (t, "None" if j is None else "(Some %d%%nat)" % j) for t, j in mcats]), K.coq_list(obmcats),
        K.coq_list([str(x) for x in req_fl]), K.coq_list(["(%d%%nat, %d, %s)" % (h, t, nat(fr)) for h, t, fr in allocs]), K.coq_list(oballocs))


def evaluate(cases):
    if not cases:
        return []
    ok, log, bindir = K.cargo_build("h_fxprof")
    if not ok:
        raise K.TieBroken("harness h_fxprof does not build against the current tree:\n" + log[-1500:])
    lines = [";".join(" ".join(str(x) for x in o) for o in _valid(c["items"])) for c in cases]
    rc, outl, err = K.run_lines(os.path.join(bindir, "h_fxprof"), ["prof"], lines, timeout=1800)
    if rc != 0 or len(outl) != len(cases):
        raise K.TieBroken("h_fxprof prof failed rc=%s (%d/%d): %s" % (rc, len(outl), len(cases), err[-300:]))
    stats = _state.setdefault("stats", {"profiles": 0, "panics": 0, "threads": 0, "samples": 0, "stack_rows": 0, "frames": 0, "markers": 0, "counters": 0, "visible_refs": 0})
    verdicts = [None] * len(cases)
    terms, idx = [], []
    for i, (c, l) in enumerate(zip(cases, outl)):
        if l.strip() == "PANIC":
            stats["panics"] += 1
            c["_out"] = "the API panicked"
            verdicts[i] = 2
            continue
        prof = json.loads(l)
        stats["profiles"] += 1
        stats["threads"] += len(prof["threads"])
        for th in prof["threads"]:
            stats["samples"] += th["samples"]["length"]
            stats["stack_rows"] += th["stackTable"]["length"]
            stats["frames"] += th["frameTable"]["length"]
            stats["markers"] += th["markers"]["length"]
            stats["runtime_schema_markers"] = stats.get("runtime_schema_markers", 0) + sum(1 for d in th["markers"]["data"] if isinstance(d, dict) and d.get("type") != "Text")
            stats["marker_fields"] = stats.get("marker_fields", 0) + sum(max(len(d) - 1 - ("cause" in d), 0) for d in th["markers"]["data"] if isinstance(d, dict))
            stats["native_symbols"] = stats.get("native_symbols", 0) + th["nativeSymbols"]["length"]
        stats["categories"] = stats.get("categories", 0) + len(prof["meta"].get("categories", []))
        stats["named_subcategories"] = stats.get("named_subcategories", 0) + sum(max(len(c.get("subcategories", [])) - 1, 0) for c in prof["meta"].get("categories", []))
        stats["frames_outside_default_category"] = stats.get("frames_outside_default_category", 0) + sum(1 for th in prof["threads"] for a, b in zip(th["frameTable"]["category"], th["frameTable"]["subcategory"]) if a or b)
        stats["markers_outside_default_category"] = stats.get("markers_outside_default_category", 0) + sum(1 for th in prof["threads"] for a in th["markers"]["category"] if a)
        stats["allocation_samples"] = stats.get("allocation_samples", 0) + sum(th.get("nativeAllocations", {}).get("length", 0) for th in prof["threads"])
        stats["funcs_with_js_flags"] = stats.get("funcs_with_js_flags", 0) + sum(1 for th in prof["threads"] for a, b in zip(th["funcTable"]["isJS"], th["funcTable"]["relevantForJS"]) if a or b)
        stats["counters"] += len(prof.get("counters", []))
        stats["visible_refs"] += len(prof["meta"].get("initialVisibleThreads", []))
        c["_summary"] = {"threads": [(t["pid"], t["tid"], t["name"], t["isMainThread"]) for t in prof["threads"]],
                         "initialVisibleThreads": prof["meta"].get("initialVisibleThreads"), "initialSelectedThreads": prof["meta"].get("initialSelectedThreads"),
                         "counters": [(x["pid"], x["mainThreadIndex"]) for x in prof.get("counters", [])]}
        terms.append(_coq_case(_valid(c["items"]), prof))
        c["_prof"] = prof
        idx.append(i)
    HDR = "From SV Require Import Model.ProfileTables Model.FrameTables Model.MarkerTable Model.Categories Tie.C03.\nOpen Scope N_scope."
    shards = [K.case_defs("c03case", ch) for ch in K.chunked(terms, K.NCPU)]
    try:
        res = K.coq_eval(PROP, HDR, shards)
    except RuntimeError as ex:
        raise K.TieBroken(str(ex))
    flat = [v for r in res for v in r]
    if len(flat) != len(terms):
        raise K.TieBroken("verdict count mismatch %d vs %d" % (len(flat), len(terms)))
    for i, v in zip(idx, flat):
        verdicts[i] = v
    # failing histories of the class of known finding F-C03a: does anything ELSE of the property fail on them?  (the verdict with the allocation
    # clause restricted to samples added for first threads)
    sub = [i for i in idx if verdicts[i] % 10 == 2 and _f03a_shape(cases[i])]
    if sub:
        _SANS_F03A[0] = True
        try:
            sub = [(i, _coq_case(_valid(cases[i]["items"]), cases[i]["_prof"])) for i in sub]
        finally:
            _SANS_F03A[0] = False
        try:
            res = K.coq_eval(PROP, HDR, [K.case_defs("c03case", [t for _, t in ch], fn="verdict_sans_f03a") for ch in K.chunked(sub, K.NCPU)])
        except RuntimeError as ex:
            raise K.TieBroken(str(ex))
        for (i, _), v in zip(sub, [v for r in res for v in r]):
            cases[i]["_only_f03a"] = (v % 10 != 2)
    for c in cases:
        c.pop("_prof", None)
    return verdicts


def _f03a_shape(case):
    first, threads = {}, []
    for o in _valid(case["items"]):
        if o[0] == "T":
            first.setdefault(o[1], len(threads))
            threads.append(o[1])
        elif o[0] == "B" and len(o) > 5 and first.get(threads[o[1]]) != o[1]:
            return True
    return False


def known(case):
    """F-C03a: an allocation sample with a stack, added for a thread that is not the first thread of its process - and nothing else of the property
    fails on that history (the verdict with the allocation clause restricted to first threads' samples is not a failure)"""
    if _f03a_shape(case):
        if "_only_f03a" not in case:
            evaluate([case])
        if case.get("_only_f03a"):
            return K.known_line(PROP, "F-C03a")
    return None


def describe(case):
    d = {"calls": [" ".join(str(x) for x in o) for o in _valid(case["items"])][:150]}
    if "_summary" in case:
        d["observed"] = case["_summary"]
    if "_out" in case:
        d["error"] = case["_out"]
    return d


def distribution(cases):
    return _state.get("stats", {})


def run(out, tier, seed, replay):
    K.standard_flow(out, sys.modules[__name__], tier, seed, replay)
