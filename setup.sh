#!/bin/sh
# Build the framework from files on disk only (offline): constants, Coq tree, harness workspace.
set -e
cd "$(dirname "$0")"
export CARGO_NET_OFFLINE=true
mkdir -p .cache coq/Generated
python3 tools/consts.py /repo > coq/Generated/Consts.v.new && { cmp -s coq/Generated/Consts.v.new coq/Generated/Consts.v || mv coq/Generated/Consts.v.new coq/Generated/Consts.v; rm -f coq/Generated/Consts.v.new; }
(cd coq && coq_makefile -f _CoqProject -o Makefile >/dev/null && timeout 3000 make -j16)
cp /repo/Cargo.lock harness/Cargo.lock
sha256sum /repo/Cargo.lock | cut -d' ' -f1 | tr -d '\n' > .cache/lock.stamp
(cd harness && RUSTFLAGS="--cfg samply_verif" CARGO_TARGET_DIR=../.cache/target-hooks timeout 3000 cargo build --offline --workspace)

(cd /repo && RUSTFLAGS="--cfg samply_verif" CARGO_TARGET_DIR=/verif/.cache/target-samply timeout 3000 cargo build --offline -p samply)
echo samply built
echo setup done
