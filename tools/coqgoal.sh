#!/bin/bash
# usage: tools/coqgoal.sh <file.v> <line>  — prints the goals after line <line> of a proof (scratch copy under /tmp/cg)
f=$1; n=$2; b=$(basename $f .v)
head -n $n $f > /tmp/cg/${b}_g.v; printf '\nShow.\n' >> /tmp/cg/${b}_g.v
cd /verif/coq; timeout 300 coqc -Q . SV -w -notation-overridden /tmp/cg/${b}_g.v 2>&1 | head -${3:-60}
