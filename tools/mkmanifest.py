#!/usr/bin/env python3
# Writes /verif/MANIFEST.json from the table below (keeps the file valid and in one place).
import json, os
V = os.path.dirname(os.path.dirname(os.path.abspath(__file__)))

TITLES = {json.loads(l)["id"]: json.loads(l)["title"] for l in open(os.path.join(V, "properties.jsonl"))}

CHECKS = {
    "C11": dict(
        text="Coq theorems C11_no_overlap / C11_refines_spec / C11_convert / C11_frames / C11_actions_refine hold for every operation history "
             "(induction over the history, no bound). The model is tied to fxprof-processed-profile in both ways: (a) tools/xlate_lm.py translates the methods of `impl<T> LibMappings<T>` "
             "(lookup_impl, add_mapping, remove_mapping, convert_address, lookup, new, clear) into Gallina over the model's BTreeMap operations on every run (Generated/LibMappingsGen.v); "
             "C11_translation_agrees / C11_translation_functions_agree prove the translation equal to the model for every table, mapping and address, and C11_of_translation states no-overlap and "
             "newest-live-mapping resolution about the translated functions; (b) by running LibMappings<u32> and the Profile API "
             "on generated histories and evaluating model + history specification inside Coq on the implementation's answers.",
        note="Trusted: Coq kernel; the reading of std's BTreeMap (range / next_back / remove / insert) as operations on a unique-key association list; tools/xlate_lm.py (its reading of the Rust subset: references transparent, `as u32` = mod 2^32, "
             "u32 addition kept unreduced for the overflow flag, BTreeMap::range panicking on an inverted range); harness h_fxprof + JSON read-back; generators. "
             "Outside the property: empty/inverted ranges, relative addresses beyond 32 bits.",
        technique="Coq proof (refinement of a history specification by induction) over a model that is proved equal to a translation of the source regenerated on every run + differential correspondence run evaluated with vm_compute",
        design="4/C11"),
    "C12": dict(
        text="Coq theorems C12_conservation (no underflow/assert, CPU-delta and off-CPU conservation against plain history sums, remainder < I, "
             "group shape and ordering), C12_group_inside_sleep, C12_no_double_count and C12_checker_accepts_model hold for every interval I > 0 and "
             "every nondecreasing history (induction, no bound). The model is tied to samply/src/shared/context_switch.rs in both ways: (a) tools/xlate_cs.py translates the five methods of "
             "`impl ContextSwitchHandler` into Gallina on every run (Generated/ContextSwitchGen.v) and C12_translation_agrees proves that translation equal to the model for every I > 0 and every "
             "event sequence, so C12_conservation_of_translation is a theorem about the current source; (b) the file is compiled into the harness by #[path], generated histories are run, and the "
             "verified boolean checker and the model are evaluated inside Coq on the implementation's outputs; (c) end to end through the converter: recordings with PERF_RECORD_SWITCH records "
             "(in / out / out with the preempted flag) and samples of one thread are converted by `samply import` and the CPU delta serialized with each sample is compared with the model's, "
             "the clause 'the deltas handed out sum to the time observed running' being decided on the observation (Tie/C12.v verdict_e2e); (d) the same in the converter's sched:sched_switch mode "
             "(a tracepoint event next to the main event, no context-switch records), where the off-CPU samples reach the profile: every sample of the thread's table - time, CPU delta, weight - against the model driven as "
             "handle_main_event_sample drives the handler, both conservation clauses decided on the observed table (verdict_e2e_sched); that driving is itself modelled (sched_events / sched_expect) and C12_sched_mode_conservation, C12_sched_mode_table and "
             "C12_sched_checker_accepts_model prove, for every interval and history, that the table it leaves conserves CPU time and sleeping time and is accepted by the decision function.",
        note="Trusted: Coq kernel; tools/xlate_cs.py (the reading of the Rust subset: u64 arithmetic with panics on underflow / division by zero / debug_assert, struct updates, match on the state enum); harness h_incl (reads the private accumulators through the Debug rendering); generators. "
             "Hypotheses: I > 0, nondecreasing timestamps (the property's quantifier). Not covered: the converter constructing the handler with interval 0; per_cpu.rs callers; off-CPU samples end to end in the CONTEXT_SWITCH mode (the converter emits them only with a sched:sched_switch stack; they are observed in the sched_switch mode).",
        technique="Coq proof (invariant + conservation by induction over the event history) over a model that is proved equal to a translation of the source regenerated on every run + differential correspondence run with a verified checker evaluated by vm_compute",
        design="4/C12"),
    "C04": dict(
        text="Coq theorem C04_serialized_table: for every history of add_sample / add_sample_same_stack_zero_cpu (and add-only counter) calls, serialization does not "
             "panic or underflow, the rows read back by running sums are nondecreasing in time and are a permutation of the history's effective entries "
             "(each keeps time, stack, weight, CPU delta), and total weight/CPU equal the sums added; C04_checker_sound/_accepts_model tie the boolean checker to that statement. "
             "Tied to fxprof-processed-profile in both ways: (a) tools/xlate_st.py translates SampleTable::new / add_sample / modify_last_sample statement by statement into Gallina over the struct's own "
             "fields on every run (Generated/SampleTableGen.v) and C04_translation_history / _add / _modify prove that, read row by row, the translated columns after any history of calls are the model's entries, with the same "
             "panics, flag and last timestamp (the pre-fix code fails this proof); (b) by running the Profile API + serde_json on generated histories and evaluating the checker in Coq. "
             "The original code violated this (F-C04); repaired by a fix: commit, the witnesses stay in corpus/C04.",
        note="Trusted: Coq kernel; tools/xlate_st.py (its reading of the Rust subset: Vec::push as append, *v.last_mut().unwrap() as an update of the last element that panics on an empty vector, indexing as nth_error, short-circuit &&; thread.rs and the Serialize impl are transcribed, not translated); serde_json read-back in harness h_fxprof; sort_unstable modelled as insertion sort with ties compared as multisets; "
             "i32 weight sums assumed in range; float ms->ns exact below 2^50.",
        technique="Coq proof (table invariant by induction over the call history; sorted-permutation serialization) over a model whose table operations are proved equal to a translation of the source regenerated on every run + differential correspondence run with a verified checker evaluated by vm_compute",
        design="4/C04"),
    "C14": dict(
        text="Coq theorems C14_main (for every raw stack, any depth, any markers, with/without the extra label frame: < 500 unchanged; otherwise 200 root frames, "
             "one placeholder whose count k is exactly the number removed, a positive multiple of 200, then 100..300 leaf frames verbatim; kept + elided = depth; "
             "output <= 501), C14_limit_char (the iterator for any n, hint and stream), C14_limit_constant (the regenerated source constant is 200) and "
             "C14_checker_accepts_model. The model is tied to samply/src/shared/stack_depth_limiting_frame_iter.rs in both ways: (a) tools/xlate_fl.py translates should_elide_frames, the state enum, new() and next() into Gallina on every run "
             "(Generated/FrameLimitGen.v; usize subtraction / division checked as in a debug build) and C14_translation_agrees proves that new() followed by next() until None yields exactly the model's output for every length hint and every stream, without a panic "
             "(C14_translation_arith_safe), so C14_main_of_translation is the property as a theorem about the current source; (b) by driving ProcessSampleData::flush_samples_to_profile (samply/src/shared compiled in by #[path]) with "
             "multi-sample flushes, and end to end by converting perf.data recordings whose call chains have the same depths with `samply import`, evaluating the property-text checker inside Coq on the serialized stacks. F-C14 (marker counted in the hint) was found, fixed and stays in corpus/C14.",
        note="Trusted: Coq kernel; tools/xlate_fl.py (its reading of the Rust subset: references transparent, `?` on the inner iterator ends the call with the fields as mutated so far, the label frame as the symbolic value Placeholder <count> after checking the format string); harness h_samply and its JSON read-back; tools/consts.py. Not covered: JS/ART label insertion (more frames than the hint).",
        technique="Coq proof (characterisation of the three-state iterator by induction, arithmetic by lia) over a model that is proved equal to a translation of the source regenerated on every run + differential correspondence run with the property-text checker evaluated by vm_compute",
        design="4/C14"),
    "C13": dict(
        text="Coq theorem C13_run_is_spec: for every chunk size > 0, every file and EVERY sequence of read_bytes_at / read_bytes_at_until calls, each call returns exactly "
             "what a state-free specification of the file says (exact bytes, delimited reads up to the first delimiter inside min(range, 4096), in-bounds reads succeed, "
             "overflowing/out-of-bounds reads fail, nothing panics) - hence independence from history and chunk alignment; C13_read_exact/_until_exact/_in_bounds_succeeds spell the spec out; "
             "C13_schedule_independent: taking each call as one atomic step (what the two mutexes provide), under ANY interleaving of several threads' calls every thread gets the specified answers to its own calls; "
             "C13_constants re-checks the regenerated constants. Tied to samply-symbols by running FileContentsWithChunkedCaching on generated call sequences and evaluating spec + model in Coq, "
             "and by a multi-threaded stream (real threads released together onto one fresh cache, hundreds of rounds per case, every answer against the specification); "
             "read_bytes_into is a model operation of its own (ReadInto); the source can fail a read once: C13_failed_reads_leave_no_trace (model run_f: a call that reaches the failing source returns an error "
             "and changes nothing, so every call of a history with failures is answered exactly as in the history without the failed calls) and the correspondence run compares every call of such histories, the failed ones included. "
             "Two defects (F-C13a/b) were found, fixed by fix: commits and stay in corpus/C13.",
        note="Trusted: Coq kernel; RangeMap overwrite semantics as modelled; harness h_symbols (byte comparison against the in-memory file). "
             "Not proved: that the mutex scopes make each call atomic (assumed by C13_schedule_independent; the lock scope is pinned and the multi-threaded stream samples real schedules, which is testing), FrozenVec slice validity.",
        technique="Coq proof (state invariant + refinement of a state-free specification, by induction over the call sequence) + differential correspondence run evaluated by vm_compute",
        design="4/C13"),
    "C02": dict(
        text="Coq theorems C02_attribution (for time-ordered mapping operations and samples, every frame resolves in root-to-leaf order to the C11 history "
             "specification applied to the operations stamped at or before the sample's time, at the lookup address ip / return-1 / adjusted; uncovered and kernel "
             "frames stay raw; relative address = relative start + offset), C02_later_mmap_irrelevant, C02_cutoff_constant (the `<=` regenerated from the source) and "
             "C02_lookup_addresses. Tied to the code by driving ProcessSampleData::flush_samples_to_profile (samply/src/shared compiled in by #[path]) with generated "
             "queues/samples whose op timestamps fall before, exactly at and after sample times, and evaluating spec + model in Coq on the serialized stacks. "
             "Converter level: C02_queue_history (for EVERY record history a process's queue is the mappings announced for its pid since its last exec, after the queue inherited at fork), "
             "C02_fork_inherits, C02_exec_clears, C02_rel_start_offset / C02_rel_start_segments (relative start = page offset, or SVMA of the file offset minus the image base), "
             "C02_call_chain_order, C02_e2e_attribution (composition for time-ordered recordings). The bias computation underneath the relative start is tied by translation: tools/xlate_vb.py re-emits "
             "SvmaFileRange::encompasses_file_range / is_encompassed_by_file_range and compute_vma_bias_impl (samply/src/linux_shared/svma_file_range.rs) as Gallina on every run and "
             "C02_vma_bias_translation_sound / _total prove the translation equal to the model's vma_bias wherever a debug build does not panic, with the exact no-panic bounds; the replay of the queued operations is translated too "
             "(tools/xlate_ho.py: next_op_if_at_or_before, LibMappingOp::apply_to arm by arm, the regular-library loop of process_ops; C02_op_replay_translation_agrees / C02_apply_op_translation_agrees). Tied end to end: generated recordings (mappings added, overlapped, replaced, inherited across fork, "
             "cleared by exec, stamped before / exactly at / after samples; call chains with leaf/return addresses at range boundaries, unmapped addresses, all context markers; absent binaries and "
             "an ELF fixture and a generated shared object with packed segments at arbitrary load addresses) -> perf.data -> samply import -> resolved frames, decided by a model-free specification in Coq.",
        note="Trusted: Coq kernel; tools/xlate_vb.py (its reading of the Rust subset: checked u64 + and -, wrapping_sub, iter().find = first match, short-circuit ||); tools/xlate_ho.py (Peekable peek / next as head / tail, while let as recursion over the queue); harness h_samply + JSON read-back; C11's model of LibMappings; perf.data writer; the ELF program-header reader in vlib/c02e.py (segments are an input of the model). "
             "Not modelled: jitdump / perf-map side tables, simpleperf symbol tables (case 1), vdso (case 3), PE mappings, DWARF-unwound stack fragments, --fold-recursive-prefix.",
        technique="Coq proof (queue replay = filter by timestamp on ordered queues; composition lemma; refinement to C11's history specification; the bias computation proved equal to a translation of the source regenerated on every run) + differential correspondence run evaluated by vm_compute",
        design="4/C01,C17,C02"),
    "C20": dict(
        text="Coq theorem C20_listing: for every decoder satisfying two stated assumptions (success consumes 1..remaining bytes; 'invalid' consumes >= 1 byte), every byte count, "
             "resync step > 0 and decode length, the decode loop terminates within its fuel and its listing starts at offset 0, stays below the decode length, advances by exactly the "
             "decoded length (or the resync step after an invalid entry) - a gap-free, overlap-free tiling - and reports a size beyond every listed offset; "
             "C20_first_zero/_in_range/_step_exact unfold that; C20_adjust_positive re-checks the regenerated resync constants. Tied to samply-api by /asm/v1 requests over the x86-64, ARM and "
             "AArch64 fixtures with the yaxpeax decoder called at every byte offset as oracle, checker + model evaluated in Coq. F-C20 (size after an invalid instruction) found, fixed, kept in corpus.",
        note="Trusted: Coq kernel; yaxpeax decoders as oracle under the two assumptions (checked per oracle entry); harness h_api. Not independently checked: that the bytes read are the binary's bytes at "
             "that relative address (same reader on both sides). No i686 fixture survives in this sandbox.",
        technique="Coq proof (loop invariant `chain` by induction on fuel; termination measure) with the decoder as a section-variable oracle + differential correspondence run evaluated by vm_compute",
        design="4/C20"),
    "C18": dict(
        text="Coq theorems C18_no_prefix_no_cors (every request whose path does not begin with /token - any method, path, Access-Control-Request-* headers, with or without a "
             "profile - gets no Access-Control-* header and only the landing page (GET /) or an empty 404), C18_prefix_characterised, C18_prefix_dispatch and C18_token_shape, C18_token_injective (different 24-byte strings give different tokens) "
             "(24 bytes, regenerated from the source, encode to 39 characters of the 32-symbol alphabet; the encoder model reproduces the crate's own test vector). "
             "Tied to the real server: `samply load` is started several times, ~900 raw HTTP requests per run (every path also with an Origin header naming the server's own origin) are classified and checker + model are evaluated in Coq; "
             "tokens of all runs are distinct and the 24 bytes each encodes take at least 10 distinct values - C18_token_variety_arith: fewer than one 24-byte string in 10^19 has less variety (a closed computation; the combinatorial reading of the count is not proved).",
        note="Trusted: Coq kernel; hyper's parsing (uri().path() is the raw path); Python raw-socket client. Not provable: unpredictability of the token (entropy of rand::rng()); "
             "has_profile = false is proved but unreachable from the CLI.",
        technique="Coq proof (case analysis of the routing function over all methods/paths/headers; encoder length/alphabet) + end-to-end correspondence run against the running server, evaluated by vm_compute",
        design="4/C18"),
    "C15": dict(
        text="Coq theorems C15_evict (after a pass: total <= maximum, nothing older than the maximum age, nothing outside touched, nothing added), C15_lru_prefix_minimal "
             "(the size pass selects exactly the shortest prefix of the access-time order covering the excess; nothing when the total fits, including total = maximum), C15_idempotent, "
             "C15_bookkeeping, C15_confined, C15_restart, C15_reachable_unique - for every state reachable by any history; C15_clock_alone (model op Tick: when time passes between two passes with no activity, "
             "no settings change and no restart, the second pass removes exactly the files that aged past the maximum age meanwhile). Tied to the real QuotaManager + sqlite inventory on scratch "
             "directories (eviction run synchronously through a cfg(samply_verif) hook), inventory rows and directory listings compared with the model inside Coq; a second stream runs short histories on a fast clock "
             "(6 s per time unit) in which REAL time passes between passes. "
             "F-C15a/b were found, fixed and stay in corpus/C15.",
        note="Trusted: Coq kernel; SQLite (durability, tie order = rowid); harness h_quota; the two hooks. Not exercised: a crash between unlink and row deletion; "
             "delete errors other than NotFound; the Notify-coalescing of the background task (the hook runs the same pass synchronously).",
        technique="Coq proof (unique-key invariant over histories; prefix/permutation reasoning for the LRU selection; idempotence) + differential correspondence run evaluated by vm_compute",
        design="4/C15"),
    "C10": dict(
        text="Coq theorems C10_chunking (for EVERY partition of a byte string the incremental line buffer hands out exactly the lines of the whole string with exact offsets; its assertion never fires), "
             "C10_index_chunk_invariant and C10_index_bytes_chunk_invariant (the index and its serialized bytes depend only on the concatenation), C10_parse_serialize / C10_serialize_parse_serialize "
             "(reading a serialized index back gives the same tables, for every index whose entries fit their fields), C10_stored_index_lookups (lookups through the stored index = lookups through the index itself), "
             "C10_lookup_agrees_with_text (for EVERY well-formed text below 4 GiB and EVERY address the lookup through the index - binary search, FUNC block read back through offset and length, ordered searches for the "
             "inline chain and the line record, FILE / INLINE_ORIGIN strings through the index - equals the straightforward reading of the text) and C10_end_to_end (any chunking, stored index, agreement with the text). "
             "The index creator, the .symindex layout and the lookup through an index are modelled; Spec/BreakpadText.v is the specification of lookups. Tied to samply-symbols by generated .sym files fed in many partitions "
             "(1-byte chunks, cuts inside line endings, random), parse/serialize round trip, stored-index vs self-indexed lookups, and lookups compared in Coq with the text specification, the model and the model's index bytes; a further stream of files above 1 MiB (the chunk in which a symbol map indexes a file itself) "
             "is decided by the same equalities computed in the driver and a direct reading of the generated text, not through Coq. "
             "F-C10 (INLINE_ORIGIN inside a FUNC block) was found, fixed and stays in corpus/C10.",
        note="All four clauses are proved over the models (chunk invariance, parse/serialize round trip, stored = self-indexed lookups, lookup = reading of the text on well-formed files below 4 GiB). "
             "The models of the creator, of parse_symindex_file and of the lookup path are hand-written and tied by the correspondence run (index bytes, tables read back, every lookup result). "
             "Trusted: the Coq transcription of the nom tokenizers; stable-sort model of sort_unstable (files with duplicate addresses/indices are outside wf_text and are only compared with the model).",
        technique="Coq proof (refinement of a byte-at-a-time specification by the slice-based line buffer; closed form of the creator's fold over lines; sorted-search / plain-search equivalences; induction over lines, chunks and fuel) + differential correspondence run with a text-level specification evaluated by vm_compute",
        design="4/C10"),
    "C07": dict(
        text="Coq theorems C07_shape_and_truth (for every request with valid module indices - any number of jobs, repeated / unknown / malformed-id / unused modules, modules shared "
             "between jobs, stacks of any length - and every sane symbol oracle: one result per job, one stack per stack, one frame per frame in order, each echoing position, module and offset and "
             "carrying exactly what a direct lookup yields, nothing for unloadable modules; none of the unwrap/index/subtraction sites panics), C07_bad_index (an out-of-range module index yields an error "
             "response) and C07_found_modules. Tied to samply-api by generated requests over fixture binaries and generated Breakpad modules with the direct lookups as oracle, specification + model evaluated in Coq.",
        note="Trusted: Coq kernel; the symbol manager as oracle (direct lookups); harness h_api; JSON decoding in Python with string interning. "
             "Interpretations: a debug-info line number 0 is omitted by the API; absent debug_info and all-absent fields are identified.",
        technique="Coq proof (the gather / symbolicate / rebuild pipeline over association lists refines a per-frame specification; membership invariants by induction) + differential correspondence run evaluated by vm_compute",
        design="4/C07,C09"),
    "C09": dict(
        text="Coq theorems C09_only_listed (a file is read only if the requested string is exactly the API spelling of a file of that offset's frames, and the file read is that frame's debug-info path - the first such frame - "
             "not the request string), C09_refused_reads_nothing and C09_symbolicate_paths_accepted (every path /symbolicate/v5 reports for an offset is accepted for it). Tied to samply-api by /source/v1 requests "
             "with listed paths, paths of other offsets, arbitrary paths and many decorations/respellings, observing which locations the helper is asked to load beyond those touched by the lookup itself.",
        note="Trusted: Coq kernel; harness h_api (load log, re-implemented API spelling); the source files do not exist on disk so acceptance shows as a load attempt. "
             "Only one fixture (WriteArgument.pdb, srcsrv) has API spelling different from the raw path; the generator gives it extra weight.",
        technique="Coq proof (decision rule of the source API as a function of the lookup frames; first-match characterisation) + differential correspondence run evaluated by vm_compute",
        design="4/C07,C09"),
    "C08": dict(
        text="PARTIAL by nature. Coq theorems show, for every input, that the transcribed panic sites of samply's own code cannot fire: C08_code_id_total (CodeId/PeCodeId/ElfBuildId::from_str on arbitrary UTF-8), "
             "C08_symbolicate_total (unwrap / index / subtraction / expect sites of /symbolicate/v5), C08_breakpad_lookup_total (lookups through any index, also a stale one), C08_linebuffer_total, "
             "C08_asm_loop_total and C08_asm_read_len_total. Everything else - serde_json, nom, object, addr2line, yaxpeax, debugid on arbitrary input, and hangs - is only exercised by a robustness run "
             "(structure-aware request mutations, mutated/stale .sym and .symindex files, CodeId differential), which is fuzzing, not proof. F-C08a/b/c were found, fixed and stay in corpus/C08.",
        note="Trusted / not proved: panic-freedom and termination of the third-party parsers; the fuzz streams sample. The claim is total over the transcribed sites and sampled over the rest; "
             "hangs are only detected above a 20 s watchdog; debug build.",
        technique="Coq proof of totality for the transcribed panic sites (corollaries of the C07/C10/C13/C20 models plus a CodeId string model) + robustness run (fuzzing) for the remainder",
        category="proof",
        design="4/C08"),
    "C05": dict(
        text="Coq theorems C05_contains_and_enumerated_max (on any strictly sorted entry list a successful lookup returns start <= address < end, the entry is enumerated and no entry lies in (start, address]), "
             "C05_build_sorted (sort + dedup yields a strictly sorted list for any sources), C05_forms_agree / C05_forms_offset (relative, stated-virtual and file-offset forms give the same answer) and the "
             "jitdump analogues. Tied to samply-symbols by looking addresses up in all forms on fixture binaries (ELF, Mach-O, PE), generated ELF objects, Breakpad and jitdump files; the entry list comes from a "
             "cfg(samply_verif) hook; a property checker (containment, enumeration, name, and: any two lookups of a case that denote the same relative address - in whatever forms - were answered alike) and the model are evaluated in Coq; "
             "generated ELF files include ones whose segments are not in file-offset order; each batch is repeated from 8 threads.",
        note="Trusted: Coq kernel; the hook; demangle_any as oracle for the name clause; harness h_symbols. Not modelled: how `object` symbols are filtered into the entry list; PDB (fixtures emptied); "
             "thread-safety is exercised, not proved (the model is a pure function of the entry list).",
        technique="Coq proof (characterisation of the binary-search lookup on strictly sorted lists; insertion-sort/dedup invariants) + differential correspondence run with a property checker evaluated by vm_compute",
        design="4/C05"),
    "C06": dict(
        text="Coq theorems C06_symbol_map_id / C06_no_fallback (for every candidate list and order the symbol map returned is the first candidate carrying exactly the requested debug id; with no such candidate the "
             "request fails), C06_binary_id / C06_binary_no_fallback (the same for binaries: by debug id when given, else by code id), C06_debuglink (CRC equality), C06_supplementary (build-id equality) and "
             "C06_fat_member (with a debug id as disambiguator only a member with that id is selected, never 'the only member'). Tied to samply-symbols by running load_symbol_map / load_binary / "
             "load_symbol_map_from_location on candidate lists over every fixture format, build-id-flipped copies, generated fat archives, images inside generated dyld shared caches "
             "(CandidatePathInfo::InDyldCache; the cache holding the requested build, another build under the same install path, or no such path) and corrupted companion files, and evaluating the model on the "
             "standalone outcomes of the same candidates.",
        note="Trusted: Coq kernel; harness h_symbols (in-memory helper, own CRC32); Python's independent LC_UUID / build-id -> debug id computation. Each candidate is abstracted to its standalone outcome "
             "(which id samply itself reads from the file; for an image inside a generated shared cache: the LC_UUID the generator put there; for every ELF candidate the id is also compared with an independent reading of its GNU build-id note or, for a file without one, of the first 4096 bytes of its .text section).",
        technique="Coq proof (characterisation of the first-match candidate loops, id comparisons and fat member selection) + differential correspondence run evaluated by vm_compute",
        design="4/C06"),
    "C16": dict(
        text="Coq theorems over every event list (any number of creators, any interleaving of the protocol's file-system steps, kills at any point, failing write functions and renames): "
             "C16_atomic_visibility (the final path is absent or holds the complete contents of one successful write), C16_stable (once present it never changes), C16_at_most_once (at most one rename), "
             "C16_mutex (writers exclude each other although the lock path is unlinked on success), C16_success_sees_complete, C16_retry (after any failed/killed attempts a fresh creator succeeds). "
             "Tied to wholesym/src/file_creation.rs by running the real routine (step hook) with 2..5 creators in 1..4 processes under driver-chosen schedules with SIGKILLs and with CANCELLATIONS (a creator's future, polled by hand, is dropped at its "
             "next await that is not ready while its runtime lives on, optionally with a busy blocking pool that is released later; the model's Kill event for that creator), replaying every observed "
             "trace in the model (same step, same dest/.part/.lock contents after every step) and deciding the property on the observations; the two callers run end to end through "
             "wholesym (harness h_ws): the derived .symindex under a file-size limit that fails a write (also for indexes above 2 MiB, against an index made directly with samply-symbols), and "
             "a .sym download from a local HTTP server whose first response is cut short (inside a gzip stream, or before Content-Length bytes): the cache file is absent or complete.",
        note="Trusted: Coq kernel; the cfg(samply_verif) step hook; harness h_fc and the scheduler in vlib/c16.py; Linux flock/rename/unlink semantics as modelled (inode-based). The proof is about the "
             "model's interleaving semantics at the granularity of the hooked steps; instants inside one system call, power loss and Windows are not covered; a cancelled creator is the model's killed creator (both close the descriptors and clean nothing up).",
        technique="Coq proof (inductive invariant of an interleaving small-step semantics with inode-level locks; progress argument for the retry clause) + trace-conformance correspondence run evaluated by vm_compute",
        design="4/C16"),
    "C19": dict(
        text="Coq theorems C19_lib_roundtrip (every library record written by the serializer is read back by the pre-parser with the same debug name, debug id, paths, name, arch and code id), "
             "C19_no_code_id_still_known (a library without build id is not dropped), C19_known (after pre-parsing a profile, a request naming any of its libraries by (debugName, debugId) gets the recorded "
             "binary path as first candidate and the recorded debug path), C19_code_id_codec (printing then parsing a code id gives it back, for EVERY PE id, Mach-O UUID and ELF build id outside the ambiguous class) with C19_lib_roundtrip_unconditional, C19_code_id_refuted (witnesses for finding F-C19). The serializer's key/field table, the pre-parser's struct and its required "
             "fields are TRANSLATED from the Rust sources on every run (tools/consts.py -> Generated/Consts.v), so a renamed, dropped or newly required field breaks the proofs. Tied end to end: generated "
             "perf.data mapping ELF files -> samply import (.json/.json.gz) -> samply load -> /symbolicate/v5 for every library and used address, compared with direct lookups; plus a code-id codec differential.",
        note="Trusted: Coq kernel; tools/consts.py (regex translation of library_info.rs / profile_json_preparse.rs); the debugid crate's breakpad codec (section hypothesis); perf.data writer; h_symbols. "
             "The code-id codec is proved over the byte-level model of CodeId::from_str / Display (Model/CodeIdStr.v, LibIdentity.v), itself tied by the codec differential; it fails exactly on the class of F-C19 (open known finding). "
             "'Same function as a direct lookup' composes with C05/C06 and is observed end to end, not proved.",
        technique="Coq proof over a model whose field tables are regenerated from the source (translator) + end-to-end and codec correspondence runs evaluated by vm_compute",
        design="4/C19"),
    "C01": dict(
        text="Coq theorems over every record history (any interleaving of FORK / EXIT / COMM / EXEC / SAMPLE / MMAP records, pid/tid reuse, unannounced threads): C01_conservation (the samples flushed "
             "into the profile are, as a multiset of (thread entry, time), exactly the accepted samples: the per-process buffers, their retirement at EXIT / EXEC and the final flush lose and duplicate "
             "nothing), C01_nothing_else (every output sample stems from a SAMPLE record of a non-idle thread at its time relative to the origin), C01_idle_ignored; with --reuse-threads "
             "(Model/ConverterReuse.v: the recycling pools of processes and threads by name) C01_reuse_conservation, C01_reuse_nothing_else and C01_reuse_existing_entries (every flushed sample sits on an existing "
             "thread entry - recycled handles never dangle). Tied end to end: generated histories "
             "-> perf.data -> `samply import --save-only` -> out.json; a model-independent specification of 'accepted' decides the property on (pid, tid, time) triples and the model is compared entry by entry.",
        note="Trusted: Coq kernel; perf.data writer; linux-perf-data (parsing, per-round sorting); reading out.json back. Modelled: default options and --reuse-threads (--fold-recursive-prefix does not touch the bookkeeping; per-cpu threads are not modelled; "
             "context switches only as far as they touch the tables). Which of several incarnations of a reused (pid, tid) receives a sample is fixed by the model and compared entry by entry in the correspondence run.",
        technique="Coq proof (permutation invariant over buffer moves, induction over the record list) + end-to-end correspondence run with a specification-level oracle evaluated by vm_compute",
        design="4/C01"),
    "C17": dict(
        text="Coq theorems for every reachable converter state (C17_reachable_wf: live threads/processes always point at profile entries carrying their ids; C17_entries_stable: entries never lose their "
             "identity): C17_comm_names_thread / _entry (a COMM names the live thread and its entry), C17_comm_names_process / _entry, C17_fork_thread (a FORK opens a fresh entry starting at the FORK time "
             "and named like the forking thread), C17_exit_thread (an EXIT ends the entry at the EXIT time and retires the thread), C17_exit_main_ends_all (root of finding F-C17); frame condition: C17_reachable_keys (unique live keys), "
             "C17_frozen_thread_entry / _process_entry (an entry no live thread or process points at is never modified again), C17_exit_thread_final (after its EXIT a thread's entry - end time, name - stays "
             "exactly so under every continuation), C17_exit_main_final. Tied end to end: "
             "grammar-respecting histories -> perf.data -> samply import -> out.json, compared entry by entry (names, start/end times, main flag) with the model, and four model-free clauses of the "
             "property (last COMM shown, FORK/EXIT times as lifetimes, samples around an EXEC on different process entries, a forked thread shows the forking thread's name) decided on the output.",
        note="Trusted: as C01. The theorems are per-record effects (composition over a history is by the model run, checked end to end); the property-level oracle is partial. Default options only. "
             "F-C17 (threads with records after their main thread's EXIT) is an open known finding; a failing history of that class counts as the finding only when the output equals what the as-built model yields for it - any other outcome is reported as a violation.",
        technique="Coq proof (well-formedness invariant of the live table w.r.t. the profile entries; per-record effect theorems) + end-to-end correspondence run with a partial specification-level oracle",
        design="4/C17"),
    "C03": dict(
        text="PARTIAL (staged as planned). Coq theorems for the modelled parts: C03_intern / C03_intern_no_duplicates (interning: handle in range, gives the key back, old handles stable, no key stored twice), "
             "C03_canonical (for ANY frame list, building the stack frame by frame and walking the returned index gives the frame list back, and every prefix points to an earlier row), "
             "C03_table_indices (for ANY sequence of label frames with and without source location, native frames, native-symbol handles, already symbolicated frames with any inline depth / name / file / line, "
             "and string conversions, the frame, func, resource, native-symbol and string tables keep equal column lengths and every stored index in range), "
             "C03_stack_frames_in_range, C03_stack_same_handle, C03_finite_paths, C03_ids_unique (pid/tid strings pairwise distinct under any id reuse), C03_thread_refs (the translated index of a thread handle denotes that thread "
             "in the serialized order), C03_threads_adjacent / C03_threads_all_serialized / C03_main_thread_first (the threads of a process form one block that starts with a main thread when there is one), "
             "C03_first_thread_index (a counter's mainThreadIndex is the first thread of the process the caller named), C03_marker_fields (for ANY interleaving of schema registrations and add_marker calls, "
             "with any mix of unique-string / plain-string / number fields, serializing the marker data column never panics and gives every marker exactly the field values it was added with), "
             "C03_category_handles / C03_category_handles_in_range (for ANY sequence of handle_for_category / handle_for_subcategory calls and Category / Subcategory values passed where a frame is made, "
             "no call fails and every handle ever returned still denotes, in the final category table, the category name, colour and subcategory name its call supplied - so its indices are in range - "
             "and the table holds each (name, colour) once), C03_frame_subcategories (the frame table's category / subcategory columns only hold handles a call was given), "
             "C03_sort_permutes, C03_checker_decides (the table checker decides exactly 'all columns have the declared length, every index in range, prefix earlier'). Tied to "
             "fxprof-processed-profile by random API call sequences -> serde_json -> every table of every thread through the verified checker, walked stacks against supplied frames, thread references, "
             "id strings, thread order, counter thread indices, every marker's name and field values (static and runtime schemas), and the exact contents of the string / frame / func / resource / native-symbol tables "
             "(with the frames' category / subcategory columns and the markers' category column), meta.categories and the used-library order against the model; a walked frame only equals a supplied one when its category, colour and subcategory names and its frame flags do; stacks are also built with handle_for_stack_frames; "
             "allocation samples are walked in the thread that holds them (open finding F-C03a: for a thread that is not the first of its process the stored stack index belongs to another thread's table; a failing history of that class counts as the finding only when nothing else of the property fails on it - verdict_sans_f03a).",
        note="Trusted: Coq kernel; harness h_fxprof; vlib/c03.py (catalogue of which JSON column indexes which table; frame content ids; expected address resolution). NOT yet modelled / proved: "
             "kernel library mappings, allocation samples, counter sample columns (their ordering is C04), "
             "marker graphs and the schema JSON. For those parts the claim rests on the verified checker applied to sampled outputs, which is testing.",
        technique="Coq proof (interning and stack-table invariants, unique-suffix scheme, sort/translation contract, verified table checker) + correspondence run evaluated by vm_compute",
        category="proof",
        design="4/C03"),
}

NOT_YET = "check not built yet in this development (planned: see DESIGN.md section 4); no claim is made"

def main():
    checks = []
    na = []
    for pid in sorted(TITLES):
        if pid in CHECKS:
            c = CHECKS[pid]
            checks.append({
                "property_id": pid,
                "quick_cmd": "./check %s --tier quick" % pid,
                "thorough_cmd": "./check %s --tier thorough" % pid,
                "evidence_file": "evidence/%s.json" % pid,
                "replay_cmd_template": "./check %s --replay {path}" % pid,
                "engine": "coq+harness",
                "level_claimed": {"category": c.get("category", "proof"), "text": c["text"], "design_ref": "DESIGN.md " + c["design"]},
                "level_note": c["note"],
                "technique": c["technique"],
            })
        else:
            na.append({"property_id": pid, "reason": NA.get(pid, NOT_YET)})
    m = {
        "version": 1,
        "setup_cmd": "./setup.sh",
        "hooks": {
            "guard": "--cfg samply_verif",
            "enable": "RUSTFLAGS=\"--cfg samply_verif\" cargo build --offline (the harness workspace under /verif/harness sets it for every build)",
            "baseline_off_cmd": "cd /repo && cargo test --workspace --no-fail-fast --offline",
            "source_commits": HOOK_COMMITS,
            "add_only": True,
        },
        "engines": [
            {"name": "coq+harness", "path": "check", "serves_properties": sorted(CHECKS),
             "kind_free_text": "Coq 8.16.1 development under coq/ (models, specifications, proofs, pinned property theorems) + Rust harness crates under harness/ "
                               "with path dependencies into /repo + Python driver (vlib/) that evaluates model and specification on the implementation's outputs inside coqc"}],
        "checks": checks,
        "not_applicable": na,
        "notes": "Every check regenerates coq/Generated/Consts.v from /repo, rebuilds its Coq cone and its harness from /repo's working tree, and writes evidence/<id>.json.",
    }
    with open(os.path.join(V, "MANIFEST.json"), "w") as f:
        json.dump(m, f, indent=1)
        f.write("\n")

NA = {}
HOOK_COMMITS = ["c502d39b", "1e70e941", "ee3e45a2"]

if __name__ == "__main__":
    main()
