# Translator: fxprof-processed-profile/src/lib_mappings.rs  ->  coq/Generated/LibMappingsGen.v     (C11, and the table underneath C02)
#
# The methods of `impl<T> LibMappings<T>` are parsed (the Rust subset of that file: let with or without a type, `if let Some(x) = e { .. } else { .. }`
# as a value, `?`, ranges `a..b` and `..=a`, one-argument closures, `for k in v { .. }`, method chains on `self.map`, struct literals, casts to u32,
# u64 / u32 arithmetic) and re-emitted as Gallina over the association-list model of the BTreeMap (Model/LibMappings.v: bt_last_le, bt_range_keys,
# bt_remove, bt_insert - the map operations themselves are the trusted reading of std's BTreeMap, everything around them is translated):
#   g_lookup_impl, g_add_mapping (None = the panic of BTreeMap::range on an inverted range), g_remove_mapping (new map, removed entry),
#   g_convert_address (with the u32 overflow flag of the addition), g_lookup, g_clear.
# Proofs/LibMappingsGenProofs.v proves each of them equal to the hand-written model function the C11 theorems are stated over.
import re
import xlate_fl as F

XlateError = F.XlateError


class P(F.P):
    """xlate_fl's parser plus ranges, closures, `for`, `as` casts and typed lets"""

    def expr(self, nostruct=False):
        if self.peek() == "..":
            # ..=a  /  ..a
            self.eat("..")
            incl = False
            if self.peek() == "=":
                self.eat("=")
                incl = True
            hi = F.P.expr(self, nostruct)
            return ("range", None, hi, incl)
        a = F.P.expr(self, nostruct)
        if self.peek() == "..":
            self.eat("..")
            incl = False
            if self.peek() == "=":
                self.eat("=")
                incl = True
            hi = F.P.expr(self, nostruct)
            return ("range", a, hi, incl)
        return a

    def unary(self, nostruct):
        e = F.P.unary(self, nostruct)
        while self.peek() == "as":
            self.eat("as")
            ty = self.eat()
            e = ("cast", e, ty)
        return e

    def atom(self, nostruct):
        if self.peek() == "|":
            raise XlateError("closure syntax reached atom() unexpectedly")
        return F.P.atom(self, nostruct)

    def args(self):
        self.eat("(")
        a = []
        while self.peek() != ")":
            if self.peek() == "|":
                a.append(self.closure())
            else:
                a.append(self.expr())
            if self.peek() == ",":
                self.eat(",")
        self.eat(")")
        return a

    def closure(self):
        self.eat("|")
        if self.peek() == "(":
            self.eat("(")
            pats = []
            while self.peek() != ")":
                pats.append(self.eat())
                if self.peek() == ",":
                    self.eat(",")
            self.eat(")")
        else:
            pats = [self.eat()]
        self.eat("|")
        if self.peek() == "{":
            bs, bt = self.block()
            if bs or bt is None:
                raise XlateError("a closure body with statements is not understood")
            return ("closure", pats, bt)
        return ("closure", pats, self.expr())

    def block(self):
        self.eat("{")
        stmts, tail = [], None
        while self.peek() != "}":
            v = self.peek()
            if v == "let":
                self.eat("let")
                if self.peek() == "(":
                    # let (a, b) = e;
                    self.eat("(")
                    names = []
                    while self.peek() != ")":
                        names.append(self.eat())
                        if self.peek() == ",":
                            self.eat(",")
                    self.eat(")")
                    name = tuple(names)
                else:
                    name = self.eat()
                if self.peek() == ":":
                    self.eat(":")
                    depth = 0
                    while not (self.peek() == "=" and depth == 0):
                        t = self.eat()
                        depth += {"<": 1, ">": -1}.get(t, 0)
                self.eat("=")
                e = self.expr()
                self.eat(";")
                stmts.append(("let", name, e))
            elif v == "return":
                self.eat("return")
                e = self.expr()
                self.eat(";")
                stmts.append(("return", e))
            elif v == "for":
                self.eat("for")
                var = self.eat()
                self.eat("in")
                it = self.expr(nostruct=True)
                b = self.block()
                stmts.append(("for", var, it, b))
            else:
                e = self.expr()
                if self.peek() == ";":
                    self.eat(";")
                    stmts.append(("exprstmt", e))
                elif e[0] in ("if", "iflet") and self.peek() != "}":
                    stmts.append(("exprstmt", e))
                else:
                    tail = e
                    if self.peek() != "}":
                        raise XlateError("tail expression not at the end of the block")
        self.eat("}")
        return (stmts, tail)


TOKEN = re.compile(r'\s*("(?:[^"\\]|\\.)*"|=>|\+=|-=|>=|<=|==|!=|::|\.\.|->|&&|\|\||[A-Za-z_][A-Za-z_0-9]*|\d[\d_]*|[{}()\[\];,=+\-*/<>&.!:?\'|])')


def tokenize(s):
    out, i = [], 0
    while i < len(s):
        m = TOKEN.match(s, i)
        if not m:
            if s[i:].strip() == "":
                break
            raise XlateError("cannot tokenize near: %r" % s[i:i + 30])
        out.append(m.group(1))
        i = m.end()
    return out


SELF_MAP = ("field", ("var", "self"), "map")
FIELD = {"start_avma": "m_start", "end_avma": "m_end", "relative_address_at_start": "m_rel", "value": "m_val"}


class Gen:
    def __init__(self):
        self.n = 0

    def fresh(self, p):
        self.n += 1
        return "%s%d_" % (p, self.n)

    def pure(self, e, env):
        """N-valued (or mapping-valued) expression without effects.  env: Rust name -> ("n" | "map" | "keys", Coq term)"""
        k = e[0]
        if k == "num":
            return str(e[1])
        if k == "var":
            if e[1] in env:
                return env[e[1]][1]
            raise XlateError("variable %s not understood" % e[1])
        if k == "field" and e[1][0] == "var" and e[1][1] in env and env[e[1][1]][0] == "map" and e[2] in FIELD:
            return "(%s %s)" % (FIELD[e[2]], env[e[1][1]][1])
        if k == "bin":
            a, b = self.pure(e[2], env), self.pure(e[3], env)
            if e[1] == "-":
                return "(%s - %s)" % (a, b)          # callers state where this cannot underflow (avma >= start of the mapping found at or before it)
            if e[1] == "+":
                return "(%s + %s)" % (a, b)
            raise XlateError("operator %s not understood" % e[1])
        if k == "cast" and e[2] == "u32":
            return "(%s mod two32)" % self.pure(e[1], env)
        if k == "cmp":
            a, b = self.pure(e[2], env), self.pure(e[3], env)
            return {"<": "(%s <? %s)" % (a, b), ">": "(%s <? %s)" % (b, a), "<=": "(%s <=? %s)" % (a, b), ">=": "(%s <=? %s)" % (b, a), "==": "(%s =? %s)" % (a, b)}[e[1]]
        raise XlateError("expression %r not understood" % (e,))

    # ---- lookup_impl ----
    def gen_lookup_impl(self, blk, param):
        stmts, tail = blk
        if len(stmts) != 1 or stmts[0][0] != "let" or not isinstance(stmts[0][1], tuple) or len(stmts[0][1]) != 2:
            raise XlateError("lookup_impl: expected `let (_k, m) = self.map.range(..=avma).next_back()?;`")
        _, (kname, mname), e = stmts[0]
        want = ("try", ("mcall", ("mcall", SELF_MAP, "range", [("range", None, ("var", param), True)]), "next_back", []))
        if e != want:
            raise XlateError("lookup_impl: the entry must come from self.map.range(..=%s).next_back()?" % param)
        if not (tail and tail[0] == "if" and tail[3] is not None):
            raise XlateError("lookup_impl: expected `if c { Some(m) } else { None }`")
        env = {param: ("n", "a"), mname: ("map", "y")}
        c = self.pure(tail[1], env)
        th, el = tail[2], tail[3]
        if th != ([], ("call", "Some", None, [("var", mname)])) or el != ([], ("var", "None")):
            raise XlateError("lookup_impl: the branches must be Some(%s) and None" % mname)
        return ("Definition g_lookup_impl (m : lm) (a : N) : option mapping :=\n  match bt_last_le m a with\n  | Some y => if %s then Some y else None\n  | None => None\n  end." % c)

    # ---- add_mapping ----
    def gen_add_mapping(self, blk, params):
        if params != ["start_avma", "end_avma", "relative_address_at_start", "value"]:
            raise XlateError("add_mapping: parameters changed: %s" % params)
        env = {"start_avma": ("n", "(m_start x)"), "end_avma": ("n", "(m_end x)"), "relative_address_at_start": ("n", "(m_rel x)"), "value": ("n", "(m_val x)")}
        stmts, tail = blk
        if tail is not None:
            raise XlateError("add_mapping returns nothing")
        lines = []
        cur = "m"
        for st in stmts:
            if st[0] == "let" and st[2][0] == "iflet":
                e = st[2]
                pat, scrut, th, el = e[1], e[2], e[3], e[4]
                if not (pat[0] == "ctor" and pat[1] == "Some" and scrut[0] == "mcall" and scrut[1] == ("var", "self") and scrut[2] == "lookup_impl" and len(scrut[3]) == 1 and el is not None):
                    raise XlateError("add_mapping: expected `if let Some(y) = self.lookup_impl(a) { .. } else { .. }`")
                if th[0] or el[0]:
                    raise XlateError("add_mapping: statements inside the if-let branches are not understood")
                y = self.fresh("y")
                env2 = dict(env)
                env2[pat[2][0]] = ("map", y)
                lines.append("let %s := match g_lookup_impl %s %s with Some %s => %s | None => %s end in" % (st[1], cur, self.pure(scrut[3][0], env), y, self.pure(th[1], env2), self.pure(el[1], env)))
                env[st[1]] = ("n", st[1])
            elif st[0] == "let" and st[2][0] == "mcall" and st[2][2] == "collect":
                ch = st[2][1]
                if not (ch[0] == "mcall" and ch[2] == "map" and len(ch[3]) == 1 and ch[3][0][0] == "closure" and len(ch[3][0][1]) == 2
                        and ch[3][0][2] == ("var", ch[3][0][1][0]) and ch[1][0] == "mcall" and ch[1][1] == SELF_MAP and ch[1][2] == "range"
                        and len(ch[1][3]) == 1 and ch[1][3][0][0] == "range" and ch[1][3][0][1] is not None and not ch[1][3][0][3]):
                    raise XlateError("add_mapping: expected self.map.range(lo..hi).map(|(k, _)| *k).collect()")
                lo, hi = self.pure(ch[1][3][0][1], env), self.pure(ch[1][3][0][2], env)
                # BTreeMap::range panics on an inverted range (start > end)
                lines.append("if %s <? %s then None else" % (hi, lo))
                lines.append("let %s := bt_range_keys %s %s %s in" % (st[1], cur, lo, hi))
                env[st[1]] = ("keys", st[1])
            elif st[0] == "for":
                var, it, (bs, bt) = st[1], st[2], st[3]
                want = [("exprstmt", ("mcall", SELF_MAP, "remove", [("var", var)]))]
                if not (it[0] == "var" and it[1] in env and env[it[1]][0] == "keys" and bs == want and bt is None):
                    raise XlateError("add_mapping: expected `for key in keys { self.map.remove(&key); }`")
                nm = self.fresh("m")
                lines.append("let %s := fold_left bt_remove %s %s in" % (nm, env[it[1]][1], cur))
                cur = nm
            elif st[0] == "exprstmt" and st[1][0] == "mcall" and st[1][1] == SELF_MAP and st[1][2] == "insert":
                k_, v_ = st[1][3]
                if not (v_[0] == "struct" and v_[1] == "Mapping" and sorted(dict(v_[2])) == sorted(FIELD)):
                    raise XlateError("add_mapping: the inserted value must be a Mapping { start_avma, end_avma, relative_address_at_start, value }")
                fs = dict(v_[2])
                mk = "(mkMapping %s %s %s %s)" % tuple(self.pure(fs[f], env) for f in ("start_avma", "end_avma", "relative_address_at_start", "value"))
                if self.pure(k_, env) != self.pure(fs["start_avma"], env):
                    raise XlateError("add_mapping: the key of the inserted entry is not its start_avma")
                nm = self.fresh("m")
                lines.append("let %s := bt_insert %s %s in" % (nm, cur, mk))
                cur = nm
            else:
                raise XlateError("add_mapping: statement %r not understood" % (st[0],))
        lines.append("Some %s" % cur)
        return "Definition g_add_mapping (m : lm) (x : mapping) : option lm :=\n  " + "\n  ".join(lines) + "."

    # ---- remove_mapping ----
    def gen_remove_mapping(self, blk, params):
        stmts, tail = blk
        if stmts or params != ["start_avma"]:
            raise XlateError("remove_mapping: shape changed")
        want_inner = ("mcall", SELF_MAP, "remove", [("var", "start_avma")])
        if not (tail and tail[0] == "mcall" and tail[1] == want_inner and tail[2] == "map" and len(tail[3]) == 1 and tail[3][0][0] == "closure" and len(tail[3][0][1]) == 1):
            raise XlateError("remove_mapping: expected self.map.remove(&start_avma).map(|m| (..))")
        mv = tail[3][0][1][0]
        body = tail[3][0][2]
        if not (body[0] == "tuple" and len(body[1]) == 2):
            raise XlateError("remove_mapping: the result must be a pair")
        env = {mv: ("map", "y")}
        a, b = self.pure(body[1][0], env), self.pure(body[1][1], env)
        return ("Definition g_remove_mapping (m : lm) (s : N) : lm * option (N * N) :=\n"
                "  (bt_remove m s, match find (fun y => m_start y =? s) m with Some y => Some (%s, %s) | None => None end)." % (a, b))

    # ---- convert_address ----
    def gen_convert_address(self, blk, params):
        stmts, tail = blk
        if params != ["avma"]:
            raise XlateError("convert_address: parameters changed")
        env = {"avma": ("n", "a")}
        lines = []
        have = False
        for st in stmts:
            if st[0] != "let":
                raise XlateError("convert_address: statement %r not understood" % (st[0],))
            if st[2] == ("try", ("mcall", ("var", "self"), "lookup_impl", [("var", "avma")])):
                env[st[1]] = ("map", "y")
                have = True
            else:
                e = st[2]
                if e[0] == "bin" and e[1] == "+":
                    # u32 + u32: the sum is kept unreduced under its name (the overflow flag needs it)
                    lines.append("let %s := %s in" % (st[1], self.pure(e, env)))
                    env[st[1]] = ("sum", st[1])
                else:
                    lines.append("let %s := %s in" % (st[1], self.pure(e, env)))
                    env[st[1]] = ("n", st[1])
        if not have:
            raise XlateError("convert_address: no self.lookup_impl(avma)?")
        if not (tail and tail[0] == "call" and tail[1] == "Some" and len(tail[3]) == 1 and tail[3][0][0] == "tuple" and len(tail[3][0][1]) == 2):
            raise XlateError("convert_address: the result must be Some((relative_address, &value))")
        r, v = tail[3][0][1]
        if not (r[0] == "var" and r[1] in env and env[r[1]][0] == "sum"):
            raise XlateError("convert_address: the relative address must be the sum of two u32 values")
        body = "\n      ".join(lines + ["Some (%s mod two32, %s, two32 <=? %s)" % (r[1], self.pure(v, env), r[1])])
        return "Definition g_convert_address (m : lm) (a : N) : option (N * N * bool) :=\n  match g_lookup_impl m a with\n  | Some y =>\n      %s\n  | None => None\n  end." % body


def parse_fns(src):
    src = F.strip(src)
    src = re.sub(r"#\[cfg\(test\)\]\s*mod test \{.*\Z", "", src, flags=re.S)
    src = re.sub(r"///[^\n]*", "", src)
    m = re.search(r"impl<T> LibMappings<T> \{", src)
    if not m:
        raise XlateError("impl<T> LibMappings<T> not found")
    end = F.find_block(src, m.end() - 1)
    body = src[m.end():end]
    fns = {}
    for fm in re.finditer(r"(?:pub )?fn (\w+)\s*\(([^)]*)\)\s*(?:->\s*([^{]+?))?\s*\{", body):
        name = fm.group(1)
        params = [p.split(":")[0].strip() for p in fm.group(2).split(",") if p.strip() and "self" not in p.split(":")[0]]
        i = fm.end() - 1
        j = F.find_block(body, i)
        p = P(tokenize(body[i:j + 1]))
        blk = p.block()
        if p.peek() is not None:
            raise XlateError("trailing tokens in fn %s" % name)
        fns[name] = (params, blk)
    return fns, src


def generate(src):
    fns, stripped = parse_fns(src)
    need = ["new", "add_mapping", "remove_mapping", "clear", "lookup", "lookup_impl", "convert_address"]
    for n in need:
        if n not in fns:
            raise XlateError("fn %s not found in impl<T> LibMappings<T>" % n)
    extra = sorted(set(fns) - set(need))
    if extra:
        raise XlateError("impl<T> LibMappings<T> has methods the translator does not know: %s" % ", ".join(extra))
    if not re.search(r"map:\s*BTreeMap<u64,\s*Mapping<T>>", stripped):
        raise XlateError("the table is no longer a BTreeMap<u64, Mapping<T>>")
    g = Gen()
    li = g.gen_lookup_impl(fns["lookup_impl"][1], fns["lookup_impl"][0][0])
    am = g.gen_add_mapping(fns["add_mapping"][1], fns["add_mapping"][0])
    rm = g.gen_remove_mapping(fns["remove_mapping"][1], fns["remove_mapping"][0])
    ca = g.gen_convert_address(fns["convert_address"][1], fns["convert_address"][0])
    # the three one-liners
    if fns["new"][1] != ([], ("struct", "Self", [("map", ("call", "BTreeMap::new", None, []))])):
        raise XlateError("new: expected Self { map: BTreeMap::new() }")
    if fns["clear"][1] != ([("exprstmt", ("mcall", SELF_MAP, "clear", []))], None):
        raise XlateError("clear: expected self.map.clear();")
    lk = fns["lookup"][1]
    want = ("mcall", ("mcall", ("var", "self"), "lookup_impl", [("var", fns["lookup"][0][0])]), "map", None)
    if not (lk[0] == [] and lk[1] and lk[1][0] == "mcall" and lk[1][1] == want[1] and lk[1][2] == "map" and len(lk[1][3]) == 1 and lk[1][3][0][0] == "closure"
            and lk[1][3][0][2] == ("field", ("var", lk[1][3][0][1][0]), "value")):
        raise XlateError("lookup: expected self.lookup_impl(avma).map(|m| &m.value)")
    out = ["(* GENERATED by tools/xlate_lm.py from fxprof-processed-profile/src/lib_mappings.rs on every run.  Do not edit. *)",
           "From SV Require Import Model.LibMappings.", "Open Scope N_scope.", "",
           li, "", am, "", rm, "", ca, "",
           "Definition g_lookup (m : lm) (a : N) : option N := option_map m_val (g_lookup_impl m a).", "",
           "Definition g_lm_new : lm := [].", "Definition g_lm_clear (m : lm) : lm := [].", ""]
    return "\n".join(out)


if __name__ == "__main__":
    import sys
    print(generate(open(sys.argv[1] if len(sys.argv) > 1 else "/repo/fxprof-processed-profile/src/lib_mappings.rs").read()))
