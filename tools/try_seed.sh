#!/bin/bash
# usage: tools/try_seed.sh <Cxx> <name> [seed]  — applies seeded/<name>/patch.diff (or patch_adapted.diff) to /repo, runs ./check <Cxx>, undoes the patch, keeps the evidence file of the clean tree
P=$1; NAME=$2; export VERIF_SEED=${3:-1}
cd /verif
PATCH=/verif/seeded/$NAME/patch.diff; [ -f /verif/seeded/$NAME/patch_adapted.diff ] && PATCH=/verif/seeded/$NAME/patch_adapted.diff
cp evidence/$P.json /tmp/ev_try_$P.json 2>/dev/null
git -C /repo apply $PATCH || exit 2
./check $P > /tmp/try_$NAME.log 2>&1; rc=$?
git -C /repo checkout -- .
cp /tmp/ev_try_$P.json evidence/$P.json 2>/dev/null
echo "$NAME rc=$rc"; grep -E "^(VIOLATION|KNOWN-FINDING|CHECK-ERROR)" /tmp/try_$NAME.log | head -4
