#!/bin/bash
# usage: tools/confirm_seed.sh <Cxx> [name] ["cargo test args of an in-tree demonstration (demo.diff)"]  — confirms an agent-made seeded defect in its scratch worktree, runs the check against it in /repo,
# records it under /verif/seeded/<name>/ and cleans the worktree up.
set -u
P=$1; NAME=${2:-$P}; WT=/tmp/wt_$NAME; SO=/tmp/seed_out/$NAME; OUT=/verif/seeded/$NAME
export CARGO_NET_OFFLINE=true
PHASE=${PHASE:-AB}      # A: the worktree part only (demo with / without, suite) - can run for several seeds in parallel; B: the /repo part only (serial)
mkdir -p $OUT
if [ "$PHASE" != "B" ]; then
cd $WT || exit 1
git diff > /tmp/cur_$NAME.diff
if ! diff -q /tmp/cur_$NAME.diff $SO/patch.diff >/dev/null; then echo "NOTE: worktree diff differs from patch.diff; re-applying"; git checkout -- . ; git apply $SO/patch.diff || exit 1; fi
DEMO=$SO/demo
DEMOARGS=${3:-}
# untracked files an agent left in the worktree (e.g. its demonstration test) must not take part in the suite run
git ls-files --others --exclude-standard | while read f; do rm -f "$f"; done
run_demo() {
  if [ -f $SO/demo.diff ] && [ ! -d $DEMO ]; then
    (cd $WT && git apply $SO/demo.diff && { timeout 2400 cargo test --offline $DEMOARGS 2>&1 | tail -25; }; git apply -R $SO/demo.diff)
  elif [ -f $DEMO/run_demo.sh ]; then (cd $DEMO && WT=$WT timeout 1800 bash ./run_demo.sh > /tmp/demo_$NAME.out 2>&1; rc=$?; tail -15 /tmp/demo_$NAME.out; echo "DEMO-EXIT=$rc")
  else (cd $DEMO && timeout 1200 cargo test --offline 2>&1 | tail -15); fi; }
echo "== demo WITH patch (expect failure)"; run_demo > $OUT/demo_with.log; grep -E "test result|FAILED|failed|DEMO-EXIT" $OUT/demo_with.log | head -5
echo "== full suite WITH patch"; timeout 3000 cargo test --workspace --no-fail-fast --offline > /tmp/suite_$NAME.log 2>&1
grep -E "^test .*\.\.\. FAILED" /tmp/suite_$NAME.log | sort > $OUT/suite_failed.txt
grep -c "\.\.\. ok" /tmp/suite_$NAME.log; cat $OUT/suite_failed.txt | wc -l; cat $OUT/suite_failed.txt
rm -f fixtures/snapshots/output-*.txt
echo "== demo WITHOUT patch (expect pass)"; git apply -R $SO/patch.diff; run_demo > $OUT/demo_without.log; grep -E "test result|FAILED|failed|DEMO-EXIT" $OUT/demo_without.log | head -5; git apply $SO/patch.diff
cp $SO/patch.diff $OUT/patch.diff; cp $SO/notes.md $OUT/notes.md 2>/dev/null
rm -rf $OUT/demo; mkdir -p $OUT/demo
if [ -d $DEMO ]; then (cd $DEMO && tar cf - --exclude target --exclude Cargo.lock . ) | tar xf - -C $OUT/demo; else cp $SO/demo.diff $SO/*.rs $OUT/demo/ 2>/dev/null; echo "git apply demo.diff; cargo test --offline $DEMOARGS" > $OUT/demo/COMMAND; fi
fi   # PHASE A
if [ "$PHASE" = "A" ]; then exit 0; fi
echo "== check against /repo with the patch"
cd /verif
PATCH=$SO/patch.diff; if [ -f $SO/patch_adapted.diff ]; then PATCH=$SO/patch_adapted.diff; cp $PATCH $OUT/patch_adapted.diff; fi
cp evidence/$P.json /tmp/ev_$P.json 2>/dev/null
git -C /repo apply $PATCH && { ./check $P > $OUT/check_with_patch.log 2>&1; echo "check rc=$?"; grep -E "VIOLATION|KNOWN|CHECK-ERROR" $OUT/check_with_patch.log | head; }
git -C /repo checkout -- .
cp /tmp/ev_$P.json evidence/$P.json 2>/dev/null; rm -f /tmp/ev_$P.json   # the evidence file of a run against a patched tree is not kept

python3 - "$P" "$NAME" <<'PY'
import json,sys,os,re
P,NAME=sys.argv[1:3]; OUT='/verif/seeded/'+NAME
def rd(f):
    try: return open(os.path.join(OUT,f)).read()
    except: return ''
failed=[l.split()[1] for l in rd('suite_failed.txt').splitlines() if l.strip()]
chk=rd('check_with_patch.log')
meta={"property":P,"name":NAME,
 "source":"fresh sub-agent given only the property text and a scratch worktree",
 "needs_to_manifest": (re.search(r"(?is)(what it takes to trigger|condition[s]? needed|when it shows up|how it manifests|manifest)[^\n]*\n(.{0,600})", rd('notes.md')) or [None,None,"see notes.md"])[2].strip()[:600],
 "confirmed":{"demo_fails_with_patch": "FAILED" in rd('demo_with.log') or "panicked" in rd('demo_with.log') or bool(re.search(r"DEMO-EXIT=[1-9]", rd('demo_with.log'))),
              "demo_passes_without_patch": ("test result: ok" in rd('demo_without.log') and "FAILED" not in rd('demo_without.log')) or "DEMO-EXIT=0" in rd('demo_without.log'),
              "suite_failures_with_patch": failed, "suite_only_known_8_fail": len(failed)==8},
 "ran":["cargo test --offline in the demonstration crate with and without the patch (scratch worktree)",
        "cargo test --workspace --no-fail-fast --offline in the patched scratch worktree",
        "git -C /repo apply patch.diff; ./check %s; git -C /repo checkout -- ."%P],
 "check_result":{"detected": "VIOLATION property=%s"%P in chk, "lines":[l for l in chk.splitlines() if l.startswith(("VIOLATION","KNOWN-FINDING","CHECK-ERROR"))][:5]}}
json.dump(meta,open(os.path.join(OUT,'meta.json'),'w'),indent=1)
print(json.dumps(meta["confirmed"]), meta["check_result"])
PY
