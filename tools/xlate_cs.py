# Translator: samply/src/shared/context_switch.rs  ->  coq/Generated/ContextSwitchGen.v
#
# The methods of `impl ContextSwitchHandler` are parsed (a small Rust subset: let, match on thread.state, field updates, `if .. { return None; }`,
# debug_assert!, u64 arithmetic, the OffCpuSampleGroup literal) and re-emitted as Gallina functions over the record `cs` of Model/ContextSwitch.v.
# u64 subtraction, division and the debug asserts raise the `bad` flag exactly where the Rust code would panic in a debug build.
# Proofs/ContextSwitchGenProofs.v then proves the emitted functions equal to the hand-written model the C12 theorems are stated over, so a
# change to the Rust source that changes what it computes breaks a proof obligation (and one the translator cannot read is an extraction error).
import re


class XlateError(Exception):
    pass


FIELDS = {"state": "st", "on_cpu_duration_since_last_sample": "on_acc", "off_cpu_duration_since_last_off_cpu_sample": "off_acc"}
TOKEN = re.compile(r"\s*(=>|\+=|-=|>=|<=|==|::|\.\.|[A-Za-z_][A-Za-z_0-9]*|\d[\d_]*|[{}()\[\];,=+\-*/<>&.!:])")


def strip_comments(src):
    return re.sub(r"//[^\n]*", "", src)


def tokenize(s):
    out, i = [], 0
    while i < len(s):
        m = TOKEN.match(s, i)
        if not m:
            if s[i:].strip() == "":
                break
            raise XlateError("cannot tokenize near: %r" % s[i:i + 30])
        out.append(m.group(1))
        i = m.end()
    return out


class P:
    def __init__(self, toks):
        self.t, self.i = toks, 0

    def peek(self, k=0):
        return self.t[self.i + k] if self.i + k < len(self.t) else None

    def eat(self, x=None):
        v = self.peek()
        if v is None or (x is not None and v != x):
            raise XlateError("expected %r, found %r (token %d)" % (x, v, self.i))
        self.i += 1
        return v

    def path(self):
        """ident(::ident)* with .field suffixes, returned as one string"""
        s = self.eat()
        if not re.match(r"[A-Za-z_]", s):
            raise XlateError("identifier expected, found %r" % s)
        while self.peek() in ("::", "."):
            s += self.eat()
            s += self.eat()
        return s

    # ---- expressions ----
    def expr(self):
        a = self.arith()
        if self.peek() in ("<", ">=", "<=", ">", "=="):
            op = self.eat()
            b = self.arith()
            return ("cmp", op, a, b)
        return a

    def arith(self):
        a = self.term()
        while self.peek() in ("+", "-"):
            op = self.eat()
            a = ("bin", op, a, self.term())
        return a

    def term(self):
        a = self.atom()
        while self.peek() in ("*", "/"):
            op = self.eat()
            a = ("bin", op, a, self.atom())
        return a

    def atom(self):
        v = self.peek()
        if v == "(":
            self.eat("(")
            e = self.expr()
            self.eat(")")
            return e
        if v == "&":
            self.eat("&")
            if self.peek() == "mut":
                self.eat()
            return self.atom()
        if v is not None and re.match(r"\d", v):
            return ("num", int(self.eat().replace("_", "")))
        if v == "match":
            return self.match()
        p = self.path()
        if self.peek() == "(":
            self.eat("(")
            args = []
            while self.peek() != ")":
                args.append(self.expr())
                if self.peek() == ",":
                    self.eat(",")
            self.eat(")")
            return ("call", p, args)
        if self.peek() == "{" and re.match(r"[A-Z]", p.split("::")[-1]) and p != "thread.state":
            self.eat("{")
            fields = []
            while self.peek() != "}":
                k = self.eat()
                if self.peek() == ":":
                    self.eat(":")
                    fields.append((k, self.expr()))
                else:
                    fields.append((k, ("var", k)))
                if self.peek() == ",":
                    self.eat(",")
            self.eat("}")
            return ("struct", p, fields)
        return ("var", p)

    def match(self):
        self.eat("match")
        if self.peek() == "&":
            self.eat("&")
        scrut = self.path()
        if scrut != "thread.state":
            raise XlateError("only `match thread.state` is understood, found match %s" % scrut)
        self.eat("{")
        arms = []
        while self.peek() != "}":
            pat = self.path()
            binder = None
            if self.peek() == "{":
                self.eat("{")
                if self.peek() == "..":
                    self.eat("..")
                else:
                    binder = self.eat()
                    if self.peek() == ",":
                        self.eat(",")
                self.eat("}")
            self.eat("=>")
            body = self.block()
            if self.peek() == ",":
                self.eat(",")
            arms.append((pat, binder, body))
        self.eat("}")
        return ("match", arms)

    # ---- statements ----
    def block(self):
        self.eat("{")
        stmts, tail = [], None
        while self.peek() != "}":
            v = self.peek()
            if v == "let":
                self.eat("let")
                name = self.eat()
                self.eat("=")
                e = self.expr()
                self.eat(";")
                stmts.append(("let", name, e))
            elif v == "if":
                self.eat("if")
                c = self.expr()
                b = self.block()
                if b != ([("return", ("var", "None"))], None):
                    raise XlateError("only `if c { return None; }` is understood")
                stmts.append(("ifret", c))
            elif v == "return":
                self.eat("return")
                e = self.expr()
                self.eat(";")
                stmts.append(("return", e))
            elif v in ("debug_assert", "debug_assert_eq"):
                kind = self.eat()
                self.eat("!")
                self.eat("(")
                a = self.expr()
                b = None
                if kind == "debug_assert_eq":
                    self.eat(",")
                    b = self.expr()
                self.eat(")")
                self.eat(";")
                stmts.append(("assert", a, b))
            elif v == "match":
                m = self.match()
                if self.peek() == ";":
                    self.eat(";")
                stmts.append(("matchstmt", m))
            else:
                e = self.expr()
                if self.peek() in ("=", "+="):
                    op = self.eat()
                    rhs = self.expr()
                    self.eat(";")
                    if e[0] != "var" or not e[1].startswith("thread."):
                        raise XlateError("assignment to %r not understood" % (e,))
                    stmts.append(("assign", e[1][len("thread."):], op, rhs))
                elif self.peek() == ";":
                    self.eat(";")
                    stmts.append(("exprstmt", e))
                else:
                    tail = e
                    if self.peek() != "}":
                        raise XlateError("tail expression not at the end of the block")
        self.eat("}")
        return (stmts, tail)


def parse_impl(src):
    src = strip_comments(src)
    m = re.search(r"impl ContextSwitchHandler \{", src)
    if not m:
        raise XlateError("impl ContextSwitchHandler not found")
    # the impl block ends at the first line that is just "}"
    end = src.index("\n}\n", m.end())
    body = src[m.end():end]
    fns = {}
    for fm in re.finditer(r"(?:pub )?fn (\w+)\s*\(([^)]*)\)\s*(?:->\s*([^{]+?))?\s*\{", body):
        name, params, ret = fm.group(1), fm.group(2), (fm.group(3) or "").strip()
        # find the matching brace
        i = fm.end() - 1
        depth = 0
        j = i
        while True:
            if body[j] == "{":
                depth += 1
            elif body[j] == "}":
                depth -= 1
                if depth == 0:
                    break
            j += 1
        toks = tokenize(body[i:j + 1])
        p = P(toks)
        blk = p.block()
        if p.peek() is not None:
            raise XlateError("trailing tokens in fn %s" % name)
        fns[name] = (params, ret, blk)
    return fns


# ---------------- code generation ----------------
class Gen:
    def __init__(self):
        self.n = 0

    def fresh(self, p):
        self.n += 1
        return "%s%d" % (p, self.n)

    def expr(self, e, s, binds, flags):
        """returns a Coq term; `binds` collects let-bindings (strings), `flags` the panic conditions (Coq bool terms)"""
        k = e[0]
        if k == "num":
            return str(e[1])
        if k == "var":
            v = e[1]
            if v.startswith("thread."):
                f = v[len("thread."):]
                if f not in FIELDS or f == "state":
                    raise XlateError("read of thread.%s not understood" % f)
                return "(%s %s)" % (FIELDS[f], s)
            if v == "self.off_cpu_sampling_interval_ns":
                return "I"
            if v == "timestamp":
                return "t"
            if re.fullmatch(r"[a-z_][a-z_0-9]*", v):
                return "v_" + v
            raise XlateError("variable %s not understood" % v)
        if k == "bin":
            a = self.expr(e[2], s, binds, flags)
            b = self.expr(e[3], s, binds, flags)
            if e[1] == "+":
                return "(%s + %s)" % (a, b)
            if e[1] == "*":
                return "(%s * %s)" % (a, b)
            x, u = self.fresh("x"), self.fresh("u")
            binds.append("let '(%s, %s) := %s %s %s in" % (x, u, "csub" if e[1] == "-" else "cdiv", a, b))
            flags.append(u)
            return x
        if k == "cmp":
            a = self.expr(e[2], s, binds, flags)
            b = self.expr(e[3], s, binds, flags)
            return {"<": "(%s <? %s)", ">=": "(%s <=? %s)", "<=": "(%s <=? %s)", ">": "(%s <? %s)", "==": "(%s =? %s)"}[e[1]] % ((a, b) if e[1] in ("<", "<=", "==") else (b, a))
        raise XlateError("expression %r not understood" % (e,))

    def state_expr(self, e, s, binds, flags):
        if e[0] != "struct":
            raise XlateError("thread.state must be assigned a ThreadState literal")
        name = e[1].split("::")[-1]
        if name == "Unknown":
            return "Unknown"
        if name in ("On", "Off") and len(e[2]) == 1:
            return "(%s %s)" % (name, self.expr(e[2][0][1], s, binds, flags))
        raise XlateError("state literal %s not understood" % e[1])

    def upd(self, s, field=None, val=None, flags=()):
        g = lambda f: val if f == field else "(%s %s)" % (f, s)
        bad = "(bad %s)" % s
        for f in flags:
            bad = "(%s || %s)" % (bad, f)
        return "(mkCs %s %s %s %s)" % (g("st"), g("on_acc"), g("off_acc"), bad)

    def value(self, e, s, binds, flags):
        """a value of type `out`, possibly with a new state: returns (state term, out term)"""
        if e == ("var", "None"):
            return s, "ONothing"
        if e[0] == "var" and re.fullmatch(r"[a-z_]+", e[1]):
            return s, "v_" + e[1]
        if e[0] == "call" and e[1] == "self.maybe_consume_off_cpu":
            r = self.fresh("r")
            binds.append("let %s := g_maybe_consume_off_cpu I t %s in" % (r, s))
            return "(fst %s)" % r, "(snd %s)" % r
        if e[0] == "call" and e[1] == "Some" and e[2][0][0] == "struct" and e[2][0][1] == "OffCpuSampleGroup":
            fs = dict(e[2][0][2])
            if sorted(fs) != ["begin_timestamp", "end_timestamp", "sample_count"]:
                raise XlateError("OffCpuSampleGroup fields changed")
            return s, "(OGroup %s %s %s)" % tuple(self.expr(fs[x], s, binds, flags) for x in ("begin_timestamp", "end_timestamp", "sample_count"))
        if e[0] == "call" and e[1] == "std::mem::replace" and len(e[2]) == 2 and e[2][0][0] == "var" and e[2][0][1].startswith("thread."):
            f = e[2][0][1][len("thread."):]
            old = self.fresh("old")
            binds.append("let %s := (%s %s) in" % (old, FIELDS[f], s))
            return self.upd(s, FIELDS[f], self.expr(e[2][1], s, [], [])), "(ODelta %s)" % old
        raise XlateError("result expression %r not understood" % (e,))

    def block(self, blk, s, want_value):
        """Coq term of type (cs * out) if want_value else cs"""
        stmts, tail = blk
        lines = []
        cur = s
        for idx, st in enumerate(stmts):
            k = st[0]
            binds, flags = [], []
            if k == "let":
                if st[2][0] == "match":
                    ns = self.fresh("s")
                    lines.append("let '(%s, v_%s) := %s in" % (ns, st[1], self.match(st[2], cur, True)))
                    cur = ns
                else:
                    v = self.expr(st[2], cur, binds, flags)
                    lines += binds
                    lines.append("let v_%s := %s in" % (st[1], v))
                    if flags:
                        ns = self.fresh("s")
                        lines.append("let %s := %s in" % (ns, self.upd(cur, flags=flags)))
                        cur = ns
            elif k == "assign":
                ns = self.fresh("s")
                if st[1] == "state":
                    v = self.state_expr(st[3], cur, binds, flags)
                    lines += binds
                    lines.append("let %s := %s in" % (ns, self.upd(cur, "st", v, flags)))
                else:
                    if st[1] not in FIELDS:
                        raise XlateError("assignment to thread.%s not understood" % st[1])
                    v = self.expr(st[3], cur, binds, flags)
                    lines += binds
                    f = FIELDS[st[1]]
                    newv = "((%s %s) + %s)" % (f, cur, v) if st[2] == "+=" else v
                    lines.append("let %s := %s in" % (ns, self.upd(cur, f, newv, flags)))
                cur = ns
            elif k == "assert":
                if st[2] is None:
                    c = "(negb %s)" % self.expr(st[1], cur, binds, flags)
                else:
                    c = "(negb (%s =? %s))" % (self.expr(st[1], cur, binds, flags), self.expr(st[2], cur, binds, flags))
                lines += binds
                ns = self.fresh("s")
                lines.append("let %s := %s in" % (ns, self.upd(cur, flags=flags + [c])))
                cur = ns
            elif k == "ifret":
                c = self.expr(st[1], cur, binds, flags)
                if flags:
                    raise XlateError("a condition that can panic is not understood")
                lines += binds
                rest = self.block((stmts[idx + 1:], tail), cur, want_value)
                lines.append("if %s then %s else\n%s" % (c, "(%s, ONothing)" % cur if want_value else cur, rest))
                return "\n".join(lines)
            elif k == "matchstmt":
                ns = self.fresh("s")
                lines.append("let %s := %s in" % (ns, self.match(st[1], cur, False)))
                cur = ns
            elif k == "return":
                raise XlateError("`return` outside `if c { return None; }` is not understood")
            else:
                raise XlateError("statement %r not understood" % (st,))
        if want_value:
            if tail is None:
                raise XlateError("a value was expected at the end of a block")
            binds, flags = [], []
            ns, v = self.value(tail, cur, binds, flags)
            lines += binds
            if flags:
                raise XlateError("a result expression that can panic is not understood")
            lines.append("(%s, %s)" % (ns, v))
        else:
            if tail is not None:
                raise XlateError("unexpected value at the end of a block")
            lines.append(cur)
        return "\n".join(lines)

    def match(self, m, s, want_value):
        arms = {}
        for pat, binder, body in m[1]:
            arms[pat.split("::")[-1]] = (binder, body)
        if sorted(arms) != ["Off", "On", "Unknown"]:
            raise XlateError("match thread.state must have exactly the arms Unknown / On / Off")
        out = ["(match st %s with" % s]
        for name in ("Unknown", "On", "Off"):
            binder, body = arms[name]
            pat = name if name == "Unknown" else "%s %s" % (name, ("v_" + binder) if binder else "_")
            out.append("| %s =>\n%s" % (pat, self.block(body, s, want_value)))
        out.append("end)")
        return "\n".join(out)


def generate(src):
    fns = parse_impl(src)
    need = ["handle_switch_out", "handle_switch_in", "handle_on_cpu_sample", "maybe_consume_off_cpu", "consume_cpu_delta"]
    for n in need:
        if n not in fns:
            raise XlateError("fn %s not found in impl ContextSwitchHandler" % n)
    extra = sorted(set(fns) - set(need) - {"new"})
    if extra:
        raise XlateError("impl ContextSwitchHandler has methods the translator does not know: %s" % ", ".join(extra))
    g = Gen()
    out = ["(* GENERATED by tools/xlate_cs.py from samply/src/shared/context_switch.rs on every run.  Do not edit. *)",
           "From SV Require Import Model.ContextSwitch.", "Open Scope N_scope.", "",
           "(* checked u64 division *)", "Definition cdiv (a b : N) : N * bool := (a / b, b =? 0).", ""]
    for name in ["maybe_consume_off_cpu", "handle_switch_out", "handle_switch_in", "handle_on_cpu_sample", "consume_cpu_delta"]:
        params, ret, blk = fns[name]
        want = ret != ""
        has_t = "timestamp" in params
        sig = "(I %s: N) (s : cs)" % ("t " if has_t else "") if name != "consume_cpu_delta" else "(s : cs)"
        if name == "handle_switch_out":
            sig = "(t : N) (s : cs)"
        body = g.block(blk, "s", want)
        out.append("Definition g_%s %s : %s :=\n%s." % (name, sig, "cs * out" if want else "cs", body))
        out.append("")
    return "\n".join(out)


if __name__ == "__main__":
    import sys
    print(generate(open(sys.argv[1] if len(sys.argv) > 1 else "/repo/samply/src/shared/context_switch.rs").read()))
