#!/bin/bash
# Independent re-check of every compiled property file (and everything it depends on) with coqchk; prints the context summary.
cd /verif/coq || exit 1
mods=$(ls Properties/*.vo | sed 's/\.vo$//; s#/#.#g; s/^/SV./')
coqchk -silent -o -Q . SV $mods
