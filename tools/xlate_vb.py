# Translator: samply/src/linux_shared/svma_file_range.rs  ->  coq/Generated/VmaBiasGen.v     (C02: where a mapped file's code lies relative to its base)
#
# `SvmaFileRange::encompasses_file_range`, `SvmaFileRange::is_encompassed_by_file_range` and `compute_vma_bias_impl` are parsed (the reader of
# tools/xlate_lm.py) and re-emitted as Gallina over the model's `seg` records (Model/ConverterMaps.v):
#   g_encompasses_file_range, g_is_encompassed_by_file_range : seg -> N -> N -> option bool      (None = a u64 addition overflows: a debug build panics)
#   g_compute_vma_bias_impl : list seg -> N -> N -> N -> option (option N)                        (outer None = panic, inner None = no segment found)
# u64 `+` and `-` are the checked ones of a debug build, `wrapping_sub` wraps.  `iter().find(|c| ..)` is `find` over the list: the FIRST segment that
# satisfies the closure.  Proofs/VmaBiasGenProofs.v proves: whenever the translation does not panic it returns exactly Model/ConverterMaps.v's
# vma_bias (the function the C02 theorems are stated over), and it does not panic as long as the offsets involved stay below 2^64 and the
# mapping's address is not below the distance from the mapping's file offset back to the segment's.
import re
import xlate_fl as F
import xlate_lm as L

XlateError = F.XlateError
FIELD = {"svma": "sg_svma", "file_offset": "sg_off", "size": "sg_size"}


class Gen:
    def __init__(self):
        self.n = 0

    def fresh(self, p):
        self.n += 1
        return "%s%d_" % (p, self.n)

    def ex(self, e, env, chk):
        """N-valued expression; checked operations are appended to chk as (binder, term) and their binder is returned"""
        k = e[0]
        if k == "num":
            return str(e[1])
        if k == "var":
            if e[1] in env:
                return env[e[1]]
            raise XlateError("variable %s not understood" % e[1])
        if k == "field" and e[1][0] == "var" and e[1][1] in env and e[2] in FIELD:
            return "(%s %s)" % (FIELD[e[2]], env[e[1][1]])
        if k == "bin" and e[1] in "+-":
            a, b = self.ex(e[2], env, chk), self.ex(e[3], env, chk)
            x = self.fresh("x")
            chk.append((x, "%s %s %s" % ("cadd64" if e[1] == "+" else "csub64", a, b)))
            return x
        if k == "mcall" and e[2] == "wrapping_sub" and len(e[3]) == 1:
            return "(wsub64 %s %s)" % (self.ex(e[1], env, chk), self.ex(e[3][0], env, chk))
        raise XlateError("expression %r not understood" % (e,))

    def cond(self, e, env, chk):
        if e[0] == "cmp":
            a, b = self.ex(e[2], env, chk), self.ex(e[3], env, chk)
            return {"<": "(%s <? %s)" % (a, b), ">": "(%s <? %s)" % (b, a), "<=": "(%s <=? %s)" % (a, b), ">=": "(%s <=? %s)" % (b, a), "==": "(%s =? %s)" % (a, b)}[e[1]]
        raise XlateError("condition %r not understood" % (e,))

    @staticmethod
    def wrap(chk, body):
        out = body
        for x, t in reversed(chk):
            out = "match %s with None => None | Some %s =>\n  %s end" % (t, x, out)
        return out

    def gen_pred(self, name, blk, params):
        """fn(&self, a: u64, b: u64) -> bool:  lets, then a conjunction of comparisons"""
        stmts, tail = blk
        env = {"self": "s", params[0]: "off", params[1]: "size"}
        chk = []
        lets = []
        for st in stmts:
            if st[0] != "let" or not isinstance(st[1], str):
                raise XlateError("%s: statement %r not understood" % (name, st[0]))
            v = self.ex(st[2], env, chk)
            env[st[1]] = v
        if tail is None:
            raise XlateError("%s: no result" % name)
        res = self.conj(tail, env, chk)
        return "Definition g_%s (s : seg) (off size : N) : option bool :=\n  %s." % (name, self.wrap(chk, "Some %s" % res))

    def conj(self, e, env, chk):
        # a && b is parsed by the shared reader as a comparison chain only when written without &&; handle the token-level && here
        if e[0] == "and":
            return "(%s && %s)" % (self.conj(e[1], env, chk), self.conj(e[2], env, chk))
        return self.cond(e, env, chk)


class P(L.P):
    """adds `a && b` / `a || b` at the lowest precedence"""

    def expr(self, nostruct=False):
        a = L.P.expr(self, nostruct)
        while self.peek() in ("&&", "||"):
            op = self.eat()
            b = L.P.expr(self, nostruct)
            a = ("and" if op == "&&" else "or", a, b)
        return a


def parse_fn(src, regex, what):
    m = re.search(regex, src)
    if not m:
        raise XlateError("%s not found" % what)
    i = m.end() - 1
    j = F.find_block(src, i)
    p = P(L.tokenize(src[i:j + 1]))
    blk = p.block()
    if p.peek() is not None:
        raise XlateError("trailing tokens in %s" % what)
    return m, blk


def generate(src):
    src = F.strip(src)
    src = re.sub(r"#\[cfg\(test\)\]\s*mod test \{.*\Z", "", src, flags=re.S)
    src = re.sub(r"///[^\n]*", "", src)
    g = Gen()
    m1, b1 = parse_fn(src, r"pub fn encompasses_file_range\(&self,\s*(\w+): u64,\s*(\w+): u64,?\s*\)\s*->\s*bool\s*\{", "encompasses_file_range")
    m2, b2 = parse_fn(src, r"pub fn is_encompassed_by_file_range\(\s*&self,\s*(\w+): u64,\s*(\w+): u64,?\s*\)\s*->\s*bool\s*\{", "is_encompassed_by_file_range")
    p1 = g.gen_pred("encompasses_file_range", b1, [m1.group(1), m1.group(2)])
    p2 = g.gen_pred("is_encompassed_by_file_range", b2, [m2.group(1), m2.group(2)])
    m3, b3 = parse_fn(src, r"fn compute_vma_bias_impl\(\s*(\w+): &\[SvmaFileRange\],\s*(\w+): u64,\s*(\w+): u64,\s*(\w+): u64,?\s*\)\s*->\s*Option<u64>\s*\{", "compute_vma_bias_impl")
    contributions, p_off, p_avma, p_size = m3.groups()
    stmts, tail = b3
    if len(stmts) != 3 or any(st[0] != "let" for st in stmts):
        raise XlateError("compute_vma_bias_impl: expected three lets (the reference segment, its address, the bias)")
    # 1. let r = if let Some(c) = contributions.iter().find(|c| c.A(off, size) || c.B(off, size)) { c } else { println!(..); return None; };
    rname, e = stmts[0][1], stmts[0][2]
    if e[0] != "iflet" or e[1][0] != "ctor" or e[1][1] != "Some" or e[4] is None:
        raise XlateError("compute_vma_bias_impl: the reference segment must come from `if let Some(c) = .. { c } else { .. return None; }`")
    cvar = e[1][2][0]
    if e[3] != ([], ("var", cvar)):
        raise XlateError("compute_vma_bias_impl: the then-branch must be the found segment")
    es, et = e[4]
    if et is not None or not es or es[-1] != ("return", ("var", "None")) or any(st[0] != "exprstmt" or st[1][0] != "macro" for st in es[:-1]):
        raise XlateError("compute_vma_bias_impl: the else-branch must (print and) return None")
    sc = e[2]
    if not (sc[0] == "mcall" and sc[2] == "find" and sc[1] == ("mcall", ("var", contributions), "iter", []) and len(sc[3]) == 1 and sc[3][0][0] == "closure" and len(sc[3][0][1]) == 1):
        raise XlateError("compute_vma_bias_impl: the segment must be chosen by %s.iter().find(|c| ..)" % contributions)
    fv = sc[3][0][1][0]

    def pred(x):
        if x[0] in ("and", "or"):
            a, b = pred(x[1]), pred(x[2])
            # short-circuit evaluation: the right operand is not evaluated (and cannot panic) when the left one decides
            if x[0] == "or":
                return "(match %s with None => None | Some true => Some true | Some false => %s end)" % (a, b)
            return "(match %s with None => None | Some false => Some false | Some true => %s end)" % (a, b)
        if x[0] == "mcall" and x[1] == ("var", fv) and x[2] in ("encompasses_file_range", "is_encompassed_by_file_range") and x[3] == [("var", p_off), ("var", p_size)]:
            return "(g_%s c_ off size)" % x[2]
        raise XlateError("compute_vma_bias_impl: closure %r not understood" % (x,))
    closure = pred(sc[3][0][2])
    # 2. let ref_avma = if c.file_offset > off { avma + (c.file_offset - off) } else { avma - (off - c.file_offset) };
    aname, e2 = stmts[1][1], stmts[1][2]
    env = {rname: "s", p_off: "off", p_avma: "avma", p_size: "size"}
    if e2[0] != "if" or e2[3] is None or e2[2][0] or e2[3][0]:
        raise XlateError("compute_vma_bias_impl: the segment's address must be an if / else of two expressions")
    chk_c = []
    c = g.cond(e2[1], env, chk_c)
    if chk_c:
        raise XlateError("compute_vma_bias_impl: a condition that can panic is not understood")
    ct, ce = [], []
    vt = g.ex(e2[2][1], env, ct)
    ve = g.ex(e2[3][1], env, ce)
    # 3. let bias = ref_avma.wrapping_sub(r.svma);   Some(bias)
    bname, e3 = stmts[2][1], stmts[2][2]
    env2 = dict(env)
    env2[aname] = "ref_avma"
    cb = []
    vb = g.ex(e3, env2, cb)
    if cb:
        raise XlateError("compute_vma_bias_impl: the bias must not use checked arithmetic")
    if tail != ("call", "Some", None, [("var", bname)]):
        raise XlateError("compute_vma_bias_impl: the result must be Some(%s)" % bname)
    body = ("match g_find_seg (fun c_ => %s) segs with\n  | None => None\n  | Some None => Some None\n  | Some (Some s) =>\n"
            "      match (if %s then\n  %s\n else\n  %s) with\n      | None => None\n      | Some ref_avma => Some (Some %s)\n      end\n  end"
            % (closure, c, Gen.wrap(ct, "Some %s" % vt), Gen.wrap(ce, "Some %s" % ve), vb))
    known = {"from_segment", "from_section", "encompasses_file_range", "is_encompassed_by_file_range", "fmt", "compute_vma_bias", "compute_vma_bias_impl"}
    others = sorted(set(re.findall(r"\bfn (\w+)", src)) - known)
    if others:
        raise XlateError("functions the translator does not know: %s" % ", ".join(others))
    out = ["(* GENERATED by tools/xlate_vb.py from samply/src/linux_shared/svma_file_range.rs on every run.  Do not edit. *)",
           "From SV Require Import Model.ConverterMaps.", "From Coq Require Import ZArith List Bool.", "Import ListNotations.", "Open Scope bool_scope.", "Open Scope N_scope.", "",
           "(* u64 arithmetic as in a debug build (None = panic) and the wrapping subtraction *)",
           "Definition cadd64 (a b : N) : option N := if a + b <? 2 ^ 64 then Some (a + b) else None.",
           "Definition csub64 (a b : N) : option N := if b <=? a then Some (a - b) else None.",
           "Definition wsub64 (a b : N) : N := u64 (Z.of_N a - Z.of_N b).", "",
           "(* slice::iter().find with a predicate that may panic: the first element for which it holds; elements after it are not looked at *)",
           "Fixpoint g_find_seg (p : seg -> option bool) (l : list seg) : option (option seg) :=",
           "  match l with",
           "  | [] => Some None",
           "  | x :: r => match p x with None => None | Some true => Some (Some x) | Some false => g_find_seg p r end",
           "  end.", "",
           p1, "", p2, "",
           "Definition g_compute_vma_bias_impl (segs : list seg) (off avma size : N) : option (option N) :=\n  %s." % body, ""]
    return "\n".join(out)


if __name__ == "__main__":
    import sys
    print(generate(open(sys.argv[1] if len(sys.argv) > 1 else "/repo/samply/src/linux_shared/svma_file_range.rs").read()))
