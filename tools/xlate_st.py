# Translator: fxprof-processed-profile/src/sample_table.rs  ->  coq/Generated/SampleTableGen.v     (C04: how the sample table is filled)
#
# `SampleTable::new`, `add_sample` and `modify_last_sample` are parsed (the reader of tools/xlate_ho.py plus assignments through `*x.last_mut().unwrap()`,
# indexing and `len()`) and re-emitted, statement by statement, as Gallina over a record with the struct's own fields - four parallel column lists,
# the sortedness flag and the last timestamp:
#   g_new : gtable        g_add_sample : gtable -> N -> N -> N -> Z -> gtable        g_modify_last_sample : gtable -> N -> Z -> option gtable
# (None = `unwrap()` on an empty column or an index out of bounds: a panic).  Proofs/SampleTableGenProofs.v proves that, read row by row, the columns
# are exactly the entry list of Model/SampleTable.v after the corresponding model step (t_add / t_modify_last) - the functions the C04 theorems
# are stated over.
import re
import xlate_fl as F
import xlate_lm as L
import xlate_ho as H

XlateError = F.XlateError

COLS = {"sample_weights": ("g_weights", "Z"), "sample_timestamps": ("g_times", "N"), "sample_stack_indexes": ("g_stacks", "N"), "sample_cpu_deltas": ("g_cpus", "N")}
SCALARS = {"is_sorted_by_time": "g_sorted", "last_sample_timestamp": "g_last"}
ORDER = ["g_weights", "g_times", "g_stacks", "g_cpus", "g_sorted", "g_last"]


class P(H.P):
    def postfix(self, nostruct):
        e = self.atom(nostruct)
        while True:
            v = self.peek()
            if v == ".":
                self.eat()
                name = self.eat()
                if self.peek() == "(":
                    e = ("mcall", e, name, self.args())
                else:
                    e = ("field", e, name)
            elif v == "?":
                self.eat()
                e = ("try", e)
            elif v == "[":
                self.eat("[")
                i = self.expr()
                self.eat("]")
                e = ("index", e, i)
            else:
                return e

    def unary(self, nostruct):
        if self.peek() == "*":
            self.eat()
            return ("deref", self.unary(nostruct))
        return H.P.unary(self, nostruct)

    def block(self):
        self.eat("{")
        stmts, tail = [], None
        while self.peek() != "}":
            if self.peek() in ("let", "return"):
                stmts.append(H._one_statement(self)[1])
                continue
            e = self.expr()
            if self.peek() in ("=", "+="):
                op = self.eat()
                rhs = self.expr()
                self.eat(";")
                stmts.append(("assign", e, op, rhs))
            elif self.peek() == ";":
                self.eat(";")
                stmts.append(("exprstmt", e))
            elif e[0] in ("if", "iflet", "match") and self.peek() != "}":
                stmts.append(("exprstmt", e))
            else:
                tail = e
                if self.peek() != "}":
                    raise XlateError("tail expression not at the end of the block")
        self.eat("}")
        return (stmts, tail)


def self_field(e):
    if e[0] == "field" and e[1] == ("var", "self"):
        return e[2]
    return None


class Gen:
    def __init__(self):
        self.n = 0

    def fresh(self, p):
        self.n += 1
        return "%s%d_" % (p, self.n)

    def get(self, st, f):
        return st[f]

    def val(self, e, st, env, guards):
        """expression -> Coq term; `guards` collects (binder, option-valued term) for operations that may panic"""
        k = e[0]
        if k == "num":
            return str(e[1])
        if k == "var":
            if e[1] in env:
                return env[e[1]]
            raise XlateError("variable %s not understood" % e[1])
        f = self_field(e)
        if f in SCALARS:
            return st[SCALARS[f]]
        if k == "mcall" and e[2] == "len" and self_field(e[1]) in COLS and not e[3]:
            return "(length %s)" % st[COLS[self_field(e[1])][0]]
        if k == "index" and self_field(e[1]) in COLS:
            x = self.fresh("x")
            guards.append((x, "nth_error %s %s" % (st[COLS[self_field(e[1])][0]], self.nat(e[2], st, env, guards))))
            return x
        raise XlateError("expression %r not understood" % (e,))

    def nat(self, e, st, env, guards):
        """usize expression"""
        if e[0] == "bin" and e[1] == "-":
            return "(%s - %s)" % (self.nat(e[2], st, env, guards), self.nat(e[3], st, env, guards))
        if e[0] == "num":
            return str(e[1])
        return self.val(e, st, env, guards)

    def cond(self, e, st, env):
        """condition -> option bool term (None = panic); `&&` short-circuits"""
        if e[0] == "and":
            return "(match %s with None => None | Some false => Some false | Some true => %s end)" % (self.cond(e[1], st, env), self.cond(e[2], st, env))
        if e[0] != "cmp":
            raise XlateError("condition %r not understood" % (e,))
        guards = []
        is_nat = (e[2][0] == "var" and e[2][1] in env and env[e[2][1]].startswith("(length")) or (e[2][0] == "mcall" and e[2][2] == "len")
        if is_nat:
            a, b = self.nat(e[2], st, env, guards), self.nat(e[3], st, env, guards)
            c = {"<": "Nat.ltb %s %s" % (a, b), ">": "Nat.ltb %s %s" % (b, a), "<=": "Nat.leb %s %s" % (a, b), ">=": "Nat.leb %s %s" % (b, a)}[e[1]]
        else:
            a, b = self.val(e[2], st, env, guards), self.val(e[3], st, env, guards)
            c = {"<": "(%s <? %s)%%N" % (a, b), ">": "(%s <? %s)%%N" % (b, a), "<=": "(%s <=? %s)%%N" % (a, b), ">=": "(%s <=? %s)%%N" % (b, a)}[e[1]]
        out = "Some (%s)" % c
        for x, t in reversed(guards):
            out = "match %s with None => None | Some %s => %s end" % (t, x, out)
        return "(%s)" % out

    def stmts(self, stmts, st, env, final):
        """Coq term (option gtable when `partial`, else gtable) for the statements applied to the symbolic state st (field -> term)"""
        if not stmts:
            return final(st)
        s, rest = stmts[0], stmts[1:]
        k = s[0]
        if k == "exprstmt" and s[1][0] == "mcall" and s[1][2] == "push" and self_field(s[1][1]) in COLS and len(s[1][3]) == 1:
            col = COLS[self_field(s[1][1])][0]
            st2 = dict(st)
            st2[col] = "(%s ++ [%s])" % (st[col], self.val(s[1][3][0], st, env, []))
            return self.stmts(rest, st2, env, final)
        if k == "assign":
            lhs, op, rhs = s[1], s[2], s[3]
            f = self_field(lhs)
            if f in SCALARS:
                if op != "=":
                    raise XlateError("%s %s .. not understood" % (f, op))
                st2 = dict(st)
                if rhs == ("var", "false") or rhs == ("var", "true"):
                    st2[SCALARS[f]] = rhs[1]
                else:
                    st2[SCALARS[f]] = self.val(rhs, st, env, [])
                return self.stmts(rest, st2, env, final)
            # *self.COL.last_mut().unwrap() (=|+=) v
            if (lhs[0] == "deref" and lhs[1][0] == "mcall" and lhs[1][2] == "unwrap" and lhs[1][1][0] == "mcall" and lhs[1][1][2] == "last_mut"
                    and self_field(lhs[1][1][1]) in COLS):
                col, ty = COLS[self_field(lhs[1][1][1])]
                v = self.val(rhs, st, env, [])
                nm = self.fresh("c")
                fn = "(fun x_ => %s)" % v if op == "=" else "(fun x_ => (x_ + %s)%%%s)" % (v, ty)
                st2 = dict(st)
                st2[col] = nm
                if not self.partial:
                    raise XlateError("an unwrap() in a function that was expected not to panic")
                return "match upd_last %s %s with None => None | Some %s =>\n  %s end" % (fn, st[col], nm, self.stmts(rest, st2, env, final))
            raise XlateError("assignment to %r not understood" % (lhs,))
        if k == "let" and isinstance(s[1], str):
            env2 = dict(env)
            env2[s[1]] = self.val(s[2], st, env, [])
            return self.stmts(rest, st, env2, final)
        if k == "exprstmt" and s[1][0] == "if" and s[1][3] is None:
            c = self.cond(s[1][1], st, env)
            bs, bt = s[1][2]
            if bt is not None:
                raise XlateError("a value at the end of an if statement")
            # only the sortedness flag may be assigned inside the if: the two branches then differ in that one field
            inner = {}

            def fin(st_in):
                inner.update(st_in)
                return "X"
            self.stmts(bs, st, env, fin)
            changed = [f for f in ORDER if inner.get(f) != st[f]]
            if changed != ["g_sorted"]:
                raise XlateError("the conditional may only change is_sorted_by_time (it changes %s)" % changed)
            b = self.fresh("b")
            st2 = dict(st)
            st2["g_sorted"] = "(if %s then %s else %s)" % (b, inner["g_sorted"], st["g_sorted"])
            if self.partial:
                return "match %s with None => None | Some %s =>\n  %s end" % (c, b, self.stmts(rest, st2, env, final))
            m = re.fullmatch(r"\(Some \((.*)\)\)", c)
            if not m:
                raise XlateError("a condition that can panic in a function that was expected not to panic")
            st2["g_sorted"] = "(if %s then %s else %s)" % (m.group(1), inner["g_sorted"], st["g_sorted"])
            return self.stmts(rest, st2, env, final)
        raise XlateError("statement %r not understood" % (s,))


def parse_fn(src, regex, what):
    m = re.search(regex, src)
    if not m:
        raise XlateError("%s not found" % what)
    i = m.end() - 1
    j = F.find_block(src, i)
    p = P(L.tokenize(src[i:j + 1]))
    blk = p.block()
    if p.peek() is not None:
        raise XlateError("trailing tokens in %s" % what)
    return m, blk


def generate(src):
    src = F.strip(src)
    src = re.sub(r"///[^\n]*", "", src)
    sm = re.search(r"pub struct SampleTable \{(.*?)\n\}", src, re.S)
    if not sm:
        raise XlateError("struct SampleTable not found")
    fields = re.findall(r"(\w+):\s*([^,\n]+),", sm.group(1))
    want = [("sample_weight_type", "WeightType"), ("sample_weights", "Vec<i32>"), ("sample_timestamps", "Vec<Timestamp>"), ("sample_stack_indexes", "Vec<Option<usize>>"),
            ("sample_cpu_deltas", "Vec<CpuDelta>"), ("is_sorted_by_time", "bool"), ("last_sample_timestamp", "Timestamp")]
    if fields != want:
        raise XlateError("the fields of SampleTable changed: %s" % fields)
    g = Gen()
    init = {"g_weights": "tb.(g_weights)", "g_times": "tb.(g_times)", "g_stacks": "tb.(g_stacks)", "g_cpus": "tb.(g_cpus)", "g_sorted": "tb.(g_sorted)", "g_last": "tb.(g_last)"}

    def mk(st):
        return "(mkG %s)" % " ".join(st[f] for f in ORDER)
    # new
    _, b = parse_fn(src, r"pub fn new\(\)\s*->\s*Self\s*\{", "SampleTable::new")
    if not (b[0] == [] and b[1] and b[1][0] == "struct" and b[1][1] == "Self"):
        raise XlateError("new: expected a Self { .. } literal")
    fs = dict(b[1][2])
    for col in COLS:
        if fs.get(col) != ("call", "Vec::new", None, []):
            raise XlateError("new: %s must start as Vec::new()" % col)
    if fs.get("is_sorted_by_time") not in (("var", "true"), ("var", "false")):
        raise XlateError("new: is_sorted_by_time must be a literal")
    lt = fs.get("last_sample_timestamp")
    if not (lt and lt[0] == "call" and lt[1] == "Timestamp::from_nanos_since_reference" and lt[3] and lt[3][0][0] == "num"):
        raise XlateError("new: last_sample_timestamp must be Timestamp::from_nanos_since_reference(<literal>)")
    new = "Definition g_new : gtable := mkG [] [] [] [] %s %d." % (fs["is_sorted_by_time"][1], lt[3][0][1])
    # add_sample
    m, b = parse_fn(src, r"pub fn add_sample\(\s*&mut self,\s*(\w+): Timestamp,\s*(\w+): Option<usize>,\s*(\w+): CpuDelta,\s*(\w+): i32,?\s*\)\s*\{", "SampleTable::add_sample")
    if b[1] is not None:
        raise XlateError("add_sample returns nothing")
    env = {m.group(1): "t", m.group(2): "stack", m.group(3): "cpu", m.group(4): "w"}
    g.partial = False
    add = "Definition g_add_sample (tb : gtable) (t stack cpu : N) (w : Z) : gtable :=\n  %s." % g.stmts(list(b[0]), dict(init), env, mk)
    # modify_last_sample
    m, b = parse_fn(src, r"pub fn modify_last_sample\(&mut self,\s*(\w+): Timestamp,\s*(\w+): i32\)\s*\{", "SampleTable::modify_last_sample")
    if b[1] is not None:
        raise XlateError("modify_last_sample returns nothing")
    env = {m.group(1): "t", m.group(2): "w"}
    g.partial = True
    mod = "Definition g_modify_last_sample (tb : gtable) (t : N) (w : Z) : option gtable :=\n  %s." % g.stmts(list(b[0]), dict(init), env, lambda st: "Some " + mk(st))
    known = {"new", "add_sample", "set_weight_type", "modify_last_sample", "fmt", "serialize"}
    others = sorted(set(re.findall(r"\bfn (\w+)", src)) - known)
    if others:
        raise XlateError("functions the translator does not know: %s" % ", ".join(others))
    out = ["(* GENERATED by tools/xlate_st.py from fxprof-processed-profile/src/sample_table.rs on every run.  Do not edit. *)",
           "From Coq Require Import List NArith ZArith Bool.", "Import ListNotations.", "",
           "(* the struct's fields: four parallel columns (a stack index is 0 for None, k+1 for Some k; a CPU delta and a timestamp are their nanoseconds), the flag, the last timestamp *)",
           "Record gtable := mkG { g_weights : list Z; g_times : list N; g_stacks : list N; g_cpus : list N; g_sorted : bool; g_last : N }.", "",
           "(* *v.last_mut().unwrap() = f(old): None = unwrap() on an empty vector *)",
           "Fixpoint upd_last {A} (f : A -> A) (l : list A) : option (list A) :=",
           "  match l with",
           "  | [] => None",
           "  | [x] => Some [f x]",
           "  | x :: r => match upd_last f r with Some r' => Some (x :: r') | None => None end",
           "  end.", "",
           new, "", add, "", mod, ""]
    return "\n".join(out)


if __name__ == "__main__":
    import sys
    print(generate(open(sys.argv[1] if len(sys.argv) > 1 else "/repo/fxprof-processed-profile/src/sample_table.rs").read()))
