# Translator: samply/src/shared/lib_mappings.rs  ->  coq/Generated/OpQueueGen.v     (C02: replay of the queued mapping operations at flush time)
#
# `LibMappingOpQueueIter::next_op_if_at_or_before`, `LibMappingOp::apply_to` and the regular-library part of `LibMappingsHierarchy::process_ops` /
# `convert_address` are parsed (the reader of tools/xlate_vb.py plus `while let`, tuple patterns in `for`, enum patterns) and re-emitted as
# Gallina over Model/Attribution.v's queue (`list (N * qop)`) and Model/LibMappings.v's table:
#   g_next_op_if_at_or_before : list (N * qop) -> N -> option (qop * list (N * qop))       (peek()?.0 > timestamp => None; otherwise the head is taken)
#   g_apply_to : lm -> qop -> lm                                                            (Add / Move / Remove / Clear on the table)
#   g_process_ops : N -> lm -> list (N * qop) -> lm * list (N * qop)                        (the `while let` loop, a Fixpoint over the queue)
#   g_hier_convert_address : lm -> N -> option (N * N * bool)                               (the regular table is asked first; the model has no jitdump / perf-map tables)
# Proofs/OpQueueGenProofs.v proves them equal to apply_qop / process_ops / convert_address of the models the C02 theorems are stated over.
import re
import xlate_fl as F
import xlate_lm as L
import xlate_vb as V

XlateError = F.XlateError


class P(V.P):
    def block(self):
        self.eat("{")
        stmts, tail = [], None
        while self.peek() != "}":
            v = self.peek()
            if v == "while" and self.peek(1) == "let":
                self.eat("while")
                self.eat("let")
                pat = self.pattern()
                self.eat("=")
                sc = self.expr(nostruct=True)
                b = self.block()
                stmts.append(("whilelet", pat, sc, b))
            elif v == "for" and self.peek(1) == "(":
                self.eat("for")
                self.eat("(")
                names = []
                while self.peek() != ")":
                    names.append(self.eat())
                    if self.peek() == ",":
                        self.eat(",")
                self.eat(")")
                self.eat("in")
                it = self.expr(nostruct=True)
                b = self.block()
                stmts.append(("fortuple", names, it, b))
            else:
                # delegate one statement to the parent's logic by re-using its loop body: parse a sub-block of exactly this statement
                save = self.i
                sub = _one_statement(self)
                if sub[0] == "tail":
                    tail = sub[1]
                    if self.peek() != "}":
                        raise XlateError("tail expression not at the end of the block")
                else:
                    stmts.append(sub[1])
        self.eat("}")
        return (stmts, tail)


def _one_statement(p):
    v = p.peek()
    if v == "let":
        p.eat("let")
        if p.peek() == "(":
            p.eat("(")
            names = []
            while p.peek() != ")":
                names.append(p.eat())
                if p.peek() == ",":
                    p.eat(",")
            p.eat(")")
            name = tuple(names)
        else:
            name = p.eat()
        if p.peek() == ":":
            p.eat(":")
            depth = 0
            while not (p.peek() == "=" and depth == 0):
                t = p.eat()
                depth += {"<": 1, ">": -1}.get(t, 0)
        p.eat("=")
        e = p.expr()
        p.eat(";")
        return ("stmt", ("let", name, e))
    if v == "return":
        p.eat("return")
        e = p.expr()
        p.eat(";")
        return ("stmt", ("return", e))
    e = p.expr()
    if p.peek() == ";":
        p.eat(";")
        return ("stmt", ("exprstmt", e))
    if e[0] in ("if", "iflet", "match") and p.peek() != "}":
        return ("stmt", ("exprstmt", e))
    return ("tail", e)


def parse_fn(src, regex, what):
    m = re.search(regex, src)
    if not m:
        raise XlateError("%s not found" % what)
    i = m.end() - 1
    j = F.find_block(src, i)
    p = P(L.tokenize(src[i:j + 1]))
    blk = p.block()
    if p.peek() is not None:
        raise XlateError("trailing tokens in %s" % what)
    return m, blk


def generate(src):
    src = F.strip(src)
    src = re.sub(r"///[^\n]*", "", src)
    # ---- next_op_if_at_or_before ----
    _, b = parse_fn(src, r"pub fn next_op_if_at_or_before\(&mut self, (\w+): u64\)\s*->\s*Option<LibMappingOp>\s*\{", "next_op_if_at_or_before")
    stmts, tail = b
    peek0 = ("field", ("try", ("mcall", ("field", ("var", "self"), "0"), "peek", [])), "0")
    if not (len(stmts) == 2 and stmts[0][0] == "exprstmt" and stmts[0][1][0] == "if" and stmts[0][1][3] is None
            and stmts[0][1][2] == ([("return", ("var", "None"))], None) and stmts[0][1][1][0] == "cmp" and stmts[0][1][1][2] == peek0
            and stmts[0][1][1][3] == ("var", "timestamp")):
        raise XlateError("next_op_if_at_or_before: expected `if self.0.peek()?.0 <cmp> timestamp { return None; }`")
    cmpop = stmts[0][1][1][1]
    if cmpop not in (">", ">="):
        raise XlateError("next_op_if_at_or_before: comparison %s not understood" % cmpop)
    if not (stmts[1][0] == "let" and isinstance(stmts[1][1], tuple) and len(stmts[1][1]) == 2
            and stmts[1][2] == ("mcall", ("mcall", ("field", ("var", "self"), "0"), "next", []), "unwrap", [])
            and tail == ("call", "Some", None, [("var", stmts[1][1][1])])):
        raise XlateError("next_op_if_at_or_before: expected `let (_t, op) = self.0.next().unwrap(); Some(op)`")
    refuse = "(ts <? t_)" if cmpop == ">" else "(ts <=? t_)"
    nxt = ("Definition g_next_op_if_at_or_before (q : list (N * qop)) (ts : N) : option (qop * list (N * qop)) :=\n"
           "  match q with\n  | [] => None\n  | (t_, o_) :: r_ => if %s then None else Some (o_, r_)\n  end." % refuse)
    # ---- apply_to ----
    _, b = parse_fn(src, r"pub fn apply_to\(self, (\w+): &mut LibMappings<LibMappingInfo>\)\s*\{", "apply_to")
    stmts, tail = b
    m = tail if tail is not None else (stmts[0][1] if len(stmts) == 1 and stmts[0][0] == "exprstmt" else None)
    if not (m and m[0] == "match" and m[1] == ("var", "self")):
        raise XlateError("apply_to: expected `match self { .. }`")
    arms = {}
    for pat, body in m[2]:
        nm = pat[1].split("::")[-1]
        arms[nm] = (pat, body)
    if sorted(arms) != ["Add", "Clear", "Move", "Remove"]:
        raise XlateError("apply_to: the arms must be Add / Move / Remove / Clear, found %s" % sorted(arms))
    LM = ("var", "lib_mappings")
    PAYLOAD = {"Add": {"start_avma": "(m_start x)", "end_avma": "(m_end x)", "relative_address_at_start": "(m_rel x)", "info": "(m_val x)"},
               "Move": {"old_start_avma": "old_s", "new_start_avma": "new_s", "new_end_avma": "new_e"},
               "Remove": {"start_avma": "s"}, "Clear": {}}

    def val(e, env):
        if e[0] == "var" and e[1] in env:
            return env[e[1]]
        if e[0] == "field" and e[1][0] == "var" and e[1][1] in env and isinstance(env[e[1][1]], dict):
            if e[2] not in env[e[1][1]]:
                raise XlateError("apply_to: field %s of the operation is not known" % e[2])
            return env[e[1][1]][e[2]]
        raise XlateError("apply_to: expression %r not understood" % (e,))

    def seq(stmts, tail, env, cur):
        """the table after the statements (state threading over `m`)"""
        if tail is not None:
            stmts = stmts + [("exprstmt", tail)]
        if not stmts:
            return cur
        st, rest = stmts[0], stmts[1:]
        if st[0] != "exprstmt":
            raise XlateError("apply_to: statement %r not understood" % (st[0],))
        e = st[1]
        if e[0] == "mcall" and e[1] == LM and e[2] == "add_mapping" and len(e[3]) == 4:
            a = [val(x, env) for x in e[3]]
            return seq(rest, None, env, "(g_add %s (mkMapping %s %s %s %s))" % (cur, a[0], a[1], a[2], a[3]))
        if e[0] == "mcall" and e[1] == LM and e[2] == "remove_mapping" and len(e[3]) == 1:
            return seq(rest, None, env, "(remove_mapping %s %s)" % (cur, val(e[3][0], env)))
        if e[0] == "mcall" and e[1] == LM and e[2] == "clear" and not e[3]:
            return seq(rest, None, env, "(@nil mapping)")
        if (e[0] == "iflet" and e[1][0] == "ctor_tuple" and e[1][1] == "Some" and len(e[1][2]) == 2 and e[4] is None
                and e[2][0] == "mcall" and e[2][1] == LM and e[2][2] == "remove_mapping" and len(e[2][3]) == 1):
            k = val(e[2][3][0], env)
            env2 = dict(env)
            env2[e[1][2][0]] = "(m_rel y_)"
            env2[e[1][2][1]] = "(m_val y_)"
            removed = "(remove_mapping %s %s)" % (cur, k)
            inner = seq(e[3][0], e[3][1], env2, removed)
            after_some = seq(rest, None, env, "m1_")
            after_none = seq(rest, None, env, "m1_")
            return ("(match bt_find %s %s with\n      | Some y_ => let m1_ := %s in %s\n      | None => let m1_ := %s in %s\n      end)"
                    % (cur, k, inner, after_some, removed, after_none))
        raise XlateError("apply_to: call %r not understood" % (e,))
    emitted = {}
    for nm in ("Add", "Move", "Remove", "Clear"):
        pat, body = arms[nm]
        env = {}
        if pat[0] == "ctor":
            env[pat[2][0]] = PAYLOAD[nm]
        elif PAYLOAD[nm]:
            raise XlateError("apply_to: the %s arm must bind its payload" % nm)
        emitted[nm] = seq(list(body[0]), body[1], env, "m")
    app = ("(* add_mapping on an inverted range panics inside BTreeMap::range; Model/LibMappings.v's step leaves the table alone there (the converter never queues such a range) *)\n"
           "Definition g_add (m : lm) (x : mapping) : lm := match add_mapping m x with Some m' => m' | None => m end.\n"
           "Definition g_apply_to (m : lm) (q : qop) : lm :=\n"
           "  match q with\n"
           "  | QOp (Add x) => %s\n"
           "  | QMove old_s new_s new_e => %s\n"
           "  | QOp (Remove s) => %s\n"
           "  | QOp Clear => %s\n"
           "  end." % (emitted["Add"], emitted["Move"], emitted["Remove"], emitted["Clear"]))
    # ---- process_ops ----
    _, b = parse_fn(src, r"pub fn process_ops\(&mut self, (\w+): u64\)\s*\{", "process_ops")
    stmts, tail = b
    reg1 = ("field", ("field", ("var", "self"), "regular_libs"), "1")
    reg0 = ("field", ("field", ("var", "self"), "regular_libs"), "0")
    if not (tail is None and len(stmts) == 2 and stmts[0][0] == "whilelet" and stmts[0][1] == ("ctor", "Some", ["op"])
            and stmts[0][2] == ("mcall", reg1, "next_op_if_at_or_before", [("var", "timestamp")])
            and stmts[0][3] == ([("exprstmt", ("mcall", ("var", "op"), "apply_to", [reg0]))], None)):
        raise XlateError("process_ops: expected `while let Some(op) = self.regular_libs.1.next_op_if_at_or_before(timestamp) { op.apply_to(&mut self.regular_libs.0); }`")
    if not (stmts[1][0] == "fortuple" and stmts[1][2] == ("field", ("var", "self"), "jitdumps")):
        raise XlateError("process_ops: the second loop must be over self.jitdumps")
    proc = ("Fixpoint g_process_ops (ts : N) (m : lm) (q : list (N * qop)) : lm * list (N * qop) :=\n"
            "  match q with\n  | [] => (m, [])\n"
            "  | (t_, o_) :: r_ =>\n"
            "      match g_next_op_if_at_or_before ((t_, o_) :: r_) ts with\n"
            "      | Some (op, _) => g_process_ops ts (g_apply_to m op) r_\n"
            "      | None => (m, q)\n      end\n  end.")
    # ---- convert_address (hierarchy) ----
    _, b = parse_fn(src, r"pub fn convert_address\(&self, (\w+): u64\)\s*->\s*Option<\(u32, &LibMappingInfo\)>\s*\{", "LibMappingsHierarchy::convert_address")
    stmts, tail = b
    first = stmts[0] if stmts else None
    want = ("exprstmt", ("iflet", ("ctor", "Some", ["x"]), ("mcall", reg0, "convert_address", [("var", "address")]), ([("return", ("call", "Some", None, [("var", "x")]))], None), None))
    if first != want or tail != ("var", "None"):
        raise XlateError("LibMappingsHierarchy::convert_address: the regular table must be asked first and its answer returned")
    conv = "Definition g_hier_convert_address (regular : lm) (a : N) : option (N * N * bool) := convert_address regular a."
    out = ["(* GENERATED by tools/xlate_ho.py from samply/src/shared/lib_mappings.rs on every run.  Do not edit. *)",
           "From SV Require Import Model.LibMappings Model.Attribution.", "Open Scope N_scope.", "",
           nxt, "", app, "", proc, "", conv, ""]
    return "\n".join(out)


if __name__ == "__main__":
    import sys
    print(generate(open(sys.argv[1] if len(sys.argv) > 1 else "/repo/samply/src/shared/lib_mappings.rs").read()))
