# Translator: samply/src/shared/stack_depth_limiting_frame_iter.rs  ->  coq/Generated/FrameLimitGen.v     (C14)
#
# The file is parsed (a small Rust subset: the const-generic function `should_elide_frames`, the state enum, `new` and `next` of the
# iterator: let, if / if let, match on the state with field bindings, `*x += 1`, while loops that pull from the inner iterator, `?`,
# `return Some(..)`, struct literals) and re-emitted as Gallina:
#   g_should_elide_frames  usize arithmetic as in a debug build (None where the Rust code panics: underflow, division by zero)
#   g_state                the enum, one constructor per variant; a FrameHandle field holds the value `next` hands out for it
#   g_new                  the state chosen for a length hint (the label frame is the symbolic `Placeholder elided_count`; the
#                          format string of the label is checked to be "({elided_count} frames elided)")
#   g_loopK                every `while` whose body starts by pulling the inner iterator, as a Fixpoint over the inner list
#   g_next                 one call of next(): (result, state afterwards, rest of the inner iterator)
# Proofs/FrameLimitGenProofs.v proves that calling g_next until it returns None yields exactly Model/FrameLimit.v's `limit` - the function the
# C14 theorems are stated over - so a change to the Rust source that changes what the iterator yields breaks a proof obligation, and one the
# translator cannot read is an extraction error.
import re


class XlateError(Exception):
    pass


TOKEN = re.compile(r'\s*("(?:[^"\\]|\\.)*"|=>|\+=|-=|>=|<=|==|!=|::|\.\.|->|&&|\|\||[A-Za-z_][A-Za-z_0-9]*|\d[\d_]*|[{}()\[\];,=+\-*/<>&.!:?\'])')
LABEL_FORMAT = re.compile(r'^\(\{(\w+)\} frames elided\)$')


def strip(src):
    src = re.sub(r"//[^\n]*", "", src)
    # drop #[test] functions (they are not part of the iterator)
    out, i = [], 0
    for m in re.finditer(r"#\[test\]\s*fn \w+\(\)\s*\{", src):
        if m.start() < i:
            continue
        out.append(src[i:m.start()])
        j = m.end() - 1
        depth = 0
        while True:
            if src[j] == "{":
                depth += 1
            elif src[j] == "}":
                depth -= 1
                if depth == 0:
                    break
            j += 1
        i = j + 1
    out.append(src[i:])
    return "".join(out)


def tokenize(s):
    out, i = [], 0
    while i < len(s):
        m = TOKEN.match(s, i)
        if not m:
            if s[i:].strip() == "":
                break
            raise XlateError("cannot tokenize near: %r" % s[i:i + 30])
        out.append(m.group(1))
        i = m.end()
    return out


def is_ident(t):
    return t is not None and re.fullmatch(r"[A-Za-z_][A-Za-z_0-9]*", t) is not None


class P:
    def __init__(self, toks):
        self.t, self.i = toks, 0

    def peek(self, k=0):
        return self.t[self.i + k] if self.i + k < len(self.t) else None

    def eat(self, x=None):
        v = self.peek()
        if v is None or (x is not None and v != x):
            raise XlateError("expected %r, found %r (token %d: ..%s..)" % (x, v, self.i, " ".join(self.t[max(0, self.i - 6):self.i + 3])))
        self.i += 1
        return v

    # ---------- expressions ----------
    def expr(self, nostruct=False):
        a = self.arith(nostruct)
        if self.peek() in ("<", ">=", "<=", ">", "==", "!="):
            op = self.eat()
            b = self.arith(nostruct)
            return ("cmp", op, a, b)
        return a

    def arith(self, nostruct):
        a = self.term(nostruct)
        while self.peek() in ("+", "-"):
            op = self.eat()
            a = ("bin", op, a, self.term(nostruct))
        return a

    def term(self, nostruct):
        a = self.unary(nostruct)
        while self.peek() in ("*", "/"):
            op = self.eat()
            a = ("bin", op, a, self.unary(nostruct))
        return a

    def unary(self, nostruct):
        v = self.peek()
        if v == "*":
            self.eat()
            return self.unary(nostruct)          # deref: references are transparent here
        if v == "&":
            self.eat()
            if self.peek() == "mut":
                self.eat()
            return self.unary(nostruct)
        return self.postfix(nostruct)

    def postfix(self, nostruct):
        e = self.atom(nostruct)
        while True:
            v = self.peek()
            if v == ".":
                self.eat()
                name = self.eat()
                if self.peek() == "(":
                    e = ("mcall", e, name, self.args())
                else:
                    e = ("field", e, name)
            elif v == "?":
                self.eat()
                e = ("try", e)
            else:
                return e

    def args(self):
        self.eat("(")
        a = []
        while self.peek() != ")":
            a.append(self.expr())
            if self.peek() == ",":
                self.eat(",")
        self.eat(")")
        return a

    def atom(self, nostruct):
        v = self.peek()
        if v == "(":
            self.eat("(")
            items = []
            trailing = False
            while self.peek() != ")":
                items.append(self.expr())
                trailing = False
                if self.peek() == ",":
                    self.eat(",")
                    trailing = True
            self.eat(")")
            if len(items) == 1 and not trailing:
                return items[0]
            return ("tuple", items)
        if v is not None and re.match(r"\d", v):
            return ("num", int(self.eat().replace("_", "")))
        if v is not None and v.startswith('"'):
            return ("str", self.eat()[1:-1])
        if v == "match":
            return self.match()
        if v == "if":
            return self.ifexpr()
        if not is_ident(v):
            raise XlateError("expression expected, found %r" % v)
        # path with optional turbofish
        segs = [self.eat()]
        turbofish = None
        while self.peek() == "::":
            self.eat("::")
            if self.peek() == "<":
                self.eat("<")
                turbofish = self.atom(True)
                self.eat(">")
            else:
                segs.append(self.eat())
        path = "::".join(segs)
        if self.peek() == "!":                                   # macro call
            self.eat("!")
            return ("macro", path, self.args())
        if self.peek() == "(":
            return ("call", path, turbofish, self.args())
        if self.peek() == "{" and not nostruct and re.match(r"[A-Z]", segs[-1]):
            self.eat("{")
            fields = []
            while self.peek() != "}":
                k = self.eat()
                if self.peek() == ":":
                    self.eat(":")
                    fields.append((k, self.expr()))
                else:
                    fields.append((k, ("var", k)))
                if self.peek() == ",":
                    self.eat(",")
            self.eat("}")
            return ("struct", path, fields)
        return ("var", path)

    def pattern(self):
        """Some((a, b)) | Path { f, g } | Path { .. } | ident"""
        name = self.eat()
        while self.peek() == "::":
            self.eat("::")
            name += "::" + self.eat()
        if self.peek() == "(":
            self.eat("(")
            if self.peek() == "(":
                self.eat("(")
                ids = []
                while self.peek() != ")":
                    ids.append(self.eat())
                    if self.peek() == ",":
                        self.eat(",")
                self.eat(")")
                self.eat(")")
                return ("ctor_tuple", name, ids)
            inner = self.eat()
            self.eat(")")
            return ("ctor", name, [inner])
        if self.peek() == "{":
            self.eat("{")
            ids = []
            while self.peek() != "}":
                if self.peek() == "..":
                    self.eat("..")
                    ids.append("..")
                else:
                    ids.append(self.eat())
                if self.peek() == ",":
                    self.eat(",")
            self.eat("}")
            return ("variant", name, ids)
        return ("variant", name, [])

    def ifexpr(self):
        self.eat("if")
        if self.peek() == "let":
            self.eat("let")
            pat = self.pattern()
            self.eat("=")
            scrut = self.expr(nostruct=True)
            then = self.block()
            els = None
            if self.peek() == "else":
                self.eat("else")
                els = self.block()
            return ("iflet", pat, scrut, then, els)
        c = self.expr(nostruct=True)
        then = self.block()
        els = None
        if self.peek() == "else":
            self.eat("else")
            els = self.block()
        return ("if", c, then, els)

    def match(self):
        self.eat("match")
        scrut = self.expr(nostruct=True)
        self.eat("{")
        arms = []
        while self.peek() != "}":
            pat = self.pattern()
            self.eat("=>")
            if self.peek() == "{":
                body = self.block()
            else:
                body = ([], self.expr())
            if self.peek() == ",":
                self.eat(",")
            arms.append((pat, body))
        self.eat("}")
        return ("match", scrut, arms)

    # ---------- statements ----------
    def block(self):
        self.eat("{")
        stmts, tail = [], None
        while self.peek() != "}":
            v = self.peek()
            if v == "let":
                self.eat("let")
                if self.peek() == "mut":
                    self.eat()
                name = self.eat()
                self.eat("=")
                e = self.expr()
                self.eat(";")
                stmts.append(("let", name, e))
            elif v == "while":
                self.eat("while")
                c = self.expr(nostruct=True)
                b = self.block()
                stmts.append(("while", c, b))
            elif v == "return":
                self.eat("return")
                e = self.expr()
                self.eat(";")
                stmts.append(("return", e))
            else:
                e = self.expr()
                if self.peek() in ("=", "+="):
                    op = self.eat()
                    rhs = self.expr()
                    self.eat(";")
                    stmts.append(("assign", e, op, rhs))
                elif self.peek() == ";":
                    self.eat(";")
                    stmts.append(("exprstmt", e))
                elif e[0] in ("if", "iflet", "match") and self.peek() != "}":
                    stmts.append(("exprstmt", e))
                else:
                    tail = e
                    if self.peek() != "}":
                        raise XlateError("tail expression not at the end of the block")
        self.eat("}")
        return (stmts, tail)


def find_block(src, start):
    """src[start] is '{' - returns the index of the matching '}'"""
    depth, j = 0, start
    while True:
        if src[j] == "{":
            depth += 1
        elif src[j] == "}":
            depth -= 1
            if depth == 0:
                return j
        j += 1


def parse_fn(src, regex, what):
    m = re.search(regex, src)
    if not m:
        raise XlateError("%s not found" % what)
    i = m.end() - 1
    j = find_block(src, i)
    p = P(tokenize(src[i:j + 1]))
    blk = p.block()
    if p.peek() is not None:
        raise XlateError("trailing tokens in %s" % what)
    return m, blk


ENUM = "StackDepthLimitingFrameIterState"
TYPES = {"usize": "nat", "FrameHandle": "outf"}


def parse_enum(src):
    m = re.search(r"enum %s \{" % ENUM, src)
    if not m:
        raise XlateError("enum %s not found" % ENUM)
    j = find_block(src, m.end() - 1)
    body = src[m.end():j]
    variants = []
    for vm in re.finditer(r"(\w+)\s*\{([^}]*)\}\s*,?", body):
        fields = []
        for f in vm.group(2).split(","):
            f = f.strip()
            if not f:
                continue
            k, ty = [x.strip() for x in f.split(":")]
            if ty not in TYPES:
                raise XlateError("field type %s of %s::%s not understood" % (ty, ENUM, vm.group(1)))
            fields.append((k, TYPES[ty]))
        variants.append((vm.group(1), fields))
    rest = re.sub(r"(\w+)\s*\{([^}]*)\}\s*,?", "", body).strip()
    if rest:
        raise XlateError("enum %s has a variant that is not a struct variant: %r" % (ENUM, rest[:40]))
    if not variants:
        raise XlateError("enum %s has no variants" % ENUM)
    return variants


class Gen:
    def __init__(self, variants):
        self.variants = dict(variants)
        self.order = [v for v, _ in variants]
        self.loops = []
        self.n = 0
        self.label_var = None
        self.label_format = None

    def fresh(self, p):
        self.n += 1
        return "%s%d_" % (p, self.n)

    # pure expressions over nat / outf; `chk` collects (binder, checked op) pairs for expressions that can panic
    def pure(self, e, chk=None):
        k = e[0]
        if k == "num":
            return str(e[1])
        if k == "var":
            if not re.fullmatch(r"[A-Za-z_][A-Za-z_0-9]*", e[1]):
                raise XlateError("variable %s not understood" % e[1])
            return e[1]
        if k == "bin":
            a, b = self.pure(e[2], chk), self.pure(e[3], chk)
            if e[1] == "+":
                return "(%s + %s)" % (a, b)
            if e[1] == "*":
                return "(%s * %s)" % (a, b)
            if e[1] == "/" and e[3][0] == "num" and e[3][1] > 0:
                return "(%s / %s)" % (a, b)
            if chk is None:
                raise XlateError("an expression that can panic is not understood here: %r" % (e,))
            x = self.fresh("x")
            chk.append((x, "%s %s %s" % ("csub" if e[1] == "-" else "cdiv", a, b)))
            return x
        if k == "cmp":
            a, b = self.pure(e[2], chk), self.pure(e[3], chk)
            return {"<": "(%s <? %s)" % (a, b), ">": "(%s <? %s)" % (b, a), "<=": "(%s <=? %s)" % (a, b), ">=": "(%s <=? %s)" % (b, a),
                    "==": "(%s =? %s)" % (a, b), "!=": "(negb (%s =? %s))" % (a, b)}[e[1]]
        raise XlateError("expression %r not understood" % (e,))

    def variant_term(self, e):
        """a struct literal of the state enum -> constructor application"""
        if e[0] != "struct":
            raise XlateError("a %s literal was expected, found %r" % (ENUM, e[0]))
        name = e[1].split("::")[-1]
        if name not in self.variants or (len(e[1].split("::")) > 1 and e[1].split("::")[-2] != ENUM):
            raise XlateError("state literal %s not understood" % e[1])
        given = dict(e[2])
        want = [f for f, _ in self.variants[name]]
        if sorted(given) != sorted(want):
            raise XlateError("fields of %s::%s literal do not match the enum" % (ENUM, name))
        return "(%s %s)" % (name, " ".join(self.pure(given[f]) for f in want)) if want else name

    # ---- should_elide_frames ----
    def gen_should_elide(self, blk, param):
        def value(b):
            stmts, tail = b
            lines = []
            for st in stmts:
                if st[0] != "let":
                    raise XlateError("should_elide_frames: statement %r not understood" % (st[0],))
                chk = []
                v = self.pure(st[2], chk)
                for x, op in chk:
                    lines.append("match %s with None => None | Some %s =>" % (op, x))
                lines.append("let %s := %s in" % (st[1], v))
                lines.append(("close", len(chk)))
            if tail is None:
                raise XlateError("should_elide_frames: a value was expected")
            if tail == ("var", "None"):
                res = "Some None"
            elif tail[0] == "call" and tail[1] == "Some" and len(tail[3]) == 1 and tail[3][0][0] == "tuple" and len(tail[3][0][1]) == 2:
                a, b2 = tail[3][0][1]
                res = "Some (Some (%s, %s))" % (self.pure(a), self.pure(b2))
            elif tail[0] == "if":
                res = ifv(tail)
            else:
                raise XlateError("should_elide_frames: result %r not understood" % (tail,))
            out, closes = [], 0
            for ln in lines:
                if isinstance(ln, tuple):
                    closes += ln[1]
                else:
                    out.append(ln)
            return "\n".join(out + [res]) + " end" * closes

        def ifv(e):
            if e[3] is None:
                raise XlateError("should_elide_frames: if without else")
            return "(if %s then\n%s\nelse\n%s)" % (self.pure(e[1]), value(e[2]), value(e[3]))
        return "Definition g_should_elide_frames (N %s : nat) : option (option (nat * nat)) :=\n%s." % (param, value(blk))

    # ---- new ----
    def gen_new(self, blk):
        stmts, tail = blk
        if not (tail and tail[0] == "struct" and tail[1] == "Self" and sorted(dict(tail[2])) == ["inner", "state"]
                and dict(tail[2])["inner"] == ("var", "iter") and dict(tail[2])["state"] == ("var", "state")):
            raise XlateError("new: the result must be Self { inner: iter, state }")
        if len(stmts) != 2 or stmts[0][0] != "let" or stmts[1][0] != "let" or stmts[1][1] != "state":
            raise XlateError("new: expected `let <len> = iter.size_hint().0; let state = if let .. else ..;`")
        lenvar, e0 = stmts[0][1], stmts[0][2]
        if e0 != ("field", ("mcall", ("var", "iter"), "size_hint", []), "0"):
            raise XlateError("new: the length must be iter.size_hint().0")
        e = stmts[1][2]
        if e[0] != "iflet" or e[1][0] != "ctor_tuple" or e[1][1] != "Some" or len(e[1][2]) != 2 or e[4] is None:
            raise XlateError("new: expected `if let Some((a, b)) = should_elide_frames::<N>(len) { .. } else { .. }`")
        sc = e[2]
        if not (sc[0] == "call" and sc[1] == "should_elide_frames" and sc[2] is not None and sc[2][0] == "num" and sc[3] == [("var", lenvar)]):
            raise XlateError("new: the scrutinee must be should_elide_frames::<N>(%s)" % lenvar)
        self.limit_literal = sc[2][1]
        a, b = e[1][2]

        def branch(bl):
            st2, tl = bl
            lines = []
            strings = {}
            for st in st2:
                if st[0] != "let":
                    raise XlateError("new: statement %r not understood" % (st[0],))
                name, ex = st[1], st[2]
                if ex[0] == "mcall" and ex[1] == ("var", "profile") and ex[2] == "handle_for_string":
                    arg = ex[3][0] if len(ex[3]) == 1 else None
                    if not (arg and arg[0] == "macro" and arg[1] == "format" and len(arg[2]) == 1 and arg[2][0][0] == "str"):
                        raise XlateError("new: the label string must be format!(\"..\") with the count inlined")
                    fm = LABEL_FORMAT.match(arg[2][0][1])
                    if not fm:
                        raise XlateError("new: the label text is no longer \"({count} frames elided)\": %r" % arg[2][0][1])
                    strings[name] = fm.group(1)
                    self.label_format = arg[2][0][1]
                elif ex[0] == "mcall" and ex[1] == ("var", "profile") and ex[2] == "handle_for_frame_with_label":
                    if not (len(ex[3]) == 4 and ex[3][0] == ("var", "thread") and ex[3][1][0] == "var" and ex[3][1][1] in strings
                            and ex[3][2] == ("var", "category") and ex[3][3] == ("call", "FrameFlags::empty", None, [])):
                        raise XlateError("new: the label frame must be handle_for_frame_with_label(thread, <label string>, category, FrameFlags::empty())")
                    lines.append("let %s := Placeholder %s in" % (name, strings[ex[3][1][1]]))
                    self.label_var = strings[ex[3][1][1]]
                else:
                    lines.append("let %s := %s in" % (name, self.pure(ex)))
            return "\n".join(lines + [self.variant_term(tl)])
        body = ("match g_should_elide_frames g_limit_literal %s with\n| None => None\n| Some (Some (%s, %s)) => Some (\n%s)\n| Some None => Some (\n%s)\nend"
                % (lenvar, a, b, branch(e[3]), branch(e[4])))
        return "Definition g_new (%s : nat) : option g_state :=\n%s." % (lenvar, body)

    # ---- next ----
    def state_now(self, ctx):
        if ctx["override"] is not None:
            return ctx["override"]
        v = ctx["variant"]
        fs = [f for f, _ in self.variants[v]]
        return "(%s %s)" % (v, " ".join(fs)) if fs else v

    def is_pull(self, e):
        return e == ("try", ("mcall", ("field", ("var", "self"), "inner"), "next", [("var", "profile")]))

    def stmts(self, stmts, tail, ctx, cont):
        """code for the statements, then cont(ctx, tail)"""
        if not stmts:
            return cont(ctx, tail)
        st, rest = stmts[0], stmts[1:]
        k = st[0]
        nxt = lambda c: self.stmts(rest, tail, c, cont)
        if k == "let":
            if self.is_pull(st[2]):
                x = self.fresh("x")
                return ("match inner with\n| [] => (None, %s, [])\n| %s :: inner =>\nlet %s := Frame %s in\n%s\nend"
                        % (self.state_now(ctx), x, st[1], x, nxt(ctx)))
            return "let %s := %s in\n%s" % (st[1], self.pure(st[2]), nxt(ctx))
        if k == "assign":
            lhs, op, rhs = st[1], st[2], st[3]
            if lhs == ("field", ("var", "self"), "state"):
                if op != "=":
                    raise XlateError("next: self.state %s .. not understood" % op)
                c2 = dict(ctx)
                c2["override"] = self.variant_term(rhs)
                return nxt(c2)
            if lhs[0] == "var" and is_ident(lhs[1]):
                if ctx["override"] is not None:
                    raise XlateError("next: a field is modified after self.state was replaced")
                v = self.pure(rhs)
                return "let %s := %s in\n%s" % (lhs[1], "(%s + %s)" % (lhs[1], v) if op == "+=" else v, nxt(ctx))
            raise XlateError("next: assignment to %r not understood" % (lhs,))
        if k == "exprstmt" and st[1][0] == "if":
            e = st[1]
            if e[3] is not None:
                raise XlateError("next: if .. else as a statement is not understood")
            bs, bt = e[2]
            if bt is not None:
                raise XlateError("next: a value at the end of an if statement")
            return "if %s then\n%s\nelse\n%s" % (self.pure(e[1]), self.stmts(bs, None, ctx, lambda c, _t: nxt(c)), nxt(ctx))
        if k == "while":
            cond, (bs, bt) = st[1], st[2]
            if bt is not None or not bs or bs[0][0] != "let" or not self.is_pull(bs[0][2]):
                raise XlateError("next: a while loop must begin by pulling the inner iterator (`let _ = self.inner.next(profile)?;`)")
            if ctx["override"] is not None:
                raise XlateError("next: a loop after self.state was replaced")
            fields = [f for f, _ in self.variants[ctx["variant"]]]
            tys = dict(self.variants[ctx["variant"]])
            modified = []
            for b in bs[1:]:
                if b[0] == "assign" and b[1][0] == "var" and b[1][1] in fields:
                    if b[1][1] not in modified:
                        modified.append(b[1][1])
                elif b[0] == "let":
                    pass
                else:
                    raise XlateError("next: statement %r in a loop body not understood" % (b[0],))
            name = "g_loop%d" % (len(self.loops) + 1)
            x = self.fresh("x")
            inner_ctx = {"variant": ctx["variant"], "override": None}
            body_rest = self.stmts(bs[1:], None, inner_ctx, lambda c, _t: "%s %s inner" % (name, " ".join(fields)))
            tup = ", ".join(["false"] + modified + ["[]"])
            tup_ok = ", ".join(["true"] + modified + ["inner"])
            rty = " * ".join(["bool"] + [tys[f] for f in modified] + ["list N"])
            self.loops.append("Fixpoint %s %s (inner : list N) {struct inner} : %s :=\nif %s then\nmatch inner with\n| [] => (%s)\n| %s :: inner =>\nlet %s := Frame %s in\n%s\nend\nelse (%s)."
                              % (name, " ".join("(%s : %s)" % (f, tys[f]) for f in fields), rty, self.pure(cond), tup, x, bs[0][1], x, body_rest, tup_ok))
            ok = self.fresh("ok")
            return ("let '(%s) := %s %s inner in\nif %s then\n%s\nelse (None, %s, inner)"
                    % (", ".join([ok] + modified + ["inner"]), name, " ".join(fields), ok, nxt(ctx), self.state_now(ctx)))
        if k == "return":
            e = st[1]
            if not (e[0] == "call" and e[1] == "Some" and len(e[3]) == 1):
                raise XlateError("next: only `return Some(x);` is understood")
            return "(Some %s, %s, inner)" % (self.pure(e[3][0]), self.state_now(ctx))
        raise XlateError("next: statement %r not understood" % (k,))

    def gen_next(self, blk):
        stmts, tail = blk
        if not (len(stmts) == 1 and stmts[0][0] == "let" and stmts[0][2][0] == "match" and tail == ("call", "Some", None, [("var", stmts[0][1])])):
            raise XlateError("next: expected `let frame = match &mut self.state { .. }; Some(frame)`")
        m = stmts[0][2]
        if m[1] != ("field", ("var", "self"), "state"):
            raise XlateError("next: the match must be on self.state")
        arms = {}
        for pat, body in m[2]:
            if pat[0] != "variant":
                raise XlateError("next: arm pattern %r not understood" % (pat,))
            parts = pat[1].split("::")
            if len(parts) != 2 or parts[0] != ENUM or parts[1] not in self.variants:
                raise XlateError("next: arm %s is not a variant of %s" % (pat[1], ENUM))
            want = [f for f, _ in self.variants[parts[1]]]
            if ".." in pat[2] or pat[2] != want:
                raise XlateError("next: arm %s must bind the fields %s in declaration order" % (pat[1], ", ".join(want)))
            arms[parts[1]] = body
        if sorted(arms) != sorted(self.variants):
            raise XlateError("next: the match does not have one arm per variant")
        out = ["Definition g_next (s : g_state) (inner : list N) : option outf * g_state * list N :=", "match s with"]
        for v in self.order:
            fs = [f for f, _ in self.variants[v]]
            bs, bt = arms[v]
            ctx = {"variant": v, "override": None}

            def fin(c, t):
                if t is None:
                    raise XlateError("next: arm %s has no value" % v)
                return "(Some %s, %s, inner)" % (self.pure(t), self.state_now(c))
            out.append("| %s =>\n%s" % (" ".join([v] + fs), self.stmts(bs, bt, ctx, fin)))
        out.append("end.")
        return "\n".join(out)


def generate(src):
    src = strip(src)
    variants = parse_enum(src)
    g = Gen(variants)
    m, blk = parse_fn(src, r"fn should_elide_frames<const N: usize>\((\w+): usize\)\s*->\s*Option<\(usize, usize\)>\s*\{", "fn should_elide_frames<const N: usize>")
    se = g.gen_should_elide(blk, m.group(1))
    _, blk = parse_fn(src, r"pub fn new\(\s*profile: &mut Profile,\s*iter: ConvertedStackIter<'a>,\s*thread: ThreadHandle,\s*category: SubcategoryHandle,?\s*\)\s*->\s*Self\s*\{", "fn new")
    nw = g.gen_new(blk)
    _, blk = parse_fn(src, r"pub fn next\(&mut self, profile: &mut Profile\)\s*->\s*Option<FrameHandle>\s*\{", "fn next")
    nx = g.gen_next(blk)
    if g.label_var is None:
        raise XlateError("new: no label frame is created")
    # any other function in the file would be something the translation does not account for
    known = {"should_elide_frames", "new", "next"}
    others = sorted(set(re.findall(r"\bfn (\w+)", src)) - known)
    if others:
        raise XlateError("functions the translator does not know: %s" % ", ".join(others))
    out = ["(* GENERATED by tools/xlate_fl.py from samply/src/shared/stack_depth_limiting_frame_iter.rs on every run.  Do not edit. *)",
           "From SV Require Import Model.FrameLimit.", "From Coq Require Import String.", "",
           "(* usize arithmetic as in a debug build: None where the Rust code panics *)",
           "Definition csub (a b : nat) : option nat := if b <=? a then Some (a - b) else None.",
           "Definition cdiv (a b : nat) : option nat := if b =? 0 then None else Some (a / b).", "",
           "(* the argument of format! that makes the label of the placeholder frame *)",
           'Definition g_label_format : string := "%s"%%string.' % g.label_format,
           "Definition g_limit_literal : nat := %d." % g.limit_literal, "",
           se, "",
           "Inductive g_state :=\n%s." % "\n".join("| %s %s" % (v, " ".join("(%s : %s)" % f for f in fs)) for v, fs in variants), "",
           nw, ""] + [l + "\n" for l in g.loops] + [nx, ""]
    return "\n".join(out)


if __name__ == "__main__":
    import sys
    print(generate(open(sys.argv[1] if len(sys.argv) > 1 else "/repo/samply/src/shared/stack_depth_limiting_frame_iter.rs").read()))
