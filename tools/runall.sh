#!/bin/bash
# runs every registered quick check on the current tree (default seed) and prints one line per property
cd /verif
for p in C01 C02 C03 C04 C05 C06 C07 C08 C09 C10 C11 C12 C13 C14 C15 C16 C17 C18 C19 C20; do
  t0=$(date +%s); ./check $p > /tmp/runall_$p.log 2>&1; rc=$?
  echo "$p rc=$rc $(( $(date +%s) - t0 ))s viol=$(grep -c '^VIOLATION' /tmp/runall_$p.log) known=$(grep -c '^KNOWN-FINDING' /tmp/runall_$p.log)"
done
