# Transcription pins: the hand-written Gallina models were transcribed from specific Rust items.  This tool records a digest of the
# normalised text of those items (comments and whitespace removed; `#[cfg(test)]` modules dropped) in tools/pins.json, and
# vlib/common.py::prove recomputes the digests from /repo's current sources on every run.  A digest that no longer matches means the
# code the model was transcribed from has been edited: the transcription (and with it the theorems' bearing on the code) is no longer
# shown to be current - a broken obligation of the properties that list the item, exactly like a translator that cannot re-read its
# input.  The correspondence run then searches for a failing input.   python3 tools/pins.py --update  rewrites the digests (to be used only
# after the model has been re-validated against the edited source).
import hashlib, json, os, re, sys

HERE = os.path.dirname(os.path.abspath(__file__))
PINS = os.path.join(HERE, "pins.json")

# property -> list of "path" (whole file) or "path::fn_a,fn_b" (the named functions, every definition of that name in the file)
SPEC = {
    "C01": ["samply/src/import/perf.rs", "samply/src/linux_shared/processes.rs", "samply/src/linux_shared/process_threads.rs", "samply/src/linux_shared/thread.rs",
            "samply/src/shared/unresolved_samples.rs",
            "samply/src/linux_shared/converter.rs::handle_main_event_sample,handle_fork,handle_exit,handle_comm,handle_exec,handle_thread_rename,handle_context_switch,finish",
            "samply/src/linux_shared/process.rs::notify_dead,finish,recycle_or_get_new_thread",
            "samply/src/shared/process_sample_data.rs::flush_samples_to_profile", "samply/src/linux_shared/converter.rs::get_sample_stack",
            "samply/src/shared/recycling.rs", "samply/src/linux_shared/process.rs::new,rename_with_recycling,rename_without_recycling"],
    "C17": ["samply/src/import/perf.rs", "samply/src/linux_shared/processes.rs", "samply/src/linux_shared/process_threads.rs", "samply/src/linux_shared/thread.rs",
            "samply/src/linux_shared/converter.rs::handle_fork,handle_exit,handle_comm,handle_exec,handle_thread_rename",
            "samply/src/linux_shared/process.rs::notify_dead,finish,rename_without_recycling,recycle_or_get_new_thread"],
    # shared/lib_mappings.rs (op queue, apply_to, process_ops) and linux_shared/svma_file_range.rs (bias) are translated on every run (tools/xlate_ho.py, xlate_vb.py)
    "C02": ["samply/src/shared/process_sample_data.rs", "samply/src/shared/stack_converter.rs",
            "samply/src/linux_shared/converter.rs::handle_fork,handle_comm,get_sample_stack,compute_base_avma,add_module_to_process",
            "samply/src/shared/unresolved_samples.rs", "fxprof-processed-profile/src/library_info.rs", "fxprof-processed-profile/src/global_lib_table.rs"],
    "C03": ["fxprof-processed-profile/src/frame_table.rs", "fxprof-processed-profile/src/func_table.rs", "fxprof-processed-profile/src/stack_table.rs",
            "fxprof-processed-profile/src/resource_table.rs", "fxprof-processed-profile/src/native_symbols.rs", "fxprof-processed-profile/src/global_lib_table.rs",
            "fxprof-processed-profile/src/string_table.rs", "fxprof-processed-profile/src/thread_string_table.rs", "fxprof-processed-profile/src/marker_table.rs", "fxprof-processed-profile/src/category.rs",
            "fxprof-processed-profile/src/profile.rs::sorted_threads,add_marker,set_marker_stack,handle_for_stack,handle_for_native_symbol,handle_for_category,handle_for_subcategory,"
            "handle_for_frame_with_label_internal,handle_for_frame_with_address_internal,handle_for_frame_with_address_and_symbol_internal,add_process,add_thread,make_unique_pid_or_tid,"
            "handle_for_stack_frames,add_allocation_sample", "fxprof-processed-profile/src/process.rs", "fxprof-processed-profile/src/thread.rs", "fxprof-processed-profile/src/frame.rs"],
    # sample_table.rs: new / add_sample / modify_last_sample are translated on every run (tools/xlate_st.py); the Serialize impl is transcribed and stays pinned
    "C04": ["fxprof-processed-profile/src/sample_table.rs::serialize", "fxprof-processed-profile/src/counters.rs", "fxprof-processed-profile/src/cpu_delta.rs",
            "fxprof-processed-profile/src/thread.rs::add_sample,add_sample_same_stack_zero_cpu", "fxprof-processed-profile/src/profile.rs::add_sample,add_sample_same_stack_zero_cpu,add_counter_sample"],
    "C05": ["samply-symbols/src/symbol_map_object.rs::new,lookup_relative_address,lookup_sync,file_offset_to_svma,name", "samply-symbols/src/jitdump.rs::lookup_sync,lookup_relative_address",
            "samply-symbols/src/breakpad/symbol_map.rs::lookup_sync", "samply-symbols/src/symbol_map.rs"],
    "C06": ["samply-symbols/src/lib.rs::load_symbol_map,load_binary,load_symbol_map_from_location,load_binary_at_location",
            "samply-symbols/src/elf.rs::get_symbol_map_for_debug_link_candidate,try_to_get_symbol_map_from_debug_link,try_to_load_supplementary_file,compute_debug_link_crc_of_file_contents",
            "samply-symbols/src/macho.rs::get_fat_archive_member,get_fat_archive_members_impl,get_symbol_map_for_fat_archive_member", "samply-symbols/src/debugid_util.rs"],
    "C07": ["samply-api/src/symbolicate/mod.rs", "samply-api/src/symbolicate/looked_up_addresses.rs", "samply-api/src/symbolicate/response_json.rs", "samply-api/src/symbolicate/request_json.rs",
            "samply-api/src/lib.rs", "samply-symbols/src/symbol_map.rs"],
    "C08": ["samply-api/src/hex.rs", "samply-api/src/lib.rs::query_api,to_debug_id", "samply-symbols/src/shared.rs::from_str",
            "samply-symbols/src/breakpad/index.rs::parse_symindex_file", "samply-symbols/src/breakpad/symbol_map.rs::make_symbol_map,lookup_sync",
            "samply-symbols/src/mapped_path.rs::hg_path,git_path,s3_path,cargo_path,parse_special_path"],
    "C09": ["samply-api/src/source/mod.rs", "samply-symbols/src/lib.rs::load_source_file", "samply-symbols/src/symbol_map.rs", "samply-api/src/lib.rs"],
    "C10": ["samply-symbols/src/breakpad/index.rs", "samply-symbols/src/breakpad/symbol_map.rs"],
    # fxprof-processed-profile/src/lib_mappings.rs is not pinned: it is translated on every run (tools/xlate_lm.py) and the translation is proved equal to the model
    "C11": ["fxprof-processed-profile/src/process.rs::convert_address,add_lib_mapping,remove_lib_mapping,remove_all_lib_mappings", "fxprof-processed-profile/src/profile.rs::resolve_frame_address,add_lib_mapping,remove_lib_mapping,add_kernel_lib_mapping,remove_kernel_lib_mapping,clear_process_lib_mappings"],
    "C12": ["samply/src/shared/context_switch.rs"],
    "C13": ["samply-symbols/src/cache.rs", "samply-symbols/src/chunked_read_buffer_manager.rs"],
    # stack_depth_limiting_frame_iter.rs is not pinned: it is translated on every run (tools/xlate_fl.py) and the translation is proved equal to the model
    "C14": ["samply/src/shared/process_sample_data.rs", "samply/src/shared/stack_converter.rs"],
    "C15": ["samply-quota-manager/src/file_inventory.rs", "samply-quota-manager/src/quota_manager.rs"],
    "C16": ["wholesym/src/file_creation.rs", "wholesym/src/breakpad.rs::write_symindex", "wholesym/src/downloader.rs::download_to_file"],
    "C18": ["samply/src/server.rs::generate_token,symbolication_service,start_server,run_server"],
    "C19": ["fxprof-processed-profile/src/library_info.rs", "samply/src/profile_json_preparse.rs", "wholesym/src/helper.rs::add_known_lib,fill_in_library_info_details,check_file_exists,load_file_impl",
            "samply-symbols/src/shared.rs::from_str,fmt", "samply/src/linux_shared/converter.rs::add_module_to_process,library_info_with_object", "samply/src/shared/utils.rs::open_file_with_fallback",
            "samply-symbols/src/debugid_util.rs", "samply/src/shared/save_profile.rs"],
    "C20": ["samply-api/src/asm/mod.rs", "samply-api/src/asm/request_json.rs", "samply-api/src/asm/response_json.rs", "samply-symbols/src/binary_image.rs::read_bytes_at_relative_address"],
}


def _strip(src):
    # string literals are kept; line comments and block comments go
    out, i, n = [], 0, len(src)
    while i < n:
        c = src[i]
        if c == '"':
            j = i + 1
            while j < n and src[j] != '"':
                j += 2 if src[j] == "\\" else 1
            out.append(src[i:j + 1])
            i = j + 1
        elif src.startswith("//", i):
            j = src.find("\n", i)
            i = n if j < 0 else j
        elif src.startswith("/*", i):
            j = src.find("*/", i + 2)
            i = n if j < 0 else j + 2
        else:
            out.append(c)
            i += 1
    return "".join(out)


def _match_brace(s, i):
    depth = 0
    while i < len(s):
        if s[i] == "{":
            depth += 1
        elif s[i] == "}":
            depth -= 1
            if depth == 0:
                return i
        i += 1
    return -1


def _drop_tests(s):
    while True:
        m = re.search(r"#\[cfg\(test\)\]\s*mod\s+\w+\s*\{", s)
        if not m:
            return s
        e = _match_brace(s, m.end() - 1)
        if e < 0:
            return s[:m.start()]
        s = s[:m.start()] + s[e + 1:]


def _abstract_constants(path, raw):
    """the literals tools/consts.py translates into Generated/Consts.v are not part of the pinned text: the models and proofs are
    parametric in them, so a changed value is handled by regeneration, not by the pin"""
    try:
        import consts
    except ImportError:
        sys.path.insert(0, HERE)
        import consts
    for name, rel, rx, kind in consts.SPEC:
        if rel != path or kind not in ("N",):
            continue
        ms = list(re.finditer(rx, raw, re.M))
        if len(ms) == 1:
            a, b = ms[0].span(1)
            raw = raw[:a] + "<" + name + ">" + raw[b:]
    if path == "samply-api/src/asm/mod.rs":
        raw = re.sub(r"(const ADJUST_BY_AFTER_ERROR: usize = )\d+;", r"\1<adjust>;", raw)
    return raw


def item_text(repo, spec):
    path, _, fns = spec.partition("::")
    p = os.path.join(repo, path)
    if not os.path.exists(p):
        return None
    s = _drop_tests(_strip(_abstract_constants(path, open(p, encoding="utf-8", errors="replace").read())))
    if not fns:
        return re.sub(r"\s+", " ", s).strip()
    parts = []
    for fn in fns.split(","):
        found = False
        for m in re.finditer(r"\bfn\s+%s\b" % re.escape(fn), s):
            b = s.find("{", m.end())
            semi = s.find(";", m.end())
            if b < 0 or (0 <= semi < b):
                continue                       # a declaration without body
            e = _match_brace(s, b)
            if e < 0:
                continue
            parts.append(s[m.start():e + 1])
            found = True
        if not found:
            parts.append("<missing fn %s>" % fn)
    return re.sub(r"\s+", " ", " ".join(parts)).strip()


def digest(repo, spec):
    t = item_text(repo, spec)
    return None if t is None else hashlib.sha256(t.encode()).hexdigest()[:20]


def current(repo):
    return {prop: {spec: digest(repo, spec) for spec in specs} for prop, specs in SPEC.items()}


def check(repo, prop):
    """list of problems for one property"""
    try:
        rec = json.load(open(PINS))
    except OSError:
        return ["tools/pins.json is missing"]
    out = []
    for spec in SPEC.get(prop, []):
        want = rec.get(prop, {}).get(spec)
        have = digest(repo, spec)
        if want is None:
            out.append("transcription pin %s has no recorded digest" % spec)
        elif have != want:
            out.append("transcription pin: %s was edited since the model was transcribed from it (digest %s, recorded %s)" % (spec, have, want))
    return out


if __name__ == "__main__":
    repo = "/repo"
    if "--update" in sys.argv:
        cur = current(repo)
        missing = [(p, s) for p, d in cur.items() for s, h in d.items() if h is None]
        json.dump(cur, open(PINS, "w"), indent=1, sort_keys=True)
        print("recorded %d pins" % sum(len(d) for d in cur.values()), "missing files:", missing)
        for p, d in cur.items():
            for s in d:
                t = item_text(repo, s) or ""
                if "<missing fn" in t:
                    print("  NOTE %s %s: %s" % (p, s, re.findall(r"<missing fn \w+>", t)))
    else:
        bad = 0
        for p in SPEC:
            for m in check(repo, p):
                print(p, m)
                bad += 1
        print("ok" if not bad else "%d mismatches" % bad)
